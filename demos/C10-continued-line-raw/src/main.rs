use pest::error::{Error, ErrorVariant};
use pest::Span;
fn main() {
    for (input, a, b) in [("a\r\nb\r\nc", 0usize, 6usize), ("ab\ncd\nef", 1, 6), ("ab\ncd\nef", 1, 5)] {
        let span = Span::new(input, a, b).unwrap();
        let e: Error<u8> = Error::new_from_span(ErrorVariant::CustomError { message: "here".into() }, span);
        println!("{:?}\n{}\n", e.to_string(), e);
    }
}
