use pest_debugger::{DebuggerContext, DebuggerEvent};
use std::sync::mpsc::sync_channel;
use std::time::Duration;

#[test]
fn rerun_while_parked_terminates_previous_run() {
    let mut ctx = DebuggerContext::default();
    ctx.load_grammar_direct("g", "a = { \"b\" }\ntop = { a | \"b\" }\n").unwrap();
    ctx.load_input_direct("b".to_owned());
    ctx.add_breakpoint("top".to_owned());
    let (tx, rx) = sync_channel(1);
    ctx.run("top", tx).unwrap();
    // the controller receives every delivered event
    assert_eq!(rx.recv_timeout(Duration::from_secs(5)).unwrap(), DebuggerEvent::Breakpoint("top".to_owned(), 0));
    // ... and starts a new run while the parser is parked at the breakpoint
    let (tx2, rx2) = sync_channel(1);
    let r = ctx.run("top", tx2);
    assert!(r.is_ok(), "re-run failed: {:?}", r.err().map(|e| e.to_string()));
    assert_eq!(rx2.recv_timeout(Duration::from_secs(5)).unwrap(), DebuggerEvent::Breakpoint("top".to_owned(), 0));
    drop(rx);
}
