//! Reproduction of known finding C17 / JOINSEND (not part of any check; copy /repo/Cargo.lock next to Cargo.toml and run
//! `cargo run --offline`).  Prints "second run did NOT return" on the unrepaired tree.
use pest_debugger::DebuggerContext;
use std::sync::mpsc::sync_channel;
use std::time::Duration;

fn main() {
    let mut ctx = DebuggerContext::default();
    ctx.load_grammar_direct("g", "item = { \"a\" }\nlist = { item* }").unwrap();
    ctx.load_input_direct("aaaa".to_owned());
    ctx.add_breakpoint("item".to_owned());
    let (tx, rx) = sync_channel(1);
    ctx.run("list", tx).unwrap();
    println!("first event: {:?}", rx.recv_timeout(Duration::from_secs(5)));
    ctx.cont().unwrap(); // the parser runs on to the next `item`, sends that event (slot now full) and parks
    std::thread::sleep(Duration::from_millis(300));
    let (done_tx, done_rx) = std::sync::mpsc::channel();
    std::thread::spawn(move || {
        let (tx2, rx2) = sync_channel(1);
        let r = ctx.run("list", tx2); // must terminate the previous session and start a new one
        done_tx.send(r.is_ok()).unwrap();
        std::mem::forget(rx2);
    });
    match done_rx.recv_timeout(Duration::from_secs(10)) {
        Ok(ok) => println!("second run returned, ok = {ok}"),
        Err(_) => println!("second run did NOT return within 10 s (undelivered event: {:?})", rx.try_recv()),
    }
}
