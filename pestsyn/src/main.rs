//! pestsyn: extracts what is not usable from HIR — the token templates inside `quote! { .. }` and the
//! argument lists of the generator's helper macros — as JSON.
//!
//!   pestsyn <file.rs>...      one JSON document on stdout:
//!   { "files": [ { "file":…, "macros": [ { "macro", "line", "col", "fn", "template"| "args", "raw" } ] } ] }
//!
//! A `quote!` body is rewritten into parseable Rust: `#x` -> `__i_x`, `#( toks ) sep *` ->
//! `.__rep_begin() toks .__rep_end()` when toks is a method-chain suffix, `__rep!(toks)` otherwise,
//! and then parsed as an expression, a block or an item (fn).  The expression AST is emitted as JSON.
use proc_macro2::{Delimiter, Group, Ident, Punct, Spacing, Span, TokenStream, TokenTree};
use std::fmt::Write as _;
use syn::visit::Visit;

// ------------------------------------------------------------------ JSON
enum J {
    Null,
    Bool(bool),
    Num(i128),
    Str(String),
    Arr(Vec<J>),
    Obj(Vec<(&'static str, J)>),
}
fn esc(s: &str, out: &mut String) {
    out.push('"');
    for c in s.chars() {
        match c {
            '"' => out.push_str("\\\""),
            '\\' => out.push_str("\\\\"),
            '\n' => out.push_str("\\n"),
            '\r' => out.push_str("\\r"),
            '\t' => out.push_str("\\t"),
            c if (c as u32) < 0x20 => {
                let _ = write!(out, "\\u{:04x}", c as u32);
            }
            c => out.push(c),
        }
    }
    out.push('"');
}
impl J {
    fn write(&self, out: &mut String) {
        match self {
            J::Null => out.push_str("null"),
            J::Bool(b) => out.push_str(if *b { "true" } else { "false" }),
            J::Num(n) => {
                let _ = write!(out, "{}", n);
            }
            J::Str(s) => esc(s, out),
            J::Arr(v) => {
                out.push('[');
                for (i, x) in v.iter().enumerate() {
                    if i > 0 {
                        out.push(',');
                    }
                    x.write(out);
                }
                out.push(']');
            }
            J::Obj(v) => {
                out.push('{');
                let mut first = true;
                for (k, x) in v {
                    if let J::Null = x {
                        continue;
                    }
                    if !first {
                        out.push(',');
                    }
                    first = false;
                    esc(k, out);
                    out.push(':');
                    x.write(out);
                }
                out.push('}');
            }
        }
    }
}
fn s(x: impl Into<String>) -> J {
    J::Str(x.into())
}

// ------------------------------------------------------------------ template rewriting

fn rewrite(ts: TokenStream) -> TokenStream {
    let toks: Vec<TokenTree> = ts.into_iter().collect();
    let mut out: Vec<TokenTree> = Vec::new();
    let mut i = 0;
    while i < toks.len() {
        match &toks[i] {
            TokenTree::Punct(p) if p.as_char() == '#' && i + 1 < toks.len() => match &toks[i + 1] {
                TokenTree::Ident(id) => {
                    out.push(TokenTree::Ident(Ident::new(&format!("__i_{}", id), id.span())));
                    i += 2;
                    continue;
                }
                TokenTree::Group(g) if g.delimiter() == Delimiter::Parenthesis => {
                    // repetition: #( ... ) [sep] *
                    let mut j = i + 2;
                    let mut sep: Option<String> = None;
                    if j < toks.len() {
                        if let TokenTree::Punct(q) = &toks[j] {
                            if q.as_char() != '*' {
                                sep = Some(q.as_char().to_string());
                                j += 1;
                            }
                        }
                    }
                    if j < toks.len() {
                        if let TokenTree::Punct(q) = &toks[j] {
                            if q.as_char() == '*' {
                                j += 1;
                            }
                        }
                    }
                    let inner = rewrite(g.stream());
                    let first_is_dot = matches!(inner.clone().into_iter().next(), Some(TokenTree::Punct(ref q)) if q.as_char() == '.');
                    if first_is_dot && sep.is_none() {
                        // `. __rep_begin ( )` inner `. __rep_end ( )`
                        out.push(TokenTree::Punct(Punct::new('.', Spacing::Alone)));
                        out.push(TokenTree::Ident(Ident::new("__rep_begin", Span::call_site())));
                        out.push(TokenTree::Group(Group::new(Delimiter::Parenthesis, TokenStream::new())));
                        out.extend(inner);
                        out.push(TokenTree::Punct(Punct::new('.', Spacing::Alone)));
                        out.push(TokenTree::Ident(Ident::new("__rep_end", Span::call_site())));
                        out.push(TokenTree::Group(Group::new(Delimiter::Parenthesis, TokenStream::new())));
                    } else {
                        out.push(TokenTree::Ident(Ident::new("__rep", Span::call_site())));
                        out.push(TokenTree::Punct(Punct::new('!', Spacing::Alone)));
                        out.push(TokenTree::Group(Group::new(Delimiter::Parenthesis, inner)));
                    }
                    i = j;
                    continue;
                }
                _ => {}
            },
            TokenTree::Group(g) => {
                let mut ng = Group::new(g.delimiter(), rewrite(g.stream()));
                ng.set_span(g.span());
                out.push(TokenTree::Group(ng));
                i += 1;
                continue;
            }
            _ => {}
        }
        out.push(toks[i].clone());
        i += 1;
    }
    out.into_iter().collect()
}

// ------------------------------------------------------------------ expression AST -> JSON

fn path_str(p: &syn::Path) -> String {
    let mut out = String::new();
    if p.leading_colon.is_some() {
        out.push_str("::");
    }
    for (i, seg) in p.segments.iter().enumerate() {
        if i > 0 {
            out.push_str("::");
        }
        out.push_str(&seg.ident.to_string());
    }
    out
}

fn lit(l: &syn::Lit) -> J {
    match l {
        syn::Lit::Str(x) => J::Obj(vec![("k", s("Lit")), ("lk", s("str")), ("v", s(x.value()))]),
        syn::Lit::Char(x) => J::Obj(vec![("k", s("Lit")), ("lk", s("char")), ("v", s(x.value().to_string()))]),
        syn::Lit::Int(x) => J::Obj(vec![
            ("k", s("Lit")),
            ("lk", s("int")),
            ("v", x.base10_parse::<i128>().map(J::Num).unwrap_or(J::Null)),
        ]),
        syn::Lit::Bool(x) => J::Obj(vec![("k", s("Lit")), ("lk", s("bool")), ("v", J::Bool(x.value))]),
        syn::Lit::Byte(x) => J::Obj(vec![("k", s("Lit")), ("lk", s("byte")), ("v", J::Num(x.value() as i128))]),
        other => J::Obj(vec![("k", s("Lit")), ("lk", s("other")), ("v", s(quote_str(other)))]),
    }
}

fn quote_str<T: std::fmt::Debug>(_t: &T) -> String {
    String::from("?")
}

fn pat_name(p: &syn::Pat) -> String {
    match p {
        syn::Pat::Ident(i) => i.ident.to_string(),
        syn::Pat::Type(t) => pat_name(&t.pat),
        syn::Pat::Wild(_) => "_".to_string(),
        _ => "?".to_string(),
    }
}

fn block(b: &syn::Block) -> J {
    let mut stmts = Vec::new();
    let n = b.stmts.len();
    let mut tail = J::Null;
    for (i, st) in b.stmts.iter().enumerate() {
        match st {
            syn::Stmt::Expr(e, semi) => {
                if i + 1 == n && semi.is_none() {
                    tail = expr(e);
                } else {
                    stmts.push(J::Obj(vec![("k", s("Semi")), ("e", expr(e))]));
                }
            }
            syn::Stmt::Local(l) => {
                stmts.push(J::Obj(vec![
                    ("k", s("Let")),
                    ("name", s(pat_name(&l.pat))),
                    ("init", l.init.as_ref().map(|i| expr(&i.expr)).unwrap_or(J::Null)),
                ]));
            }
            syn::Stmt::Macro(m) => {
                stmts.push(J::Obj(vec![
                    ("k", s("Semi")),
                    ("e", J::Obj(vec![("k", s("Macro")), ("name", s(path_str(&m.mac.path))), ("tokens", s(m.mac.tokens.to_string()))])),
                ]));
            }
            syn::Stmt::Item(_) => stmts.push(J::Obj(vec![("k", s("Item"))])),
        }
    }
    J::Obj(vec![("k", s("Block")), ("stmts", J::Arr(stmts)), ("expr", tail)])
}

fn expr(e: &syn::Expr) -> J {
    use syn::Expr::*;
    match e {
        MethodCall(m) => J::Obj(vec![
            ("k", s("MethodCall")),
            ("m", s(m.method.to_string())),
            ("recv", expr(&m.receiver)),
            ("args", J::Arr(m.args.iter().map(expr).collect())),
        ]),
        Call(c) => J::Obj(vec![("k", s("Call")), ("f", expr(&c.func)), ("args", J::Arr(c.args.iter().map(expr).collect()))]),
        Closure(c) => J::Obj(vec![
            ("k", s("Closure")),
            ("params", J::Arr(c.inputs.iter().map(|p| s(pat_name(p))).collect())),
            ("body", expr(&c.body)),
        ]),
        Block(b) => block(&b.block),
        Path(p) => J::Obj(vec![("k", s("Path")), ("path", s(path_str(&p.path)))]),
        Lit(l) => lit(&l.lit),
        Range(r) => J::Obj(vec![
            ("k", s("Range")),
            ("start", r.start.as_ref().map(|x| expr(x)).unwrap_or(J::Null)),
            ("end", r.end.as_ref().map(|x| expr(x)).unwrap_or(J::Null)),
            ("closed", J::Bool(matches!(r.limits, syn::RangeLimits::Closed(_)))),
        ]),
        Reference(r) => J::Obj(vec![("k", s("AddrOf")), ("e", expr(&r.expr))]),
        Paren(p) => expr(&p.expr),
        Group(g) => expr(&g.expr),
        Array(a) => J::Obj(vec![("k", s("Array")), ("elems", J::Arr(a.elems.iter().map(expr).collect()))]),
        Tuple(a) => J::Obj(vec![("k", s("Tup")), ("elems", J::Arr(a.elems.iter().map(expr).collect()))]),
        Field(f) => J::Obj(vec![
            ("k", s("Field")),
            ("base", expr(&f.base)),
            ("name", s(match &f.member {
                syn::Member::Named(i) => i.to_string(),
                syn::Member::Unnamed(i) => i.index.to_string(),
            })),
        ]),
        Unary(u) => J::Obj(vec![
            ("k", s("Unary")),
            ("op", s(match u.op {
                syn::UnOp::Not(_) => "!",
                syn::UnOp::Neg(_) => "-",
                syn::UnOp::Deref(_) => "*",
                _ => "?",
            })),
            ("e", expr(&u.expr)),
        ]),
        Binary(b) => {
            let mut op = String::new();
            let _ = write!(op, "{}", bin_op(&b.op));
            J::Obj(vec![("k", s("Binary")), ("op", s(op)), ("l", expr(&b.left)), ("r", expr(&b.right))])
        }
        If(i) => J::Obj(vec![
            ("k", s("If")),
            ("cond", expr(&i.cond)),
            ("then", block(&i.then_branch)),
            ("else", i.else_branch.as_ref().map(|(_, e)| expr(e)).unwrap_or(J::Null)),
        ]),
        Macro(m) => J::Obj(vec![
            ("k", s("Macro")),
            ("name", s(path_str(&m.mac.path))),
            ("tokens", s(m.mac.tokens.to_string())),
        ]),
        Cast(c) => expr(&c.expr),
        Return(r) => J::Obj(vec![("k", s("Ret")), ("e", r.expr.as_ref().map(|x| expr(x)).unwrap_or(J::Null))]),
        other => {
            let mut t = String::new();
            let _ = write!(t, "{:?}", std::mem::discriminant(other));
            J::Obj(vec![("k", s("Other")), ("what", s(t))])
        }
    }
}

fn bin_op(op: &syn::BinOp) -> &'static str {
    use syn::BinOp::*;
    match op {
        Add(_) => "+",
        Sub(_) => "-",
        Mul(_) => "*",
        Div(_) => "/",
        And(_) => "&&",
        Or(_) => "||",
        Eq(_) => "==",
        Ne(_) => "!=",
        Lt(_) => "<",
        Le(_) => "<=",
        Gt(_) => ">",
        Ge(_) => ">=",
        _ => "?",
    }
}

fn parse_template(ts: TokenStream) -> J {
    let rw = rewrite(ts);
    if let Ok(e) = syn::parse2::<syn::Expr>(rw.clone()) {
        return J::Obj(vec![("form", s("expr")), ("ast", expr(&e))]);
    }
    if let Ok(f) = syn::parse2::<syn::ItemFn>(rw.clone()) {
        return J::Obj(vec![
            ("form", s("fn")),
            ("name", s(f.sig.ident.to_string())),
            ("vis", s(match f.vis {
                syn::Visibility::Public(_) => "pub",
                syn::Visibility::Restricted(_) => "restricted",
                syn::Visibility::Inherited => "",
            })),
            ("ast", block(&f.block)),
        ]);
    }
    let braced: TokenStream = std::iter::once(TokenTree::Group(Group::new(Delimiter::Brace, rw.clone()))).collect();
    if let Ok(b) = syn::parse2::<syn::Block>(braced) {
        return J::Obj(vec![("form", s("block")), ("ast", block(&b))]);
    }
    J::Obj(vec![("form", s("unparsed"))])
}

// ------------------------------------------------------------------ visiting

struct V {
    file: String,
    fn_stack: Vec<String>,
    out: Vec<J>,
}

impl V {
    fn record(&mut self, mac: &syn::Macro) {
        let name = mac.path.segments.last().map(|x| x.ident.to_string()).unwrap_or_default();
        let start = mac.path.segments.first().map(|x| x.ident.span().start());
        let (line, col) = start.map(|p| (p.line as i128, p.column as i128 + 1)).unwrap_or((0, 0));
        let encl = self.fn_stack.last().cloned().unwrap_or_default();
        let mut o: Vec<(&'static str, J)> = vec![
            ("macro", s(name.clone())),
            ("line", J::Num(line)),
            ("col", J::Num(col)),
            ("fn", s(encl)),
        ];
        match name.as_str() {
            "quote" => {
                o.push(("template", parse_template(mac.tokens.clone())));
                o.push(("raw", s(mac.tokens.to_string())));
            }
            "macro_rules" => return,
            _ => {
                // generic: comma separated expressions
                let parser = syn::punctuated::Punctuated::<syn::Expr, syn::Token![,]>::parse_terminated;
                match syn::parse::Parser::parse2(parser, mac.tokens.clone()) {
                    Ok(args) => o.push(("args", J::Arr(args.iter().map(expr).collect()))),
                    Err(_) => o.push(("raw", s(mac.tokens.to_string()))),
                }
            }
        }
        self.out.push(J::Obj(o));
        // nested macros inside the arguments (e.g. quote! inside a closure passed to a macro) are
        // not visited by syn; parse arguments as expressions and visit them
        if name != "quote" {
            let parser = syn::punctuated::Punctuated::<syn::Expr, syn::Token![,]>::parse_terminated;
            if let Ok(args) = syn::parse::Parser::parse2(parser, mac.tokens.clone()) {
                for a in args.iter() {
                    self.visit_expr(a);
                }
            }
        }
    }
}

impl<'ast> Visit<'ast> for V {
    fn visit_item_fn(&mut self, f: &'ast syn::ItemFn) {
        self.fn_stack.push(f.sig.ident.to_string());
        syn::visit::visit_item_fn(self, f);
        self.fn_stack.pop();
    }
    fn visit_impl_item_fn(&mut self, f: &'ast syn::ImplItemFn) {
        self.fn_stack.push(f.sig.ident.to_string());
        syn::visit::visit_impl_item_fn(self, f);
        self.fn_stack.pop();
    }
    fn visit_item_mod(&mut self, m: &'ast syn::ItemMod) {
        // skip #[cfg(test)] modules
        let is_test = m.attrs.iter().any(|a| {
            a.path().is_ident("cfg") && a.meta.require_list().map(|l| l.tokens.to_string().contains("test")).unwrap_or(false)
        });
        if !is_test {
            syn::visit::visit_item_mod(self, m);
        }
    }
    fn visit_macro(&mut self, mac: &'ast syn::Macro) {
        self.record(mac);
    }
    fn visit_item_macro(&mut self, m: &'ast syn::ItemMacro) {
        // macro_rules! definitions: keep name and transcriber text
        if m.mac.path.is_ident("macro_rules") {
            let name = m.ident.as_ref().map(|i| i.to_string()).unwrap_or_default();
            let cfgs: Vec<J> = m
                .attrs
                .iter()
                .filter(|a| a.path().is_ident("cfg"))
                .map(|a| s(a.meta.require_list().map(|l| l.tokens.to_string()).unwrap_or_default()))
                .collect();
            let start = m.mac.path.segments.first().map(|x| x.ident.span().start());
            let (line, col) = start.map(|p| (p.line as i128, p.column as i128 + 1)).unwrap_or((0, 0));
            self.out.push(J::Obj(vec![
                ("macro", s("macro_rules")),
                ("name", s(name)),
                ("cfg", J::Arr(cfgs)),
                ("line", J::Num(line)),
                ("col", J::Num(col)),
                ("raw", s(m.mac.tokens.to_string())),
            ]));
        } else {
            self.record(&m.mac);
        }
    }
}

fn main() {
    let mut files = Vec::new();
    for path in std::env::args().skip(1) {
        let text = match std::fs::read_to_string(&path) {
            Ok(t) => t,
            Err(e) => {
                eprintln!("pestsyn: cannot read {}: {}", path, e);
                std::process::exit(2);
            }
        };
        let ast = match syn::parse_file(&text) {
            Ok(a) => a,
            Err(e) => {
                eprintln!("pestsyn: cannot parse {}: {}", path, e);
                std::process::exit(2);
            }
        };
        let mut v = V { file: path.clone(), fn_stack: Vec::new(), out: Vec::new() };
        v.visit_file(&ast);
        files.push(J::Obj(vec![("file", s(v.file.clone())), ("macros", J::Arr(v.out))]));
    }
    let doc = J::Obj(vec![("files", J::Arr(files))]);
    let mut text = String::new();
    doc.write(&mut text);
    println!("{}", text);
}
