//! Witness invocation of `pest::prec_climber!` (feature `const_prec_climber`).  Never run: the checker reads the
//! typed HIR of the expansion and compares the precedence constants and the operator table with the table written here.
#![allow(non_camel_case_types, non_upper_case_globals, dead_code)]
use pest::prec_climber;
use pest::prec_climber::PrecClimber;

#[derive(Clone, Copy, Debug, Eq, Hash, Ord, PartialEq, PartialOrd)]
pub enum Rule {
    a1,
    a2,
    b1,
    b2,
    b3,
    c1,
    d1,
    d2,
}

// levels: 1 = {a1, a2} left; 2 = {b1, b2, b3} right; 3 = {c1} left; 4 = {d1, d2} left
pub static WITNESS: PrecClimber<Rule> = prec_climber![
    L a1 | a2,
    R b1 | b2 | b3,
    L c1,
    L d1 | d2,
];

use pest::pratt_parser::{Assoc, ConstPrattParser, Op, pratt_precedence};

// levels: {a1, a2}; {b1, b2, b3}; {c1}; {d1, d2}
pub static PRATT_WITNESS: ConstPrattParser<Rule, 8> = ConstPrattParser::new_const(pratt_precedence![
    Op::infix(Rule::a1, Assoc::Left) | Op::infix(Rule::a2, Assoc::Left),
    Op::infix(Rule::b1, Assoc::Right) | Op::infix(Rule::b2, Assoc::Right) | Op::infix(Rule::b3, Assoc::Right),
    Op::prefix(Rule::c1),
    Op::postfix(Rule::d1) | Op::postfix(Rule::d2),
]);
