//! pestfacts: a rustc_private driver that serialises the type-checked HIR of the crates it
//! compiles as JSON facts (ADTs, function bodies with resolved paths / methods / types).
//!
//! Usage (as a cargo wrapper):  RUSTC_WORKSPACE_WRAPPER=pestfacts  or  RUSTC_WRAPPER=pestfacts
//!   PESTFACTS_OUT=<dir>        where the per-crate fact files go (one write per process)
//!   PESTFACTS_CRATES=a,b,c     optional filter on crate names (others compile normally)
#![feature(rustc_private)]
#![allow(clippy::all)]

extern crate rustc_ast;
extern crate rustc_driver;
extern crate rustc_hir;
extern crate rustc_interface;
extern crate rustc_middle;
extern crate rustc_session;
extern crate rustc_span;

use rustc_driver::{Callbacks, Compilation};
use rustc_hir as hir;
use rustc_hir::def::{DefKind, Res};
use rustc_hir::def_id::{DefId, LOCAL_CRATE};
use rustc_middle::ty::print::{with_crate_prefix, with_no_trimmed_paths, with_no_visible_paths};
use rustc_middle::ty::{self, TyCtxt, TypeckResults};
use rustc_span::Span;
use std::fmt::Write as _;

// ---------------------------------------------------------------- tiny JSON
enum J {
    Null,
    Bool(bool),
    Num(i128),
    Str(String),
    Arr(Vec<J>),
    Obj(Vec<(&'static str, J)>),
}

fn esc(s: &str, out: &mut String) {
    out.push('"');
    for c in s.chars() {
        match c {
            '"' => out.push_str("\\\""),
            '\\' => out.push_str("\\\\"),
            '\n' => out.push_str("\\n"),
            '\r' => out.push_str("\\r"),
            '\t' => out.push_str("\\t"),
            c if (c as u32) < 0x20 => {
                let _ = write!(out, "\\u{:04x}", c as u32);
            }
            c => out.push(c),
        }
    }
    out.push('"');
}

impl J {
    fn write(&self, out: &mut String) {
        match self {
            J::Null => out.push_str("null"),
            J::Bool(b) => out.push_str(if *b { "true" } else { "false" }),
            J::Num(n) => {
                let _ = write!(out, "{}", n);
            }
            J::Str(s) => esc(s, out),
            J::Arr(v) => {
                out.push('[');
                for (i, x) in v.iter().enumerate() {
                    if i > 0 {
                        out.push(',');
                    }
                    x.write(out);
                }
                out.push(']');
            }
            J::Obj(v) => {
                out.push('{');
                let mut first = true;
                for (k, x) in v.iter() {
                    if let J::Null = x {
                        continue;
                    }
                    if !first {
                        out.push(',');
                    }
                    first = false;
                    esc(k, out);
                    out.push(':');
                    x.write(out);
                }
                out.push('}');
            }
        }
    }
}

fn s(x: impl Into<String>) -> J {
    J::Str(x.into())
}
fn opt(x: Option<J>) -> J {
    x.unwrap_or(J::Null)
}

// ---------------------------------------------------------------- path printing

/// Remove generic argument lists (`::<..>` and `<..>` after an identifier) from a printed path,
/// keeping the `<T as Trait>::x` qualified form (with its components stripped recursively).
fn strip_generics(p: &str) -> String {
    let b: Vec<char> = p.chars().collect();
    let mut out = String::new();
    let mut i = 0;
    // qualified self at the very start
    if !b.is_empty() && b[0] == '<' {
        // find matching '>'
        let mut depth = 0;
        let mut j = 0;
        while j < b.len() {
            if b[j] == '<' {
                depth += 1;
            } else if b[j] == '>' && (j == 0 || b[j - 1] != '-') {
                depth -= 1;
                if depth == 0 {
                    break;
                }
            }
            j += 1;
        }
        let inner: String = b[1..j.min(b.len())].iter().collect();
        // split on top-level " as "
        let ib: Vec<char> = inner.chars().collect();
        let mut d = 0;
        let mut split = None;
        let mut k = 0;
        while k + 4 <= ib.len() {
            if ib[k] == '<' {
                d += 1
            } else if ib[k] == '>' && (k == 0 || ib[k - 1] != '-') {
                d -= 1
            }
            if d == 0 && ib[k] == ' ' && ib[k + 1] == 'a' && ib[k + 2] == 's' && ib[k + 3] == ' ' {
                split = Some(k);
                break;
            }
            k += 1;
        }
        out.push('<');
        match split {
            Some(k) => {
                let a: String = ib[..k].iter().collect();
                let c: String = ib[k + 4..].iter().collect();
                out.push_str(&strip_generics(&a));
                out.push_str(" as ");
                out.push_str(&strip_generics(&c));
            }
            None => out.push_str(&strip_generics(&inner)),
        }
        out.push('>');
        i = j + 1;
    }
    let mut depth = 0;
    while i < b.len() {
        let c = b[i];
        if c == '<' && depth == 0 && b[i..].iter().collect::<String>().starts_with("<impl ") {
            // `path::<impl Type<..>>::item`: keep the segment, strip generics inside it
            let mut d = 0;
            let mut j = i;
            while j < b.len() {
                if b[j] == '<' {
                    d += 1;
                } else if b[j] == '>' && b[j - 1] != '-' {
                    d -= 1;
                    if d == 0 {
                        break;
                    }
                }
                j += 1;
            }
            let inner: String = b[i + 6..j.min(b.len())].iter().collect();
            out.push_str("<impl ");
            out.push_str(&strip_generics(&inner));
            out.push('>');
            i = j + 1;
            continue;
        } else if c == '<' {
            if depth == 0 && out.ends_with("::") {
                out.truncate(out.len() - 2);
            }
            depth += 1;
        } else if c == '>' && i > 0 && b[i - 1] != '-' {
            depth -= 1;
        } else if depth == 0 {
            out.push(c);
        }
        i += 1;
    }
    out
}

struct Cx<'tcx> {
    tcx: TyCtxt<'tcx>,
    krate: String,
}

impl<'tcx> Cx<'tcx> {
    fn fix_crate(&self, p: String) -> String {
        // `with_crate_prefix` prints the local crate as `crate`
        let mut out = String::new();
        let mut rest = p.as_str();
        while let Some(idx) = rest.find("crate::") {
            let before_ok = idx == 0
                || !rest[..idx]
                    .chars()
                    .last()
                    .map(|c| c.is_alphanumeric() || c == '_')
                    .unwrap_or(false);
            out.push_str(&rest[..idx]);
            if before_ok {
                out.push_str(&self.krate);
                out.push_str("::");
            } else {
                out.push_str("crate::");
            }
            rest = &rest[idx + 7..];
        }
        out.push_str(rest);
        out
    }
    fn raw_path(&self, did: DefId) -> String {
        let p = with_no_visible_paths!(with_crate_prefix!(with_no_trimmed_paths!(self.tcx.def_path_str(did))));
        self.fix_crate(p)
    }
    fn path(&self, did: DefId) -> String {
        strip_generics(&self.raw_path(did))
    }
    fn ty_str(&self, t: ty::Ty<'tcx>) -> String {
        let p = with_no_visible_paths!(with_crate_prefix!(with_no_trimmed_paths!(format!("{}", t))));
        self.fix_crate(p)
    }
    fn span(&self, sp: Span) -> J {
        let sm = self.tcx.sess.source_map();
        let lo = sm.lookup_char_pos(sp.lo());
        let hi = sm.lookup_char_pos(sp.hi());
        let f = format!("{}", lo.file.name.prefer_local_unconditionally());
        s(format!("{}:{}:{}-{}:{}", f, lo.line, lo.col.0 + 1, hi.line, hi.col.0 + 1))
    }
    fn expn(&self, sp: Span) -> J {
        if !sp.from_expansion() {
            return J::Null;
        }
        let mut v = Vec::new();
        for e in sp.macro_backtrace() {
            use rustc_span::ExpnKind::*;
            let d = match e.kind {
                Root => "root".to_string(),
                Macro(_, name) => format!("m:{}", name),
                AstPass(p) => format!("a:{:?}", p),
                Desugaring(k) => format!("d:{:?}", k),
            };
            v.push(s(d));
        }
        if v.is_empty() {
            // desugarings do not always show in macro_backtrace
            let d = sp.ctxt().outer_expn_data();
            v.push(s(format!("x:{:?}", d.kind)));
        }
        J::Arr(v)
    }
    fn callsite(&self, sp: Span) -> J {
        if sp.from_expansion() {
            self.span(sp.source_callsite())
        } else {
            J::Null
        }
    }
}

// ---------------------------------------------------------------- bodies

struct BodyCx<'a, 'tcx> {
    cx: &'a Cx<'tcx>,
    tr: &'tcx TypeckResults<'tcx>,
    nodes: usize,
}

impl<'a, 'tcx> BodyCx<'a, 'tcx> {
    fn tcx(&self) -> TyCtxt<'tcx> {
        self.cx.tcx
    }

    fn res(&self, res: Res) -> Vec<(&'static str, J)> {
        match res {
            Res::Local(hid) => {
                let name = self.tcx().hir_name(hid).to_string();
                vec![("res", s("local")), ("id", J::Num(hid.local_id.as_u32() as i128)), ("name", s(name))]
            }
            Res::Def(kind, did) => {
                let mut v = vec![("res", s("def")), ("dk", s(format!("{:?}", kind)))];
                match kind {
                    DefKind::Ctor(of, ck) => {
                        let parent = self.tcx().parent(did);
                        v.push(("path", s(self.cx.path(parent))));
                        v.push(("ctor", s(format!("{:?}/{:?}", of, ck))));
                    }
                    _ => v.push(("path", s(self.cx.path(did)))),
                }
                v
            }
            Res::SelfCtor(did) | Res::SelfTyAlias { alias_to: did, .. } => {
                vec![("res", s("selfty")), ("path", s(self.cx.path(did)))]
            }
            Res::SelfTyParam { .. } => vec![("res", s("selfparam"))],
            Res::PrimTy(p) => vec![("res", s("prim")), ("path", s(p.name_str()))],
            other => vec![("res", s(format!("{:?}", other)))],
        }
    }

    fn qpath(&self, qp: &hir::QPath<'tcx>, hid: hir::HirId) -> Vec<(&'static str, J)> {
        let res = self.tr.qpath_res(qp, hid);
        let mut v = self.res(res);
        // enum variant / struct reached through `Self::X` or a type alias: give the resolved variant
        let last = match qp {
            hir::QPath::Resolved(_, p) => p.segments.last().map(|s| s.ident.to_string()),
            hir::QPath::TypeRelative(_, seg) => Some(seg.ident.to_string()),
        };
        if let Some(l) = last {
            v.push(("last", s(l)));
        }
        if let Some(args) = self.tr.node_args_opt(hid) {
            if !args.is_empty() {
                let a: Vec<J> = args
                    .iter()
                    .filter_map(|g| g.as_type().map(|t| s(self.cx.ty_str(t))))
                    .collect();
                if !a.is_empty() {
                    v.push(("targs", J::Arr(a)));
                }
            }
        }
        v
    }

    fn lit(&self, l: &hir::Lit) -> Vec<(&'static str, J)> {
        use rustc_ast::LitKind::*;
        match &l.node {
            Str(sym, _) => vec![("lk", s("str")), ("v", s(sym.as_str()))],
            ByteStr(b, _) => vec![("lk", s("bytestr")), ("v", s(String::from_utf8_lossy(b.as_byte_str()).to_string()))],
            CStr(..) => vec![("lk", s("cstr"))],
            Byte(b) => vec![("lk", s("byte")), ("v", J::Num(*b as i128))],
            Char(c) => vec![("lk", s("char")), ("v", s(c.to_string()))],
            Int(n, _) => vec![("lk", s("int")), ("v", J::Num(n.get() as i128))],
            Float(sym, _) => vec![("lk", s("float")), ("v", s(sym.as_str()))],
            Bool(b) => vec![("lk", s("bool")), ("v", J::Bool(*b))],
            Err(_) => vec![("lk", s("err"))],
        }
    }

    fn pat_expr(&self, pe: &hir::PatExpr<'tcx>) -> J {
        match &pe.kind {
            hir::PatExprKind::Lit { lit, negated } => {
                let mut v = vec![("k", s("PLit")), ("neg", J::Bool(*negated))];
                v.extend(self.lit(lit));
                J::Obj(v)
            }
            hir::PatExprKind::Path(qp) => {
                let mut v = vec![("k", s("PPath"))];
                v.extend(self.qpath(qp, pe.hir_id));
                J::Obj(v)
            }
        }
    }

    fn pat(&mut self, p: &hir::Pat<'tcx>) -> J {
        self.nodes += 1;
        use hir::PatKind::*;
        let mut v: Vec<(&'static str, J)> = Vec::new();
        match &p.kind {
            Missing => v.push(("k", s("PMissing"))),
            Wild => v.push(("k", s("PWild"))),
            Never => v.push(("k", s("PNever"))),
            Binding(mode, hid, ident, sub) => {
                v.push(("k", s("PBind")));
                v.push(("id", J::Num(hid.local_id.as_u32() as i128)));
                v.push(("name", s(ident.to_string())));
                v.push(("mode", s(format!("{:?}", mode))));
                v.push(("ty", s(self.cx.ty_str(self.tr.pat_ty(p)))));
                if let Some(sp) = sub {
                    v.push(("sub", self.pat(sp)));
                }
            }
            Struct(qp, fields, rest) => {
                v.push(("k", s("PStruct")));
                v.extend(self.qpath(qp, p.hir_id));
                let fs = fields
                    .iter()
                    .map(|f| J::Obj(vec![("name", s(f.ident.to_string())), ("pat", self.pat(f.pat))]))
                    .collect();
                v.push(("fields", J::Arr(fs)));
                v.push(("rest", J::Bool(rest.is_some())));
            }
            TupleStruct(qp, pats, dd) => {
                v.push(("k", s("PTupleStruct")));
                v.extend(self.qpath(qp, p.hir_id));
                v.push(("pats", J::Arr(pats.iter().map(|x| self.pat(x)).collect())));
                if let Some(n) = dd.as_opt_usize() {
                    v.push(("ddpos", J::Num(n as i128)));
                }
            }
            Or(pats) => {
                v.push(("k", s("POr")));
                v.push(("pats", J::Arr(pats.iter().map(|x| self.pat(x)).collect())));
            }
            Tuple(pats, dd) => {
                v.push(("k", s("PTuple")));
                v.push(("pats", J::Arr(pats.iter().map(|x| self.pat(x)).collect())));
                if let Some(n) = dd.as_opt_usize() {
                    v.push(("ddpos", J::Num(n as i128)));
                }
            }
            Box(x) => {
                v.push(("k", s("PBox")));
                v.push(("pat", self.pat(x)));
            }
            Deref(x) => {
                v.push(("k", s("PDeref")));
                v.push(("pat", self.pat(x)));
            }
            Ref(x, _, m) => {
                v.push(("k", s("PRef")));
                v.push(("mut", J::Bool(m.is_mut())));
                v.push(("pat", self.pat(x)));
            }
            Expr(pe) => return self.pat_expr(pe),
            Guard(x, e) => {
                v.push(("k", s("PGuard")));
                v.push(("pat", self.pat(x)));
                v.push(("cond", self.expr(e)));
            }
            Range(a, b, end) => {
                v.push(("k", s("PRange")));
                v.push(("lo", opt(a.map(|x| self.pat_expr(x)))));
                v.push(("hi", opt(b.map(|x| self.pat_expr(x)))));
                v.push(("end", s(format!("{:?}", end))));
            }
            Slice(before, mid, after) => {
                v.push(("k", s("PSlice")));
                v.push(("before", J::Arr(before.iter().map(|x| self.pat(x)).collect())));
                v.push(("mid", opt(mid.map(|x| self.pat(x)))));
                v.push(("after", J::Arr(after.iter().map(|x| self.pat(x)).collect())));
            }
            Err(_) => v.push(("k", s("PErr"))),
        }
        v.push(("sp", self.cx.span(p.span)));
        J::Obj(v)
    }

    fn block(&mut self, b: &hir::Block<'tcx>) -> J {
        let mut stmts = Vec::new();
        for st in b.stmts {
            match &st.kind {
                hir::StmtKind::Let(l) => {
                    let mut v = vec![("k", s("Let")), ("pat", self.pat(l.pat))];
                    v.push(("init", opt(l.init.map(|e| self.expr(e)))));
                    v.push(("els", opt(l.els.map(|b| self.block(b)))));
                    v.push(("sp", self.cx.span(st.span)));
                    v.push(("exp", self.cx.expn(st.span)));
                    stmts.push(J::Obj(v));
                }
                hir::StmtKind::Item(_) => {
                    stmts.push(J::Obj(vec![("k", s("Item")), ("sp", self.cx.span(st.span))]));
                }
                hir::StmtKind::Expr(e) => {
                    stmts.push(J::Obj(vec![("k", s("Expr")), ("e", self.expr(e))]));
                }
                hir::StmtKind::Semi(e) => {
                    stmts.push(J::Obj(vec![("k", s("Semi")), ("e", self.expr(e))]));
                }
            }
        }
        let mut v = vec![("k", s("Block")), ("stmts", J::Arr(stmts))];
        v.push(("expr", opt(b.expr.map(|e| self.expr(e)))));
        if let hir::BlockCheckMode::UnsafeBlock(_) = b.rules {
            v.push(("unsafe", J::Bool(true)));
        }
        v.push(("sp", self.cx.span(b.span)));
        J::Obj(v)
    }

    fn dest(&self, d: &hir::Destination) -> J {
        match d.target_id {
            Ok(hid) => J::Num(hid.local_id.as_u32() as i128),
            Err(_) => J::Null,
        }
    }

    fn closure_body(&mut self, c: &hir::Closure<'tcx>) -> Vec<(&'static str, J)> {
        let body = self.tcx().hir_body(c.body);
        let params: Vec<J> = body.params.iter().map(|p| self.pat(p.pat)).collect();
        let val = self.expr(body.value);
        vec![
            ("params", J::Arr(params)),
            ("body", val),
            ("def", s(self.cx.path(c.def_id.to_def_id()))),
            ("move", J::Bool(matches!(c.capture_clause, hir::CaptureBy::Value { .. }))),
        ]
    }

    fn expr(&mut self, e: &hir::Expr<'tcx>) -> J {
        self.nodes += 1;
        use hir::ExprKind::*;
        let mut v: Vec<(&'static str, J)> = Vec::new();
        match &e.kind {
            DropTemps(inner) | Use(inner, _) => return self.expr(inner),
            ConstBlock(_) => v.push(("k", s("ConstBlock"))),
            Array(xs) => {
                v.push(("k", s("Array")));
                v.push(("n", J::Num(xs.len() as i128)));
                let all_lit = xs.iter().all(|x| matches!(x.kind, Lit(_)));
                if xs.len() > 64 && all_lit {
                    // big constant tables (unicode tries, name lists): values only
                    let mut vals = Vec::with_capacity(xs.len());
                    for x in xs.iter() {
                        if let Lit(l) = &x.kind {
                            match &l.node {
                                rustc_ast::LitKind::Int(n, _) => vals.push(J::Num(n.get() as i128)),
                                rustc_ast::LitKind::Str(sym, _) => vals.push(s(sym.as_str())),
                                rustc_ast::LitKind::Byte(b) => vals.push(J::Num(*b as i128)),
                                rustc_ast::LitKind::Char(c) => vals.push(s(c.to_string())),
                                rustc_ast::LitKind::Bool(b) => vals.push(J::Bool(*b)),
                                _ => vals.push(J::Null),
                            }
                        }
                    }
                    v.push(("lits", J::Arr(vals)));
                } else {
                    v.push(("elems", J::Arr(xs.iter().map(|x| self.expr(x)).collect())));
                }
            }
            Call(f, args) => {
                v.push(("k", s("Call")));
                v.push(("f", self.expr(f)));
                v.push(("args", J::Arr(args.iter().map(|x| self.expr(x)).collect())));
            }
            MethodCall(seg, recv, args, _) => {
                v.push(("k", s("MethodCall")));
                v.push(("m", s(seg.ident.to_string())));
                if let Some(did) = self.tr.type_dependent_def_id(e.hir_id) {
                    v.push(("path", s(self.cx.path(did))));
                    if let Some(tr) = self.tcx().trait_of_assoc(did) {
                        v.push(("trait", s(self.cx.path(tr))));
                    }
                }
                if let Some(args) = self.tr.node_args_opt(e.hir_id) {
                    let a: Vec<J> = args
                        .iter()
                        .filter_map(|g| g.as_type().map(|t| s(self.cx.ty_str(t))))
                        .collect();
                    if !a.is_empty() {
                        v.push(("targs", J::Arr(a)));
                    }
                }
                v.push(("rty", s(self.cx.ty_str(self.tr.expr_ty(recv)))));
                v.push(("recv", self.expr(recv)));
                v.push(("args", J::Arr(args.iter().map(|x| self.expr(x)).collect())));
            }
            Tup(xs) => {
                v.push(("k", s("Tup")));
                v.push(("elems", J::Arr(xs.iter().map(|x| self.expr(x)).collect())));
            }
            Binary(op, a, b) => {
                v.push(("k", s("Binary")));
                v.push(("op", s(op.node.as_str())));
                if let Some(did) = self.tr.type_dependent_def_id(e.hir_id) {
                    v.push(("path", s(self.cx.path(did))));
                }
                v.push(("l", self.expr(a)));
                v.push(("r", self.expr(b)));
            }
            Unary(op, a) => {
                v.push(("k", s("Unary")));
                v.push(("op", s(op.as_str())));
                v.push(("e", self.expr(a)));
            }
            Lit(l) => {
                v.push(("k", s("Lit")));
                v.extend(self.lit(l));
            }
            Cast(a, _) | Type(a, _) => {
                v.push(("k", s("Cast")));
                v.push(("e", self.expr(a)));
            }
            Let(l) => {
                v.push(("k", s("LetExpr")));
                v.push(("pat", self.pat(l.pat)));
                v.push(("init", self.expr(l.init)));
            }
            If(c, t, el) => {
                v.push(("k", s("If")));
                v.push(("cond", self.expr(c)));
                v.push(("then", self.expr(t)));
                v.push(("else", opt(el.map(|x| self.expr(x)))));
            }
            Loop(b, label, src, _) => {
                v.push(("k", s("Loop")));
                v.push(("src", s(format!("{:?}", src))));
                if let Some(l) = label {
                    v.push(("label", s(l.ident.to_string())));
                }
                v.push(("id", J::Num(e.hir_id.local_id.as_u32() as i128)));
                v.push(("body", self.block(b)));
            }
            Match(scrut, arms, src) => {
                v.push(("k", s("Match")));
                let srcs = match src {
                    hir::MatchSource::Normal => "match",
                    hir::MatchSource::Postfix => "match",
                    hir::MatchSource::ForLoopDesugar => "for",
                    hir::MatchSource::TryDesugar(_) => "try",
                    hir::MatchSource::AwaitDesugar => "await",
                    hir::MatchSource::FormatArgs => "format_args",
                };
                v.push(("src", s(srcs)));
                v.push(("sty", s(self.cx.ty_str(self.tr.expr_ty(scrut)))));
                v.push(("scrut", self.expr(scrut)));
                let mut av = Vec::new();
                for a in arms.iter() {
                    let mut o = vec![("pat", self.pat(a.pat))];
                    o.push(("guard", opt(a.guard.map(|g| self.expr(g)))));
                    o.push(("body", self.expr(a.body)));
                    o.push(("sp", self.cx.span(a.span)));
                    av.push(J::Obj(o));
                }
                v.push(("arms", J::Arr(av)));
            }
            Closure(c) => {
                v.push(("k", s("Closure")));
                let cb = self.closure_body(c);
                v.extend(cb);
            }
            Block(b, label) => {
                let mut inner = match self.block(b) {
                    J::Obj(o) => o,
                    _ => unreachable!(),
                };
                if let Some(l) = label {
                    inner.push(("label", s(l.ident.to_string())));
                    inner.push(("id", J::Num(e.hir_id.local_id.as_u32() as i128)));
                }
                inner.push(("ty", s(self.cx.ty_str(self.tr.expr_ty(e)))));
                inner.push(("exp", self.cx.expn(e.span)));
                return J::Obj(inner);
            }
            Assign(l, r, _) => {
                v.push(("k", s("Assign")));
                v.push(("l", self.expr(l)));
                v.push(("r", self.expr(r)));
            }
            AssignOp(op, l, r) => {
                v.push(("k", s("AssignOp")));
                v.push(("op", s(op.node.as_str())));
                v.push(("l", self.expr(l)));
                v.push(("r", self.expr(r)));
            }
            Field(base, ident) => {
                v.push(("k", s("Field")));
                v.push(("name", s(ident.to_string())));
                v.push(("bty", s(self.cx.ty_str(self.tr.expr_ty_adjusted(base)))));
                v.push(("base", self.expr(base)));
            }
            Index(a, b, _) => {
                v.push(("k", s("Index")));
                v.push(("bty", s(self.cx.ty_str(self.tr.expr_ty(a)))));
                v.push(("base", self.expr(a)));
                v.push(("idx", self.expr(b)));
            }
            Path(qp) => {
                v.push(("k", s("Path")));
                v.extend(self.qpath(qp, e.hir_id));
            }
            AddrOf(_, m, a) => {
                v.push(("k", s("AddrOf")));
                v.push(("mut", J::Bool(m.is_mut())));
                v.push(("e", self.expr(a)));
            }
            Break(d, x) => {
                v.push(("k", s("Break")));
                v.push(("target", self.dest(d)));
                v.push(("e", opt(x.map(|x| self.expr(x)))));
            }
            Continue(d) => {
                v.push(("k", s("Continue")));
                v.push(("target", self.dest(d)));
            }
            Ret(x) => {
                v.push(("k", s("Ret")));
                v.push(("e", opt(x.map(|x| self.expr(x)))));
            }
            Become(x) => {
                v.push(("k", s("Become")));
                v.push(("e", self.expr(x)));
            }
            Struct(qp, fields, tail) => {
                v.push(("k", s("Struct")));
                v.extend(self.qpath(qp, e.hir_id));
                let fs = fields
                    .iter()
                    .map(|f| J::Obj(vec![("name", s(f.ident.to_string())), ("e", self.expr(f.expr))]))
                    .collect();
                v.push(("fields", J::Arr(fs)));
                if let hir::StructTailExpr::Base(b) = tail {
                    v.push(("base", self.expr(b)));
                }
            }
            Repeat(x, _) => {
                v.push(("k", s("Repeat")));
                v.push(("e", self.expr(x)));
            }
            Yield(x, _) => {
                v.push(("k", s("Yield")));
                v.push(("e", self.expr(x)));
            }
            InlineAsm(_) => v.push(("k", s("InlineAsm"))),
            OffsetOf(..) => v.push(("k", s("OffsetOf"))),
            UnsafeBinderCast(_, x, _) => {
                v.push(("k", s("UnsafeBinderCast")));
                v.push(("e", self.expr(x)));
            }
            Err(_) => v.push(("k", s("Err"))),
        }
        let ety = self.tr.expr_ty(e);
        if !matches!(ety.kind(), ty::FnDef(..)) {
            v.push(("ty", s(self.cx.ty_str(ety))));
        }
        v.push(("sp", self.cx.span(e.span)));
        v.push(("exp", self.cx.expn(e.span)));
        v.push(("cs", self.cx.callsite(e.span)));
        J::Obj(v)
    }
}

// ---------------------------------------------------------------- items

fn vis_str(tcx: TyCtxt<'_>, cx: &Cx<'_>, did: DefId) -> String {
    match tcx.visibility(did) {
        ty::Visibility::Public => "pub".to_string(),
        ty::Visibility::Restricted(m) => {
            if m.is_crate_root() {
                "crate".to_string()
            } else {
                format!("in:{}", cx.path(m))
            }
        }
    }
}

fn ty_mentions(t: ty::Ty<'_>, adt: DefId) -> bool {
    t.walk().any(|g| match g.as_type() {
        Some(t) => match t.kind() {
            ty::Adt(d, _) => d.did() == adt,
            _ => false,
        },
        None => false,
    })
}

fn dump_adts<'tcx>(cx: &Cx<'tcx>) -> J {
    let tcx = cx.tcx;
    let mut out = Vec::new();
    for id in tcx.hir_free_items() {
        let item = tcx.hir_item(id);
        let did = item.owner_id.to_def_id();
        let kind = match item.kind {
            hir::ItemKind::Enum(..) => "enum",
            hir::ItemKind::Struct(..) => "struct",
            _ => continue,
        };
        let adt = tcx.adt_def(did);
        let mut variants = Vec::new();
        for v in adt.variants() {
            let mut fields = Vec::new();
            for f in v.fields.iter() {
                let fty = tcx.type_of(f.did).instantiate_identity().skip_norm_wip();
                fields.push(J::Obj(vec![
                    ("name", s(f.name.to_string())),
                    ("ty", s(cx.ty_str(fty))),
                    ("rec", J::Bool(ty_mentions(fty, did))),
                    ("vis", s(vis_str(tcx, cx, f.did))),
                ]));
            }
            variants.push(J::Obj(vec![
                ("name", s(v.name.to_string())),
                ("path", s(cx.path(v.def_id))),
                ("ctor", s(format!("{:?}", v.ctor_kind()))),
                ("fields", J::Arr(fields)),
            ]));
        }
        out.push(J::Obj(vec![
            ("kind", s(kind)),
            ("path", s(cx.path(did))),
            ("vis", s(vis_str(tcx, cx, did))),
            ("exported", J::Bool(tcx.effective_visibilities(()).is_exported(item.owner_id.def_id))),
            ("variants", J::Arr(variants)),
            ("sp", cx.span(item.span)),
        ]));
    }
    J::Arr(out)
}

fn dump_bodies<'tcx>(cx: &Cx<'tcx>) -> J {
    let tcx = cx.tcx;
    let mut out = Vec::new();
    for ldid in tcx.hir_body_owners() {
        let did = ldid.to_def_id();
        let dk = tcx.def_kind(did);
        // closures are nested under their parent body
        if matches!(dk, DefKind::Closure | DefKind::InlineConst | DefKind::AnonConst) {
            continue;
        }
        let Some(body) = tcx.hir_maybe_body_owned_by(ldid) else { continue };
        let tr = tcx.typeck(ldid);
        if tr.tainted_by_errors.is_some() {
            continue;
        }
        let mut bcx = BodyCx { cx, tr, nodes: 0 };
        let params: Vec<J> = body.params.iter().map(|p| bcx.pat(p.pat)).collect();
        let val = bcx.expr(body.value);
        let mut v: Vec<(&'static str, J)> = vec![
            ("path", s(cx.path(did))),
            ("raw", s(cx.raw_path(did))),
            ("name", s(tcx.item_name(did).to_string())),
            ("dk", s(format!("{:?}", dk))),
        ];
        if matches!(dk, DefKind::Fn | DefKind::AssocFn) {
            v.push(("vis", s(vis_str(tcx, cx, did))));
            v.push(("exported", J::Bool(tcx.effective_visibilities(()).is_exported(ldid))));
            let sig = tcx.fn_sig(did).instantiate_identity().skip_norm_wip().skip_binder();
            v.push(("inputs", J::Arr(sig.inputs().iter().map(|t| s(cx.ty_str(*t))).collect())));
            v.push(("output", s(cx.ty_str(sig.output()))));
        }
        if dk == DefKind::AssocFn {
            let parent = tcx.parent(did);
            if tcx.def_kind(parent) == (DefKind::Impl { of_trait: true }) {
                let tref = tcx.impl_trait_ref(parent).instantiate_identity().skip_norm_wip();
                v.push(("impl_trait", s(cx.path(tref.def_id))));
                v.push(("impl_self", s(strip_generics(&cx.ty_str(tref.self_ty())))));
            } else if tcx.def_kind(parent) == (DefKind::Impl { of_trait: false }) {
                let st = tcx.type_of(parent).instantiate_identity().skip_norm_wip();
                v.push(("impl_self", s(strip_generics(&cx.ty_str(st)))));
            }
        }
        v.push(("params", J::Arr(params)));
        v.push(("body", val));
        v.push(("sp", cx.span(tcx.def_span(did))));
        v.push(("exp", cx.expn(tcx.def_span(did))));
        v.push(("nodes", J::Num(bcx.nodes as i128)));
        out.push(J::Obj(v));
    }
    J::Arr(out)
}

fn dump_items<'tcx>(cx: &Cx<'tcx>) -> J {
    // every fn / const / static / type item with visibility (for who-may-name rules)
    let tcx = cx.tcx;
    let mut out = Vec::new();
    for id in tcx.hir_free_items() {
        let item = tcx.hir_item(id);
        let did = item.owner_id.to_def_id();
        let dk = tcx.def_kind(did);
        if matches!(dk, DefKind::Use | DefKind::ExternCrate | DefKind::GlobalAsm | DefKind::Impl { .. }) {
            continue;
        }
        out.push(J::Obj(vec![
            ("path", s(cx.path(did))),
            ("dk", s(format!("{:?}", dk))),
            ("vis", s(vis_str(tcx, cx, did))),
            ("exported", J::Bool(tcx.effective_visibilities(()).is_exported(item.owner_id.def_id))),
            ("sp", cx.span(item.span)),
        ]));
    }
    J::Arr(out)
}

struct Facts {
    features: Vec<String>,
}

impl Callbacks for Facts {
    fn after_analysis<'tcx>(&mut self, _c: &rustc_interface::interface::Compiler, tcx: TyCtxt<'tcx>) -> Compilation {
        let out_dir = match std::env::var("PESTFACTS_OUT") {
            Ok(d) => d,
            Err(_) => return Compilation::Continue,
        };
        let krate = tcx.crate_name(LOCAL_CRATE).to_string();
        let cx = Cx { tcx, krate: krate.clone() };
        let features: Vec<J> = self.features.iter().map(|f| s(f.clone())).collect();
        let ctypes: Vec<J> = tcx.crate_types().iter().map(|t| s(format!("{:?}", t))).collect();
        let is_test = tcx.sess.opts.test;
        let doc = J::Obj(vec![
            ("crate", s(krate.clone())),
            ("features", J::Arr(features)),
            ("crate_types", J::Arr(ctypes)),
            ("test", J::Bool(is_test)),
            ("adts", dump_adts(&cx)),
            ("items", dump_items(&cx)),
            ("bodies", dump_bodies(&cx)),
        ]);
        let mut text = String::new();
        doc.write(&mut text);
        let id = tcx.stable_crate_id(LOCAL_CRATE).as_u64();
        let path = format!("{}/{}-{:016x}.json", out_dir, krate, id);
        let tmp = format!("{}.tmp{}", path, std::process::id());
        std::fs::write(&tmp, text).expect("pestfacts: cannot write facts");
        std::fs::rename(&tmp, &path).expect("pestfacts: cannot rename facts");
        Compilation::Continue
    }
}

struct Plain;
impl Callbacks for Plain {}

fn main() {
    let mut args: Vec<String> = std::env::args().collect();
    // as a cargo wrapper: argv[1] is the path of the real rustc
    if args.len() > 1 && (args[1].ends_with("rustc") || args[1].contains("/rustc")) {
        args.remove(1);
    }
    let crate_name = args
        .iter()
        .position(|a| a == "--crate-name")
        .and_then(|i| args.get(i + 1))
        .cloned()
        .unwrap_or_default();
    let filter = std::env::var("PESTFACTS_CRATES").unwrap_or_default();
    let wanted = filter.is_empty() || filter.split(',').any(|c| c == crate_name);
    let is_build_script = crate_name.starts_with("build_script");
    let code = rustc_driver::catch_with_exit_code(|| {
        if wanted && !is_build_script && !crate_name.is_empty() {
            let mut features = Vec::new();
            for (i, a) in args.iter().enumerate() {
                if a == "--cfg" {
                    if let Some(c) = args.get(i + 1) {
                        if let Some(f) = c.strip_prefix("feature=") {
                            features.push(f.trim_matches('"').to_string());
                        }
                    }
                }
            }
            features.sort();
            rustc_driver::run_compiler(&args, &mut Facts { features })
        } else {
            rustc_driver::run_compiler(&args, &mut Plain)
        }
    });
    std::process::exit(if code == std::process::ExitCode::SUCCESS { 0 } else { 1 });
}
