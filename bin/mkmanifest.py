#!/usr/bin/env python3
"""Regenerates MANIFEST.json from the table below (claimed checks) + properties.jsonl."""
import importlib
import json
import os
import sys

VERIF = os.path.dirname(os.path.dirname(os.path.abspath(__file__)))
sys.path.insert(0, VERIF)

NOT_APPLICABLE = {
    "C10": "line/column arithmetic and error rendering: every clause is about computed numbers over all "
           "strings and offsets; no clause is carried by code shape, and an interval/solver proof is a "
           "different technique family (DESIGN.md section 6)",
    "C11": "equivalence of the cache/popped/lengths index arithmetic with a copying model over all "
           "histories is a data-structure invariant proof; no pairing/ownership rule is a necessary "
           "condition of it beyond the usage discipline claimed under C03.SNAP (DESIGN.md section 6)",
}
PENDING = "check not built yet (DESIGN.md section 4 describes the planned rule); not claimed until it exists"


def main():
    props = [json.loads(l) for l in open(os.path.join(VERIF, "properties.jsonl"))]
    checks = []
    na = []
    for p in props:
        pid = p["id"]
        try:
            mod = importlib.import_module("pv.rules.%s" % pid.lower())
        except ModuleNotFoundError:
            mod = None
        if mod is None or not hasattr(mod, "MANIFEST"):
            na.append({"property_id": pid, "reason": NOT_APPLICABLE.get(pid, PENDING)})
            continue
        m = mod.MANIFEST
        checks.append({
            "property_id": pid,
            "quick_cmd": "./check %s --tier quick" % pid,
            "thorough_cmd": "./check %s --tier thorough" % pid,
            "evidence_file": "/verif/evidence/%s.json" % pid,
            "replay_cmd_template": "./check %s --replay {path}" % pid,
            "engine": m.get("engine", "pestfacts+rules"),
            "level_claimed": {"category": getattr(mod, "LEVEL", "other"), "text": m["text"],
                              "design_ref": m.get("design_ref", "DESIGN.md section 4, %s" % pid)},
            "level_note": m["note"],
            "technique": m["technique"],
        })
    man = {
        "version": 1,
        "setup_cmd": "sh bin/setup.sh",
        "hooks": {
            "guard": "pest_parser_pest_verif",
            "enable": "none: the checks are static analyses of the unmodified source; no hook or "
                      "instrumentation was added to /repo (fix: commits are unguarded repairs)",
            "baseline_off_cmd": "sh /verif/bin/repotest.sh",
            "source_commits": [],
            "add_only": True,
        },
        "engines": [
            {"name": "pestfacts", "path": "/verif/pestfacts",
             "serves_properties": [c["property_id"] for c in checks],
             "kind_free_text": "rustc_private driver (nightly) that serialises type-checked HIR with resolved "
                               "paths/methods/types per feature configuration; run through "
                               "RUSTC_WORKSPACE_WRAPPER under cargo check"},
            {"name": "rules", "path": "/verif/pv",
             "serves_properties": [c["property_id"] for c in checks],
             "kind_free_text": "Python rule library: structured-control-flow path enumeration, call graph, "
                               "field-effect summaries, who-may-call, exhaustiveness and table-agreement rules"},
        ],
        "checks": checks,
        "not_applicable": na,
        "notes": "All checks are static: they read /repo's current working tree through the compiler (facts "
                 "are cached by a hash of every source file, so a cache hit is a run on identical source). "
                 "PEST_REPO=<dir> points the checks at a scratch copy (used by the self-tests).",
    }
    with open(os.path.join(VERIF, "MANIFEST.json"), "w") as fh:
        json.dump(man, fh, indent=1)
    print("claimed:", [c["property_id"] for c in checks])
    print("not_applicable:", [n["property_id"] for n in na])


if __name__ == "__main__":
    main()
