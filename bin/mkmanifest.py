#!/usr/bin/env python3
"""Regenerates MANIFEST.json from the table below (claimed checks) + properties.jsonl."""
import importlib
import json
import os
import sys

VERIF = os.path.dirname(os.path.dirname(os.path.abspath(__file__)))
sys.path.insert(0, VERIF)

NOT_APPLICABLE = {
}
# clauses added while building (DESIGN.md sections 10 and 12); appended to the module's own statement of what is decided
ALSO = {
    "C01": "The contracts of the other stages the composition relies on are decided by the rules of C03 (combinators), "
           "C05 (optimizer) and C07 (reader), which are re-run under this property (rules C01.C03-*, C01.C05-*, C01.C07-*). Stack's snapshot protocol (C11) and the per-back-end rule nesting, entry dispatch, built-ins and skip (C02.RULE/ENTRY/BUILTINS/SKIP) are re-run as well.",
    "C02": "ENTRY also decides that the start-rule dispatch templates call the function of the rule they match and that "
           "the VM starts from the rule it is given; SKIP accepts an atomicity guard hoisted into an early return. The VM keeps no mutable state of its own (VMPURE); every path of Vm::parse reaches pest::state. The restorer clauses of C05 (RESTORE-LEAVES / -WRAP / -SHAPE) are re-run: the back-ends spell repetition differently and agree on the stack after an absorbed failure only through the shared optimizer's RestoreOnErr.",
    "C03": "Also decided: who may write the token queue (besides rule/sequence every write is guarded by lookahead == "
           "None), multi-step matchers work on a scratch position, the memchr-free search scans exhaustively. A failed skip_until leaves the cursor at the end on every false-returning path; a step of s.len() bytes is licensed only by a test that the input holds a slice of that byte length; a one-byte step only by an ASCII test on input data; Stack's snapshot protocol (C11's clauses) is re-run. No matcher narrows an input character with `as u8`. POP removes the top whether or not it matches; a range-indexed slice of the stack is taken under a test ordering its bounds. On the path where the ordering test finds a PEEK slice reversed the primitive answers Ok (the empty slice matches). An offset found by searching `..[pos..]` is added to the cursor, an index running over `pos..len` is assigned (FRAME: frame read off the source and the other uses of the local).",
    "C04": "Also decided: cached pair count protocol, agreement of the two line counters on what ends a line, one leaf "
           "predicate for sibling renderers, len() formulas vs step width, the serialized span of a sibling list is its "
           "window's span (pretty-print), and - re-run from C03 - the production of the token stream (RULE, REWIND, QUEUEW, SNAP). A counting len() counts over exactly the window start..end. A loop or search of FlatPairs that moves one cursor of the window is bounded by the other cursor (SCANBOUND).",
    "C05": "Also decided: rule-type guards enable rewrites only where no implicit whitespace is skipped, an accumulator "
           "threaded by value is handed on on every result path, a rewrite never ignores an operand of the shape it matches. A variant the conversion maps to a native operator (RepOnce under grammar-extras) is not desugared into a sequence. Every arm of the restorer hands back the operator it matched.",
    "C06": "Also decided: top-level nullability questions start from an empty trace, only keyword tests may answer before "
           "the user's rule is looked up, and - re-run from C02 - both back-ends run WHITESPACE/COMMENT bodies atomically "
           "(the validator's isolation argument depends on it). The left-recursion descent through a rule reference is suppressed by the current trace only, never by a memo that outlives the walk. The optimizer clauses of C05 and the operator translations of C02 are re-run (what the validator proved must hold for the rules that are executed); a validation pass looks at every rule; known finding: implicit trivia calls inside a `!` rule called from WHITESPACE/COMMENT.",
    "C07": "Also decided: every stored literal passes the escape decoder; the meta-grammar's lexical rules (number, integer, "
           "string, character, identifier, tag) are deterministic and DFA-equivalent over all scalar values to the "
           "documented token syntax, on grammar.pest and on the PEG decompiled from the checked-in grammar.rs. An explicit error return of the reader never sits under a comparison of counts other than `== 0`. A decoded literal is stored as decoded: no case mapping, replacement or trimming between the escape decoder and the AST.",
    "C08": "Also decided: the error constructor reports the position it is given (location and line_col are projections "
           "of the same Position, never rewritten afterwards); the vector an attempt is pushed to is decided path by path. The optimizer pass that replaces rule references by their literals is enabled only inside @ rules, where rules are not reportable.",
    "C09": "Also decided: rendering (Display for Error and what it reaches in pest::error) never slices a string by a "
           "computed range and has no panic site; every token the meta-grammar can produce has a reader arm in every "
           "feature configuration (C07.ARMS re-run), so the reader's unreachable!() arm is unreachable; memo tables of "
           "optimizer recursions never evict. Grammar numbers are followed into helper parameters; the front-end entry points read their own text parameter; the leading-`|` clause of C07 and the miette label arithmetic of C10 are re-run.",
    "C10": "Also decided (comparison-shaped clauses): the line iterator of a span stops only strictly past the span's end, "
           "the gutter width of a rendered error reads both line numbers of a span location, and the marker's start "
           "column is rewritten only under a strict start > end. The diagnostic-label arithmetic of the miette adapter never subtracts the columns of a span unguarded; the error constructors never whitespace-trim the line text; merge_spans computes each bound from both arguments. find_line_start searches back from the position itself. Every (line, column) pair put into a LineColLocation is the result of Position::line_col adjusted at most by constants, first pair from the span's start and second from its end (LOCSOURCE, value provenance); every line text an error stores has had its line breaks rewritten on every path (STOREDLINE).",
    "C11": "AGREE also decides which end of the popped segment the merge in clear_snapshot may cut: pop appends, so with "
           "a parent snapshot present a suffix-only cut keeps the wrong elements. The argument of truncate / split_off on the popped vector in clear_snapshot is computed from the vector's length. The bookkeeping is usize throughout: no narrowing `as` cast in an operation of Stack, snapshot records declared over usize (WIDTH).",
    "C12": "Also decided: the setter stores into the process-wide limit on every path with the sentinel the tracker reads "
           "as unlimited; the limit keeps its integer width from setter to comparison; the global is read only when a "
           "tracker is built. In every counting combinator the limit check precedes every write to the parser state, so a refused call hands back the caller's state. No public ParserState operation reaches an explicit panic site (empty-stack expect of POP / PEEK) without first leaving when the tracker says the limit was reached.",
    "C13": "Also decided: operator lookup precondition (binary search only over sorted tables), each operator of a `|` "
           "chain is registered under its own rule, and a rule declared twice resolves alike in PrattParser and "
           "ConstPrattParser (last declaration wins in both). The expansions of prec_climber! and pratt_precedence! on a witness table (compiled, never run) give |-joined operators one level, later lines higher levels, and keep associativity. Every constructor of PrattParser starts the level counter so that the first level is at least PREC_STEP, and op() stores the level read after the increment.",
    "C14": "Also decided: pest_meta::parser::parse is PestParser::parse on its own parameters (ENTRY); every rule function of "
           "grammar.rs decompiles to the expression an independent reader gives that rule in grammar.pest (INDEPENDENT, "
           "breaks the circularity of regeneration); VM agreement is C02 re-run on the default configuration. C05's optimizer clauses are re-run (the fresh derivation and the VM go through the optimizer).",
    "C15": "Also decided: every value stored in max_position is an offset read from a Position (inter-procedural "
           "provenance, never arithmetic); code that runs only with error detail on contains no explicit panic site. String slicing by byte offsets counts as a panic site there.",
    "C16": "Also decided: the front-end never consults the raw lookup tables (which hold unadvertised names); generator "
           "template and emitted function carry the same property name; no advertised name is shadowed by a hard-wired arm. by_name consults all three tables also in the build without default features; no optimizer pass reasons from a fragment of a name's spelling (OPAQUE).",
    "C17": "Also decided: the done flag protocol, every entry path offers the rule to the listener, the shared state is "
           "reached only through the lock, and the bundled CLI keeps the previous receiver alive until run() has joined "
           "the previous parser thread. The CLI adds no breakpoint after it has started a session on the same path. Each CLI session reports through its own channel; the breakpoint set changes only element by element; the parser thread's sends are judged against run()'s join (known finding: blocking sends on the bounded channel).",
    "C18": "The same analyses are re-run on the PEG decompiled from the derive-expanded JsonParser, in the default build and "
           "in a build with pest_derive/grammar-extras unified in; the tree clause's observation layer (Pairs views) is C04 "
           "re-run; lifting a call limit (C12.SETTER) is re-run.",
}
PENDING = "check not built yet (DESIGN.md section 4 describes the planned rule); not claimed until it exists"


def main():
    props = [json.loads(l) for l in open(os.path.join(VERIF, "properties.jsonl"))]
    checks = []
    na = []
    for p in props:
        pid = p["id"]
        try:
            mod = importlib.import_module("pv.rules.%s" % pid.lower())
        except ModuleNotFoundError:
            mod = None
        if mod is None or not hasattr(mod, "MANIFEST"):
            na.append({"property_id": pid, "reason": NOT_APPLICABLE.get(pid, PENDING)})
            continue
        m = mod.MANIFEST
        checks.append({
            "property_id": pid,
            "quick_cmd": "./check %s --tier quick" % pid,
            "thorough_cmd": "./check %s --tier thorough" % pid,
            "evidence_file": "/verif/evidence/%s.json" % pid,
            "replay_cmd_template": "./check %s --replay {path}" % pid,
            "engine": m.get("engine", "pestfacts+rules"),
            "level_claimed": {"category": getattr(mod, "LEVEL", "other"), "text": m["text"] + ((" " + ALSO[pid]) if pid in ALSO else ""),
                              "design_ref": m.get("design_ref", "DESIGN.md section 4, %s" % pid)},
            "level_note": m["note"],
            "technique": m["technique"],
        })
    man = {
        "version": 1,
        "setup_cmd": "sh bin/setup.sh",
        "hooks": {
            "guard": "pest_parser_pest_verif",
            "enable": "none: the checks are static analyses of the unmodified source; no hook or "
                      "instrumentation was added to /repo (fix: commits are unguarded repairs)",
            "baseline_off_cmd": "sh /verif/bin/repotest.sh",
            "source_commits": [],
            "add_only": True,
        },
        "engines": [
            {"name": "pestfacts", "path": "/verif/pestfacts",
             "serves_properties": [c["property_id"] for c in checks],
             "kind_free_text": "rustc_private driver (nightly) that serialises type-checked HIR with resolved "
                               "paths/methods/types per feature configuration; run through "
                               "RUSTC_WORKSPACE_WRAPPER under cargo check"},
            {"name": "rules", "path": "/verif/pv",
             "serves_properties": [c["property_id"] for c in checks],
             "kind_free_text": "Python rule library: structured-control-flow path enumeration, call graph, "
                               "field-effect summaries, who-may-call, exhaustiveness and table-agreement rules"},
        ],
        "checks": checks,
        "not_applicable": na,
        "notes": "All checks are static: they read /repo's current working tree through the compiler (facts "
                 "are cached by a hash of every source file, so a cache hit is a run on identical source). "
                 "PEST_REPO=<dir> points the checks at a scratch copy (used by the self-tests).",
    }
    with open(os.path.join(VERIF, "MANIFEST.json"), "w") as fh:
        json.dump(man, fh, indent=1)
    print("claimed:", [c["property_id"] for c in checks])
    print("not_applicable:", [n["property_id"] for n in na])


if __name__ == "__main__":
    main()
