#!/usr/bin/env python3
"""mkmutant.py PROP NAME 'expected key fragment(s)' FILE   (stdin: old-text \n====\n new-text [\n@@@@\n FILE2 \n old \n====\n new])
Writes selftest/PROP/NAME.patch as a unified diff of /repo/FILE with old replaced by new (must be unique)."""
import difflib, os, sys
VERIF = os.path.dirname(os.path.dirname(os.path.abspath(__file__)))
prop, name, expect, f = sys.argv[1:5]
spec = sys.stdin.read()
parts = spec.split("\n@@@@\n")
edits = []
first = True
for part in parts:
    if first:
        fn = f; body = part; first = False
    else:
        fn, body = part.split("\n", 1)
    old, new = body.split("\n====\n")
    edits.append((fn.strip(), old.strip("\n"), new.strip("\n")))
out = "# expect: %s %s\n" % (prop, expect)
byfile = {}
for fn, old, new in edits:
    src = byfile.get(fn) or open(os.path.join("/repo", fn)).read()
    if src.count(old) != 1:
        sys.exit("old text occurs %d times in %s" % (src.count(old), fn))
    byfile[fn] = src.replace(old, new)
for fn, dst in byfile.items():
    src = open(os.path.join("/repo", fn)).read()
    out += "".join(difflib.unified_diff(src.splitlines(True), dst.splitlines(True), "a/" + fn, "b/" + fn))
d = os.path.join(VERIF, "selftest", prop)
os.makedirs(d, exist_ok=True)
open(os.path.join(d, name + ".patch"), "w").write(out)
print("wrote", os.path.join(d, name + ".patch"))
