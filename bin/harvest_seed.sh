#!/bin/sh
# harvest_seed.sh <PROP> <n> <name> [worktree-suffix]: copy /tmp/wt_<PROP>/SEED/<n> to seeded/<PROP>-<name>, path deps -> /repo
set -e
P=$1; N=$2; NAME=$3; SUF=${4:-}
SRC=/tmp/wt_$P$SUF/SEED/$N
DST=/verif/seeded/$P-$NAME
rm -rf "$DST"; mkdir -p "$DST"
cp "$SRC/patch.diff" "$DST/patch.diff"
cp "$SRC/README.md" "$DST/README.md"
cp -r "$SRC/demo" "$DST/demo"
find "$DST/demo" -name target -type d -prune -exec rm -rf {} +
rm -f "$DST/demo/Cargo.lock"
grep -rl "/tmp/wt_$P$SUF" "$DST" | xargs -r sed -i "s#/tmp/wt_$P$SUF#/repo#g"
echo "$DST"
