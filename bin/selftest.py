#!/usr/bin/env python3
"""Both-ways self-test of the rules: every mutant patch under selftest/<PROP>/ (or seeded/<id>/patch.diff)
is applied to a scratch copy of /repo; the property's check must then report a violation whose key
contains the expected fragment.  Usage: selftest.py [--jobs N] [PROP|patch-file ...]
A patch starts with a line   # expect: <PROP> <key-fragment>[ | <key-fragment>...]"""
import concurrent.futures
import glob
import os
import re
import shutil
import subprocess
import sys
import tempfile

VERIF = os.path.dirname(os.path.dirname(os.path.abspath(__file__)))
REPO = "/repo"


AS_PROP = None


def run_one(patch):
    head = open(patch).read(2000)
    silent = re.search(r"#\s*expect-silent:\s*(C\d+)", head)
    if re.search(r"#\s*expect-silent:\s*ALL", head):
        return run_all_silent(patch)
    m = re.search(r"#\s*expect:\s*(C\d+)\s+(.*)", head)
    metap = os.path.join(os.path.dirname(patch), "meta.json")
    if not m and not silent and os.path.basename(patch) == "patch.diff" and os.path.exists(metap):
        # a seeded change: the expectation is what meta.json recorded (bin/seedcheck.py --record)
        import json
        db = json.load(open(metap)).get("detected_by") or {}
        want = AS_PROP if AS_PROP in db else (sorted(db)[0] if db else None)
        if want and db[want]:
            m = re.match(r"(C\d+)\s+(.*)", "%s %s" % (want, db[want][0]))
    if not m and not silent:
        return (patch, False, "no '# expect:' header")
    if silent:
        prop, frags = silent.group(1), []
    elif re.search(r"#\s*expect-silent:\s*ALL", head):
        pass
    else:
        prop, frags = m.group(1), [x.strip() for x in m.group(2).split("|")]
    tmp = tempfile.mkdtemp(prefix="pest-mutant-")
    try:
        scratch = os.path.join(tmp, "repo")
        subprocess.check_call(["rsync", "-a", "--exclude", "target", "--exclude", ".git", REPO + "/", scratch + "/"])
        p = subprocess.run(["patch", "-p1", "-s", "-i", os.path.abspath(patch)], cwd=scratch,
                           stdout=subprocess.PIPE, stderr=subprocess.STDOUT, text=True)
        if p.returncode != 0:
            return (patch, False, "patch does not apply: " + p.stdout[-300:])
        env = dict(os.environ, PEST_REPO=scratch, PEST_CACHE=os.path.join(tmp, "cache"),
                   PEST_EVIDENCE_DIR=os.path.join(tmp, "evidence"), PEST_REPLAY_DIR=os.path.join(tmp, "replay"))
        q = subprocess.run([os.path.join(VERIF, "check"), prop, "--tier", "quick"], cwd=VERIF, env=env,
                           stdout=subprocess.PIPE, stderr=subprocess.STDOUT, text=True)
        out = q.stdout
        if silent:
            if q.returncode == 0 and "VIOLATION" not in out:
                return (patch, True, "silent on a behaviour-preserving refactor (negative control)")
            return (patch, False, "FALSE ALARM on a behaviour-preserving change: " + out[-1500:])
        if q.returncode != 1 or "VIOLATION property=%s" % prop not in out:
            return (patch, False, "check did not fire (exit %d): %s" % (q.returncode, out[-400:]))
        if "BUILD" in out and "cannot analyse" in out:
            return (patch, False, "mutant does not compile: " + out[-600:])
        missing = [f for f in frags if f not in out]
        if missing:
            return (patch, False, "fired, but not on the expected key(s) %s: %s" % (missing, out[-1200:]))
        return (patch, True, "fired on " + ", ".join(frags))
    finally:
        shutil.rmtree(tmp, ignore_errors=True)


def run_all_silent(patch):
    """`# expect-silent: ALL`: every claimed check (or the one given with --as) must stay silent."""
    import json
    props = [AS_PROP] if AS_PROP else [c["property_id"] for c in json.load(open(os.path.join(VERIF, "MANIFEST.json")))["checks"]]
    tmp = tempfile.mkdtemp(prefix="pest-mutant-")
    try:
        scratch = os.path.join(tmp, "repo")
        subprocess.check_call(["rsync", "-a", "--exclude", "target", "--exclude", ".git", REPO + "/", scratch + "/"])
        p = subprocess.run(["patch", "-p1", "-s", "-i", os.path.abspath(patch)], cwd=scratch,
                           stdout=subprocess.PIPE, stderr=subprocess.STDOUT, text=True)
        if p.returncode != 0:
            return (patch, False, "patch does not apply: " + p.stdout[-300:])
        env = dict(os.environ, PEST_REPO=scratch, PEST_CACHE=os.path.join(tmp, "cache"),
                   PEST_EVIDENCE_DIR=os.path.join(tmp, "evidence"), PEST_REPLAY_DIR=os.path.join(tmp, "replay"))
        bad = []
        for prop in props:
            q = subprocess.run([os.path.join(VERIF, "check"), prop, "--tier", "quick"], cwd=VERIF, env=env,
                               stdout=subprocess.PIPE, stderr=subprocess.STDOUT, text=True)
            if q.returncode != 0 or "VIOLATION" in q.stdout:
                bad.append("%s: %s" % (prop, q.stdout[-600:]))
        if bad:
            return (patch, False, "FALSE ALARM on a behaviour-preserving change: " + " | ".join(bad))
        return (patch, True, "%d check(s) silent on a behaviour-preserving change (negative control)" % len(props))
    finally:
        shutil.rmtree(tmp, ignore_errors=True)


def main():
    global AS_PROP
    args = sys.argv[1:]
    if "--as" in args:
        i = args.index("--as")
        AS_PROP = args[i + 1]
        del args[i:i + 2]
    jobs = 4
    if "--jobs" in args:
        i = args.index("--jobs")
        jobs = int(args[i + 1])
        del args[i:i + 2]
    patches = []
    if not args:
        patches = sorted(glob.glob(os.path.join(VERIF, "selftest", "*", "*.patch")))
    for a in args:
        if os.path.isfile(a):
            patches.append(a)
        else:
            patches += sorted(glob.glob(os.path.join(VERIF, "selftest", a.upper(), "*.patch")))
    bad = 0
    with concurrent.futures.ThreadPoolExecutor(max_workers=jobs) as ex:
        for (patch, ok, msg) in ex.map(run_one, patches):
            print("%s %s: %s" % ("ok  " if ok else "FAIL", os.path.relpath(patch, VERIF), msg))
            bad += 0 if ok else 1
    print("%d mutants, %d not detected" % (len(patches), bad))
    return 1 if bad else 0


if __name__ == "__main__":
    sys.exit(main())
