#!/usr/bin/env python3
"""seedcheck.py [--all-props] [seed-dir ...]: apply each seeded patch to a scratch copy of /repo and run the
property's check (or every claimed check) against it; prints which rule keys fire."""
import concurrent.futures, glob, json, os, re, shutil, subprocess, sys, tempfile
VERIF = os.path.dirname(os.path.dirname(os.path.abspath(__file__)))


def claimed():
    m = json.load(open(os.path.join(VERIF, "MANIFEST.json")))
    return [c["property_id"] for c in m["checks"]]


def run_one(args):
    d, allp = args
    name = os.path.basename(d.rstrip("/"))
    prop = name.split("-")[0]
    props = claimed() if allp else ([prop] if prop in claimed() else [])
    tmp = tempfile.mkdtemp(prefix="pest-seed-")
    res = {}
    try:
        scratch = os.path.join(tmp, "repo")
        subprocess.check_call(["rsync", "-a", "--exclude", "target", "--exclude", ".git", "/repo/", scratch + "/"])
        p = subprocess.run(["patch", "-p1", "-s", "-i", os.path.join(os.path.abspath(d), "patch.diff")], cwd=scratch,
                           stdout=subprocess.PIPE, stderr=subprocess.STDOUT, text=True)
        if p.returncode != 0:
            return (name, {"error": "patch does not apply: " + p.stdout[-200:]})
        env = dict(os.environ, PEST_REPO=scratch, PEST_CACHE=os.path.join(tmp, "cache"),
                   PEST_EVIDENCE_DIR=os.path.join(tmp, "ev"), PEST_REPLAY_DIR=os.path.join(tmp, "rp"))
        for pr in props:
            q = subprocess.run([os.path.join(VERIF, "check"), pr], cwd=VERIF, env=env, stdout=subprocess.PIPE,
                               stderr=subprocess.STDOUT, text=True)
            keys = re.findall(r"key=(\S+)", q.stdout)
            res[pr] = {"exit": q.returncode, "keys": [k for k in keys], "viol": "VIOLATION property=" in q.stdout,
                       "crash": "Traceback (most recent call last)" in q.stdout}
    finally:
        shutil.rmtree(tmp, ignore_errors=True)
    return (name, res)


def main():
    args = sys.argv[1:]
    allp = "--all-props" in args
    args = [a for a in args if a not in ("--all-props", "--record")]
    dirs = args or sorted(glob.glob(os.path.join(VERIF, "seeded", "*")))
    with concurrent.futures.ThreadPoolExecutor(max_workers=6) as ex:
        for (name, res) in ex.map(run_one, [(d, allp) for d in dirs]):
            fired = {p: r["keys"] for p, r in res.items() if isinstance(r, dict) and r.get("exit") == 1 and r.get("viol")
                     and r.get("keys") and not r.get("crash")}
            mp = os.path.join(VERIF, "seeded", name, "meta.json")
            if os.path.exists(mp) and "--record" in sys.argv:
                meta = json.load(open(mp))
                known = set()
                kf = os.path.join(VERIF, "known_findings.txt")
                for line in open(kf):
                    m = re.match(r"known:\s+property=(\S+)\s+key=(\S+)", line)
                    if m:
                        known.add(m.group(2))
                meta["detected_by"] = {p: [k for k in ks if k not in known] for p, ks in fired.items()}
                meta["detected"] = bool(fired)
                json.dump(meta, open(mp, "w"), indent=1)
            print("%s: %s" % (name, ("DETECTED " + json.dumps(fired)) if fired else ("missed " + json.dumps(res))))


if __name__ == "__main__":
    main()
