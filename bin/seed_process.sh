#!/bin/sh
# seed_process.sh <seed-name> <needs...>: confirm (scratch worktree), write meta.json, run the checks against it
N=$1; shift
mkdir -p /tmp/confirm
/verif/bin/confirm_seed.sh /verif/seeded/$N > /tmp/confirm/$N.txt 2>&1
grep RESULT /tmp/confirm/$N.txt | sed "s/^/$N /"
/verif/bin/seedmeta.py $N "$@"
/verif/bin/seedcheck.py --record /verif/seeded/$N | cut -c1-400
