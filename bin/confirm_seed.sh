#!/bin/sh
# confirm_seed.sh <seed-dir>   (seed-dir has patch.diff and demo/ whose path deps point to /repo)
# Confirms in a scratch worktree: patch applies and builds, suite still passes (528 + the baseline's one
# failure), demo FAILS with the patch and PASSES without.
set -u
SEED=$(cd "$1" && pwd)
W=$(mktemp -d /tmp/cs_XXXXXX)
rmdir "$W"
git -C /repo worktree add --detach "$W" HEAD -q || exit 2
cleanup() { git -C /repo worktree remove --force "$W" 2>/dev/null; rm -rf "$W" "$D"; }
D=$(mktemp -d /tmp/csdemo_XXXXXX)
cp -r "$SEED/demo/." "$D/"
grep -rlI "/repo" "$D" | xargs -r sed -i "s#/repo/#$W/#g; s#/repo\"#$W\"#g"
cp "$W/Cargo.lock" "$D/Cargo.lock" 2>/dev/null
DEMOCMD=${DEMOCMD:-"cargo test --offline"}
[ -f "$SEED/demo/CMD" ] && DEMOCMD=$(cat "$SEED/demo/CMD")
echo "== demo on unmodified tree (must pass)"
(cd "$D" && sh -c "$DEMOCMD" >"$D/out0.txt" 2>&1); R0=$?
tail -3 "$D/out0.txt"
echo "== apply patch"
(cd "$W" && git apply "$SEED/patch.diff") || { echo "PATCH DOES NOT APPLY"; cleanup; exit 1; }
echo "== suite with patch"
(cd "$W" && cargo nextest run --workspace --no-fail-fast --offline --test-threads 12 >"$D/suite.txt" 2>&1)
SUM=$(grep -E "^\s*Summary" "$D/suite.txt" | tail -1)
echo "$SUM"
FAILS=$(grep -E "^\s+FAIL " "$D/suite.txt" | awk '{print $NF}' | sort -u | tr '\n' ' ')
echo "failing: $FAILS"
echo "== demo with patch (must fail)"
(cd "$D" && sh -c "$DEMOCMD" >"$D/out1.txt" 2>&1); R1=$?
tail -3 "$D/out1.txt"
echo "RESULT demo_unmodified_rc=$R0 demo_patched_rc=$R1 suite='$SUM' failing='$FAILS'"
cleanup
