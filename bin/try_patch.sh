#!/bin/sh
# try_patch.sh <patch> <PROP> [extra env assignments...]: apply the patch to a scratch copy of /repo (kept in /tmp/tp_<name> with
# its fact cache until `rm -rf`), run ./check PROP on it and print the violation lines
P=$(readlink -f "$1"); PROP=$2; shift 2
N=$(basename "$P" .patch); [ "$N" = "patch.diff" ] && N=$(basename $(dirname "$P"))
D=/tmp/tp_$N
if [ ! -d "$D/repo" ]; then
  mkdir -p "$D"; rsync -a --exclude target --exclude .git /repo/ "$D/repo/"
  (cd "$D/repo" && patch -p1 -s -i "$P") || exit 2
fi
env PEST_REPO="$D/repo" PEST_CACHE="$D/cache" PEST_EVIDENCE_DIR="$D/ev" PEST_REPLAY_DIR="$D/rp" "$@" /verif/check "$PROP" 2>&1 | grep -v "^KNOWN"
