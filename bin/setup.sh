#!/bin/sh
# Builds the analysis engines from files on disk only (offline).
set -e
cd "$(dirname "$0")/.."
export CARGO_NET_OFFLINE=true
(cd pestfacts && cargo build --offline -q 2>&1 | tail -5)
test -x pestfacts/target/debug/pestfacts
if [ -d pestsyn ]; then
  (cd pestsyn && cargo build --offline -q 2>&1 | tail -5)
  test -x pestsyn/target/debug/pestsyn
fi
echo "setup ok"
