#!/usr/bin/env python3
"""seedmeta.py <seed-name> <needs...>: writes seeded/<name>/meta.json from /tmp/confirm/<name>.txt"""
import json, os, re, sys
name = sys.argv[1]
needs = " ".join(sys.argv[2:])
d = os.path.join("/verif/seeded", name)
conf = open("/tmp/confirm/%s.txt" % name).read() if os.path.exists("/tmp/confirm/%s.txt" % name) else ""
m = re.search(r"RESULT demo_unmodified_rc=(\d+) demo_patched_rc=(\d+) suite='\s*(.*?)' failing='(.*?)'", conf)
meta = {
    "id": name,
    "property": name.split("-")[0],
    "breaks": open(os.path.join(d, "README.md")).read().split("\n\n")[0][:600],
    "needs_to_manifest": needs,
    "origin": "independent sub-agent given only the property text and a scratch worktree",
    "confirmed_by": "bin/confirm_seed.sh seeded/%s (scratch worktree of /repo HEAD, removed afterwards)" % name,
    "ran": {
        "suite_with_patch": m.group(3) if m else "?",
        "suite_failures_with_patch": (m.group(4).split() if m else []),
        "demo_cmd": (open(os.path.join(d, "demo", "CMD")).read().strip() if os.path.exists(os.path.join(d, "demo", "CMD")) else "cargo test --offline"),
        "demo_exit_on_unmodified_tree": int(m.group(1)) if m else None,
        "demo_exit_with_patch": int(m.group(2)) if m else None,
    },
}
old = os.path.join(d, "meta.json")
if os.path.exists(old):
    o = json.load(open(old))
    for k in ("detected_by", "detection_note"):
        if k in o:
            meta[k] = o[k]
json.dump(meta, open(old, "w"), indent=1)
print("wrote", old)
