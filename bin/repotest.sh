#!/bin/sh
# Runs the repository's own suite (guard off: there are no hooks) and compares with BASELINE.json:
# all 528 stable tests must pass; the only tolerated failure is the baseline's always-fail.
cd /repo || exit 2
OUT=$(mktemp)
cargo nextest run --workspace --no-fail-fast --offline --test-threads 8 >"$OUT" 2>&1
python3 - "$OUT" <<'PY'
import json,re,sys
base=json.load(open('/root/.vp/BASELINE.json'))
stable=set(base['stable_pass'])
txt=open(sys.argv[1]).read()
passed=set(); failed=set()
for m in re.finditer(r'^\s*(PASS|FAIL)\s+\[[^\]]*\]\s+(?:\(\s*\d+/\d+\)\s+)?(\S+)\s+(\S+)\s*$', txt, re.M):
    crate_bin, name = m.group(2), m.group(3)
    parts=crate_bin.split('::')
    full = (parts[0]+'::'+parts[1]+'::'+name) if len(parts)>1 else (parts[0]+'::'+name)
    (passed if m.group(1)=='PASS' else failed).add(full)
missing=sorted(stable-passed)
print("passed=%d failed=%d stable=%d missing_from_pass=%d"%(len(passed),len(failed),len(stable),len(missing)))
for x in missing[:20]: print("  NOT PASSING:",x)
sys.exit(1 if missing else 0)
PY
rc=$?
rm -f "$OUT"
exit $rc
