#!/bin/sh
# harvest_ref.sh <Rg>: copy /tmp/wt_<Rg>/REF/<n>/patch.diff to selftest/ALL/neg_<Rg>_<n>.patch with the expect-silent header
G=$1
for n in 1 2 3 4 5 6; do
  S=/tmp/wt_$G/REF/$n
  [ -f $S/patch.diff ] || continue
  T=$(head -1 $S/README.md | tr -d '\n')
  K=$(grep -m1 -i "^kind\|^\*\*kind" $S/README.md | tr -d '\n' | cut -c1-300)
  { echo "# expect-silent: ALL"; echo "# behaviour-preserving refactoring written by an independent sub-agent ($G/$n): $T $K"; cat $S/patch.diff; } > /verif/selftest/ALL/neg_${G}_$n.patch
  echo "neg_${G}_$n: $T"
done
