#!/usr/bin/env python3
"""agent_prompt.py <PROP> [round]: prints the task text given to an independent sub-agent (only the property
text and its own scratch worktree /tmp/wt_<PROP>; nothing from /verif)."""
import json, sys
pid = sys.argv[1]
rnd = sys.argv[2] if len(sys.argv) > 2 else ""
p = None
for l in open('/verif/properties.jsonl'):
    q = json.loads(l)
    if q['id'] == pid:
        p = q
wt = "/tmp/wt_%s%s" % (pid, rnd)
extra = ""
import os
used = {}
if os.path.exists('/tmp/used_topics.json'):
    used = json.load(open('/tmp/used_topics.json'))
if rnd:
    extra = ("\nAn earlier round already produced changes for this property; to be useful yours must be DIFFERENT in kind: "
             "prefer other files and mechanisms listed in the anchors than the obvious ones, feature-gated code paths, "
             "rarely used API entry points, and pairs of sites that must agree with each other.\n")
    if used.get(pid):
        extra += ("Changes ALREADY produced for this property (do not repeat these or close variants of them):\n" +
                  "".join("  - %s\n" % u for u in used[pid]))
print(f"""You are helping evaluate a verification effort for the Rust crate workspace pest (a PEG parser generator).
Your own scratch git worktree of the repository is at {wt} (a detached checkout; it builds offline with
`cargo build --offline`). Work ONLY inside {wt}. Do not read or write /repo or /verif, and do not use the network.

Here is a semantic property that pest is supposed to satisfy:

{json.dumps(p, indent=1)}
{extra}
TASK: produce TWO independent, realistic source changes to pest (each a small patch a careless or mistaken
maintainer could plausibly make: an off-by-one, a dropped guard, a swapped argument, a missed case, a refactor that
forgets one path, a stale copy of a sibling...) such that EACH change, on its own:
  1. still compiles (the whole workspace: `cargo build --workspace --offline`);
  2. still passes the existing test suite: run `cargo nextest run --workspace --offline --no-fail-fast` (or `cargo test
     --workspace --offline --no-fail-fast`); on the unmodified tree 528 tests pass and exactly one,
     `pest_vm::surround::quote`, fails - that one failure is expected and must be the only one;
  3. BREAKS the property above - demonstrated by a small test or program you write (the demonstration) that
     FAILS with the change applied and PASSES on the unmodified tree;
  4. needs something specific to manifest: a particular multi-step sequence of operations, an unusual input or
     grammar, a particular feature configuration, a fault at a particular point, or two cooperating sites that each
     look fine alone. Do NOT propose changes that ordinary use would expose at once (they would fail the test suite).
The two changes should touch different mechanisms/locations relevant to the property (see its anchors).

DELIVERABLES (inside the worktree), for n = 1, 2:
  {wt}/SEED/{{n}}/patch.diff   - `git diff` of the change against the worktree's HEAD (pest sources only, no demo)
  {wt}/SEED/{{n}}/demo/        - the demonstration: a self-contained cargo project (own [workspace] table,
                                    ABSOLUTE path dependencies on {wt}/pest etc., copy {wt}/Cargo.lock into it so
                                    it resolves offline); if it is not run with `cargo test --offline`, put the exact
                                    shell command in a one-line file demo/CMD
  {wt}/SEED/{{n}}/README.md    - what the change is, why it breaks the property, what it needs in order to
                                    manifest, the exact commands you ran and their observed results (suite
                                    pass counts with the change; demo failing with the change, passing without)
Make sure the worktree's tracked files are back to the unmodified HEAD state when you finish (git checkout -- .), and
delete build output you created (cargo target directories under the worktree and demo dirs) to save disk.
Your final message should summarise, per change: files touched, what breaks, how the demo shows it, and the test-suite result.""")
