"""Queries over the typed-HIR facts produced by pestfacts.

The central tool is a path enumerator over *structured* control flow: for a function body it
yields every execution path (loops unrolled at most once) as a list of events with the outcome
(normal / return / break).  Pairing, ordering and must-pass-through rules are predicates over
these paths.  Conditions on immutable boolean locals are kept consistent along a path so that
`if t { a } .. if t { b }` does not produce the two infeasible combinations.
"""

MAX_PATHS = 200000


class TooManyPaths(Exception):
    pass


# ------------------------------------------------------------------ generic walking

def children(n):
    """Direct child nodes (dicts carrying 'k', arms, fields) in evaluation order."""
    if isinstance(n, list):
        for x in n:
            if isinstance(x, (dict, list)):
                yield x
        return
    for key, v in n.items():
        if isinstance(v, (dict, list)):
            yield v


def walk(n):
    """All dict nodes below n (preorder), including n."""
    stack = [n]
    while stack:
        x = stack.pop()
        if isinstance(x, dict):
            yield x
            for v in reversed(list(x.values())):
                if isinstance(v, (dict, list)):
                    stack.append(v)
        elif isinstance(x, list):
            for v in reversed(x):
                if isinstance(v, (dict, list)):
                    stack.append(v)


def walk_no_closures(n):
    stack = [n]
    first = True
    while stack:
        x = stack.pop()
        if isinstance(x, dict):
            if x.get("k") == "Closure" and not first:
                yield x
                continue
            first = False
            yield x
            for v in reversed(list(x.values())):
                if isinstance(v, (dict, list)):
                    stack.append(v)
        elif isinstance(x, list):
            for v in reversed(x):
                if isinstance(v, (dict, list)):
                    stack.append(v)


def kind(n):
    return n.get("k") if isinstance(n, dict) else None


def where(n):
    sp = n.get("sp", "") if isinstance(n, dict) else ""
    if isinstance(n, dict) and n.get("cs") and ("/.cargo/registry/" in sp or "/rustc/" in sp or "/library/" in sp):
        sp = n["cs"]  # inside a macro from another crate: point at the invocation
    # file:line
    parts = sp.split(":")
    return ":".join(parts[:2]) if len(parts) >= 2 else sp


def line(n):
    try:
        return int(n.get("sp", "").split(":")[1])
    except Exception:
        return 0


def from_macro(n, name=None):
    e = n.get("exp")
    if not e:
        return False
    if name is None:
        return any(x.startswith("m:") for x in e)
    return ("m:" + name) in e


def is_desugar(n):
    e = n.get("exp")
    return bool(e) and any(x.startswith("d:") or x.startswith("x:") for x in e)


ALIAS = {}   # actual def-path -> the path the rules expect (functions relocated into/out of a nested module; facts.py)


def callee(n):
    """Resolved callee def-path of a Call / MethodCall node, ('local', id) for a call through a
    local (closure or fn parameter), or None."""
    k = kind(n)
    if k == "MethodCall":
        p = n.get("path")
        return ALIAS.get(p, p) if ALIAS else p
    if k == "Call":
        f = peel(n["f"])
        if kind(f) == "Path":
            if f.get("res") == "def":
                p = f.get("path")
                return ALIAS.get(p, p) if ALIAS else p
            if f.get("res") == "local":
                return ("local", f["id"], f["name"])
    return None


def is_call(n, *paths):
    c = callee(n)
    return isinstance(c, str) and c in paths


def call_args(n):
    """Arguments including the receiver for method calls."""
    if kind(n) == "MethodCall":
        return [n["recv"]] + n["args"]
    if kind(n) == "Call":
        return n["args"]
    return []


def call_like_args(n):
    """Arguments of a call, or the argument expressions bound to the parameters of an inlined call (pv/inline.py)."""
    n = peel(n)
    if kind(n) in ("Call", "MethodCall"):
        return call_args(n)
    if kind(n) == "Block" and n.get("inlined"):
        return [st["init"] for st in n.get("stmts", []) if st.get("inl_param")]
    return None


def called_paths(body):
    """Def-paths called in body, including helpers whose call was replaced by their inlined body."""
    out = set()
    for n in walk(body):
        if n.get("k") in ("Call", "MethodCall"):
            c = callee(n)
            if isinstance(c, str):
                out.add(c)
        elif n.get("k") == "Block" and n.get("inlined"):
            out.add(n["inlined"])
    return out


def peel(n):
    """Strip reference / deref / cast / paren-like wrappers and no-op borrows."""
    while isinstance(n, dict):
        k = n.get("k")
        if k in ("AddrOf", "Cast"):
            n = n["e"]
        elif k == "Unary" and n.get("op") == "*":
            n = n["e"]
        elif k == "Block" and not n.get("stmts") and n.get("expr") is not None and not n.get("unsafe"):
            n = n["expr"]
        elif k == "MethodCall" and n.get("path") in PURE_ID_METHODS and not n["args"]:
            n = n["recv"]
        else:
            break
    return n


PURE_ID_METHODS = {
    "core::clone::Clone::clone", "core::borrow::Borrow::borrow", "core::borrow::BorrowMut::borrow_mut",
    "core::convert::AsRef::as_ref", "core::convert::AsMut::as_mut", "core::ops::Deref::deref",
    "core::ops::DerefMut::deref_mut", "alloc::borrow::ToOwned::to_owned",
}


def place(n):
    """('local-name', id, [fields...]) for a field chain rooted at a local, else None.
    Index projections appear as '[]'."""
    n = peel(n)
    fields = []
    while isinstance(n, dict):
        k = n.get("k")
        if k == "Field":
            fields.append(n["name"])
            n = peel(n["base"])
        elif k == "Index":
            fields.append("[]")
            n = peel(n["base"])
        elif k == "Path" and n.get("res") == "local":
            return (n["name"], n["id"], list(reversed(fields)))
        else:
            return None
    return None


def field_write_target(n):
    """For an Assign/AssignOp node: (adt-type-string-of-base, field) of the outermost field written."""
    l = peel(n["l"])
    if kind(l) == "Field":
        return (l.get("bty", ""), l["name"])
    return None


def local_id(n):
    n = peel(n)
    if kind(n) == "Path" and n.get("res") == "local":
        return n["id"]
    return None


def lit_value(n):
    n = peel(n)
    if kind(n) == "Lit":
        return n.get("v")
    return None


def pat_bindings(p):
    return [(x["id"], x["name"]) for x in walk(p) if x.get("k") == "PBind"]


def pat_variants(p):
    """Variant paths a pattern matches at its top level (through or-patterns, refs, boxes)."""
    k = p.get("k")
    if k == "POr":
        out = []
        for q in p["pats"]:
            out.extend(pat_variants(q))
        return out
    if k in ("PRef", "PBox", "PDeref"):
        return pat_variants(p["pat"])
    if k == "PBind" and p.get("sub"):
        return pat_variants(p["sub"])
    if k in ("PStruct", "PTupleStruct", "PPath") and p.get("res") == "def":
        return [p["path"]]
    return []


def pat_is_catchall(p):
    k = p.get("k")
    if k == "PWild":
        return True
    if k == "PBind" and not p.get("sub"):
        return True
    if k in ("PRef", "PBox", "PDeref"):
        return pat_is_catchall(p["pat"])
    return False


def lets(body):
    """binding id -> (init expr, let stmt) for simple `let x = init;` statements."""
    out = {}
    for n in walk(body):
        if n.get("k") == "Let" and n.get("init") is not None:
            p = n["pat"]
            if p.get("k") == "PBind" and not p.get("sub"):
                out[p["id"]] = (n["init"], n)
    return out


def root_let(lid, lets, depth=0):
    """Follow `let a = b; let c = a;` chains (also the parameter lets of an inlined helper): the id of the first
    binding in the chain whose initializer is not just another local, or lid itself."""
    while depth < 8 and lid in lets:
        init = peel(lets[lid][0])
        if kind(init) == "Path" and init.get("res") == "local" and init["id"] in lets:
            lid = init["id"]
            depth += 1
        else:
            break
    return lid


def binding_source(fn, lid):
    """The expression a pattern binding destructures: the scrutinee of the `match`, the init of the `if let` / `let`
    whose pattern binds local id lid; None for parameters and closure parameters."""
    for n in walk(fn["body"]):
        k = n.get("k")
        if k == "Match":
            for arm in n["arms"]:
                if any(b[0] == lid for b in pat_bindings(arm["pat"])):
                    return n["scrut"]
        elif k in ("LetExpr", "Let") and n.get("init") is not None:
            if any(b[0] == lid for b in pat_bindings(n["pat"])):
                return n["init"]
    return None


def binding_modes(fn):
    """binding id -> True if declared `mut`."""
    out = {}
    for n in walk(fn):
        if n.get("k") == "PBind":
            out[n["id"]] = "Mut)" in n.get("mode", "") and "Mut)" == n.get("mode", "")[-4:]
    return out


# ------------------------------------------------------------------ path enumeration

PANIC_CALLEES = (
    "core::panicking::panic", "core::panicking::panic_fmt", "core::panicking::panic_display",
    "core::panicking::unreachable_display", "core::panicking::panic_explicit",
    "std::rt::begin_panic", "core::panicking::assert_failed", "std::process::exit",
    "core::panicking::panic_nounwind", "std::rt::panic_fmt",
)


class Ev:
    __slots__ = ("kind", "node", "extra")

    def __init__(self, kind, node, extra=None):
        self.kind = kind
        self.node = node
        self.extra = extra

    def __repr__(self):
        c = callee(self.node) if self.kind == "call" else ""
        return "<%s %s %s@%s>" % (self.kind, c, self.extra if self.extra is not None else "", where(self.node))


class PathEnum:
    """Enumerates execution paths of one function body."""

    def __init__(self, fn, inline_closures=True, max_paths=MAX_PATHS, unroll=1):
        self.fn = fn
        self.lets = lets(fn["body"])
        self.mut = binding_modes(fn)
        self.inline_closures = inline_closures
        self.max_paths = max_paths
        self.count = 0
        self.unroll = unroll
        self.truncated_loops = 0
        self.tails = set(id(x) for x in tail_leaves(fn["body"]))
        # the leaves of `return <match/if/block>` are values of the function as well
        for x in walk_no_closures(fn["body"]):
            if x.get("k") == "Ret" and x.get("e") is not None and x["e"].get("k") in ("Match", "If", "Block"):
                self.tails |= set(id(y) for y in tail_leaves(x["e"]))

    # a path state is (events tuple, assumptions dict-as-tuple)
    def paths(self):
        out = []
        for (ev, asm, outc) in self._exec(self.fn["body"], (), {}):
            out.append((list(ev), outc))
        return out

    def paths_of(self, node):
        return [(list(ev), outc) for (ev, asm, outc) in self._exec(node, (), {})]

    def _tick(self):
        self.count += 1
        if self.count > self.max_paths:
            raise TooManyPaths(self.fn.get("path"))

    def _seq(self, nodes, ev, asm):
        """Execute nodes in order; yields (ev, asm, outcome) where outcome is 'normal' only if all
        completed normally."""
        if not nodes:
            yield (ev, asm, "normal")
            return
        first, rest = nodes[0], nodes[1:]
        for (e1, a1, o1) in self._exec(first, ev, asm):
            if o1 != "normal":
                yield (e1, a1, o1)
            else:
                for r in self._seq(rest, e1, a1):
                    yield r

    def _cond(self, c, ev, asm):
        """Yields (ev, asm, outcome, truth)."""
        k = c.get("k")
        if k == "Binary" and c.get("op") == "&&":
            for (e1, a1, o1, t1) in self._cond(c["l"], ev, asm):
                if o1 != "normal" or not t1:
                    yield (e1, a1, o1, t1)
                else:
                    for r in self._cond(c["r"], e1, a1):
                        yield r
            return
        if k == "Binary" and c.get("op") == "||":
            for (e1, a1, o1, t1) in self._cond(c["l"], ev, asm):
                if o1 != "normal" or t1:
                    yield (e1, a1, o1, t1)
                else:
                    for r in self._cond(c["r"], e1, a1):
                        yield r
            return
        if k == "Unary" and c.get("op") == "!":
            for (e1, a1, o1, t1) in self._cond(c["e"], ev, asm):
                yield (e1, a1, o1, (not t1) if o1 == "normal" else t1)
            return
        if k == "LetExpr":
            for (e1, a1, o1) in self._exec(c["init"], ev, asm):
                if o1 != "normal":
                    yield (e1, a1, o1, False)
                    continue
                yield (e1 + (Ev("cond", c, True),), a1, "normal", True)
                if not pat_is_catchall(c["pat"]):
                    yield (e1 + (Ev("cond", c, False),), a1, "normal", False)
            return
        if k == "Lit" and c.get("lk") == "bool":
            yield (ev, asm, "normal", bool(c.get("v")))
            return
        for (e1, a1, o1) in self._exec(c, ev, asm):
            if o1 != "normal":
                yield (e1, a1, o1, False)
                continue
            lid = local_id(c) if kind(peel(c)) == "Path" else None
            fixed = None
            if lid is not None and not self.mut.get(lid, True):
                fixed = a1.get(lid)
            for truth in (True, False):
                if fixed is not None and fixed != truth:
                    continue
                a2 = a1
                if lid is not None and not self.mut.get(lid, True) and fixed is None:
                    a2 = dict(a1)
                    a2[lid] = truth
                self._tick()
                yield (e1 + (Ev("cond", c, truth),), a2, "normal", truth)

    def _exec(self, n, ev, asm):
        if n is not None and id(n) in self.tails:
            for (e1, a1, o1) in self._exec0(n, ev, asm):
                if o1 == "normal":
                    yield (e1 + (Ev("tail", n),), a1, o1)
                else:
                    yield (e1, a1, o1)
        else:
            for r in self._exec0(n, ev, asm):
                yield r

    def _exec0(self, n, ev, asm):
        if n is None:
            yield (ev, asm, "normal")
            return
        k = n.get("k")
        if k in ("Lit", "Path", "ConstBlock", "Err", "InlineAsm", "OffsetOf"):
            yield (ev, asm, "normal")
        elif k == "Closure":
            yield (ev + (Ev("closure", n),), asm, "normal")
        elif k == "Block":
            for r in self._block(n, ev, asm):
                yield r
        elif k == "Call":
            c = callee(n)
            pre = [] if (kind(peel(n["f"])) == "Path") else [n["f"]]
            for (e1, a1, o1) in self._seq(pre + n["args"], ev, asm):
                if o1 != "normal":
                    yield (e1, a1, o1)
                    continue
                if isinstance(c, tuple) and self.inline_closures and c[1] in self.lets \
                        and kind(self.lets[c[1]][0]) == "Closure":
                    clo = self.lets[c[1]][0]
                    e2 = e1 + (Ev("enter", n, clo),)
                    for (e3, a3, o3) in self._exec(clo["body"], e2, a1):
                        if isinstance(o3, tuple) and o3[0] == "ret":
                            o3 = "normal"
                        yield (e3 + (Ev("leave", n, clo),), a3, o3)
                    continue
                e2 = e1 + (Ev("call", n),)
                if (isinstance(c, str) and c in PANIC_CALLEES) or n.get("ty") == "!":
                    yield (e2, a1, "diverge")
                else:
                    yield (e2, a1, "normal")
        elif k == "MethodCall":
            for (e1, a1, o1) in self._seq([n["recv"]] + n["args"], ev, asm):
                if o1 != "normal":
                    yield (e1, a1, o1)
                    continue
                e2 = e1 + (Ev("call", n),)
                yield (e2, a1, "diverge" if n.get("ty") == "!" else "normal")
        elif k == "If":
            for (e1, a1, o1, t) in self._cond(n["cond"], ev, asm):
                if o1 != "normal":
                    yield (e1, a1, o1)
                elif t:
                    for r in self._exec(n["then"], e1, a1):
                        yield r
                else:
                    if n.get("else") is not None:
                        for r in self._exec(n["else"], e1, a1):
                            yield r
                    else:
                        yield (e1, a1, "normal")
        elif k == "Match":
            for (e1, a1, o1) in self._exec(n["scrut"], ev, asm):
                if o1 != "normal":
                    yield (e1, a1, o1)
                    continue
                # a scrutinee that is itself a match / if / block has, on this path, a known leaf; when that leaf is a
                # constructor (Ok(..), Err(..), Some(..), None) only the arms that can take it are feasible
                known = None
                sc0 = peel(n["scrut"])
                if kind(sc0) in ("Match", "If", "Block"):
                    leaf = chosen_leaf(sc0, e1)
                    if leaf is not None:
                        lf = peel(leaf)
                        if kind(lf) == "Call" and isinstance(callee(lf), str) and callee(lf).split("::")[-1] in ("Ok", "Err", "Some"):
                            known = callee(lf)
                        elif kind(lf) == "Path" and str(lf.get("path", "")).endswith("Option::None"):
                            known = lf["path"]
                for i, arm in enumerate(n["arms"]):
                    if known is not None:
                        vs = [str(v) for v in pat_variants(arm["pat"])]
                        top = [v for v in vs if v.split("::")[-1] in ("Ok", "Err", "Some", "None")]
                        if top and known not in top and not pat_is_catchall(arm["pat"]):
                            continue
                    self._tick()
                    e2 = e1 + (Ev("arm", n, i),)
                    if arm.get("guard") is not None:
                        for (e3, a3, o3, t) in self._cond(arm["guard"], e2, a1):
                            if o3 != "normal":
                                yield (e3, a3, o3)
                            elif t:
                                for r in self._exec(arm["body"], e3, a3):
                                    yield r
                            # guard false: falls to later arms, which are enumerated anyway
                    else:
                        for r in self._exec(arm["body"], e2, a1):
                            yield r
        elif k == "Loop":
            for r in self._loop(n, ev, asm, 0):
                yield r
        elif k in ("Assign", "AssignOp"):
            for (e1, a1, o1) in self._seq([n["r"], n["l"]], ev, asm):
                if o1 != "normal":
                    yield (e1, a1, o1)
                else:
                    yield (e1 + (Ev("assign", n),), a1, "normal")
        elif k == "Ret":
            for (e1, a1, o1) in self._exec(n.get("e"), ev, asm):
                if o1 != "normal":
                    yield (e1, a1, o1)
                else:
                    yield (e1 + (Ev("ret", n),), a1, ("ret", id(n)))
        elif k == "Break":
            for (e1, a1, o1) in self._exec(n.get("e"), ev, asm):
                if o1 != "normal":
                    yield (e1, a1, o1)
                else:
                    if n.get("inl_ret") and n.get("e") is not None:
                        # `return e` of an inlined helper: e is the value of the inlined block on this path
                        e1 = e1 + (Ev("tail", n["e"]),)
                    yield (e1, a1, ("break", n.get("target")))
        elif k == "Continue":
            yield (ev, asm, ("continue", n.get("target")))
        elif k == "Struct":
            subs = [f["e"] for f in n["fields"]]
            if n.get("base") is not None:
                subs.append(n["base"])
            for (e1, a1, o1) in self._seq(subs, ev, asm):
                if o1 != "normal":
                    yield (e1, a1, o1)
                else:
                    yield (e1 + (Ev("struct", n),), a1, "normal")
        elif k == "Binary" and n.get("op") in ("&&", "||"):
            for (e1, a1, o1, t) in self._cond(n, ev, asm):
                yield (e1, a1, o1)
        elif k == "LetExpr":
            for (e1, a1, o1, t) in self._cond(n, ev, asm):
                yield (e1, a1, o1)
        else:
            subs = []
            for key in ("base", "idx", "e", "l", "r", "recv", "init"):
                v = n.get(key)
                if isinstance(v, dict):
                    subs.append(v)
            if "elems" in n:
                subs.extend(n["elems"])
            for r in self._seq(subs, ev, asm):
                yield r

    def _block(self, b, ev, asm):
        items = list(b.get("stmts", []))

        def run(i, ev, asm):
            if i == len(items):
                for r in self._exec(b.get("expr"), ev, asm):
                    yield r
                return
            st = items[i]
            sk = st.get("k")
            if sk == "Let":
                for (e1, a1, o1) in self._exec(st.get("init"), ev, asm):
                    if o1 != "normal":
                        yield (e1, a1, o1)
                        continue
                    e2 = e1 + (Ev("let", st),)
                    if st.get("els") is not None:
                        for r in self._exec(st["els"], e2 + (Ev("cond", st, False),), a1):
                            yield r
                    for r in run(i + 1, e2, a1):
                        yield r
            elif sk in ("Expr", "Semi"):
                for (e1, a1, o1) in self._exec(st["e"], ev, asm):
                    if o1 != "normal":
                        yield (e1, a1, o1)
                    else:
                        for r in run(i + 1, e1, a1):
                            yield r
            else:
                for r in run(i + 1, ev, asm):
                    yield r

        label_id = b.get("id")
        for (e1, a1, o1) in run(0, ev, asm):
            if label_id is not None and isinstance(o1, tuple) and o1[0] == "break" and o1[1] == label_id:
                yield (e1, a1, "normal")
            else:
                yield (e1, a1, o1)

    def _loop(self, n, ev, asm, depth):
        lid = n.get("id")
        for (e1, a1, o1) in self._exec(n["body"], ev + (Ev("loop", n, depth),), asm):
            if isinstance(o1, tuple) and o1[0] == "break" and o1[1] == lid:
                yield (e1, a1, "normal")
            elif o1 == "normal" or (isinstance(o1, tuple) and o1[0] == "continue" and o1[1] == lid):
                if depth < self.unroll:
                    for r in self._loop(n, e1, a1, depth + 1):
                        yield r
                else:
                    self.truncated_loops += 1
            else:
                yield (e1, a1, o1)


def tail_leaves(n):
    """Expressions in tail position of n whose value is n's value."""
    if n is None:
        return []
    k = n.get("k")
    if k == "Block":
        if n.get("expr") is not None:
            return tail_leaves(n["expr"])
        return []
    if k == "If":
        return tail_leaves(n["then"]) + (tail_leaves(n["else"]) if n.get("else") is not None else [])
    if k == "Match":
        out = []
        for a in n["arms"]:
            out.extend(tail_leaves(a["body"]))
        return out
    return [n]


def chosen_leaf(expr, ev):
    """The tail leaf of expr (a match / if / block expression) that was evaluated on the path ev, or None."""
    e = expr
    for _ in range(12):
        e = peel(e)
        k = kind(e)
        if k == "Match":
            hit = None
            for x in ev:
                if x.kind == "arm" and x.node is e:
                    hit = x
            if hit is None:
                return None
            e = e["arms"][hit.extra]["body"]
        elif k == "If":
            hit = None
            for x in ev:
                if x.kind == "cond" and x.node is e["cond"]:
                    hit = x
            if hit is None:
                return None
            if hit.extra:
                e = e["then"]
            elif e.get("else") is not None:
                e = e["else"]
            else:
                return None
        elif k == "Block":
            if e.get("label") is not None or e.get("inlined") or e.get("desugared"):
                # value may come from a `break 'l v`
                tails = [x.node for x in ev if x.kind == "tail"]
                brk = [y for y in walk(e) if y.get("k") == "Break" and y.get("target") == e.get("id") and y.get("e") is not None]
                for y in brk:
                    if any(tn is y["e"] for tn in tails):
                        return y["e"]
            if e.get("expr") is None:
                return None
            e = e["expr"]
        else:
            return e
    return None


def path_value(ev):
    """The expression node whose value the path returns (tail leaf or `return e`), or None."""
    for i in range(len(ev) - 1, -1, -1):
        e = ev[i]
        if e.kind == "ret":
            val = e.node.get("e")
            if val is not None and val.get("k") in ("Match", "If", "Block"):
                leaves = set(id(y) for y in tail_leaves(val))
                for e2 in reversed(ev[:i]):
                    if e2.kind == "tail" and id(e2.node) in leaves:
                        return e2.node
            return val
        if e.kind == "tail":
            return e.node
    return None


def exits(paths):
    """Paths that leave the function normally (fall through or return), i.e. not diverging."""
    return [(ev, o) for (ev, o) in paths if o == "normal" or (isinstance(o, tuple) and o[0] == "ret")]


def calls_on(ev, *callees):
    return [e for e in ev if e.kind == "call" and callee(e.node) in callees]


def index_of(ev, pred):
    for i, e in enumerate(ev):
        if pred(e):
            return i
    return -1


# ------------------------------------------------------------------ call graph

def call_sites(body):
    """(callee, node) for every resolved call in a body, closures included."""
    out = []
    fpos = set()
    for n in walk(body):
        k = n.get("k")
        if k in ("Call", "MethodCall"):
            c = callee(n)
            if isinstance(c, str):
                out.append((c, n))
            if k == "Call":
                fpos.add(id(peel(n["f"])))
        elif k == "Path" and n.get("res") == "def" and n.get("dk") in ("Fn", "AssocFn") and id(n) not in fpos:
            # function used as a value (passed to map / and_then ...)
            out.append((n["path"], n))
    return out


class CallGraph:
    def __init__(self, crates):
        self.fns = {}
        for c in crates:
            for b in c.bodies:
                self.fns.setdefault(b["path"], b)
        self.edges = {}
        self.callers = {}
        for p, b in self.fns.items():
            s = set()
            for (c, n) in call_sites(b["body"]):
                s.add(c)
                self.callers.setdefault(c, []).append((p, n))
            self.edges[p] = s

    def reachable(self, roots):
        seen = set()
        todo = list(roots)
        while todo:
            x = todo.pop()
            if x in seen:
                continue
            seen.add(x)
            for y in self.edges.get(x, ()):
                if y not in seen:
                    todo.append(y)
        return seen

    def callers_of(self, path):
        return self.callers.get(path, [])


def expr_text(n, depth=0):
    """Compact rendering of an expression for messages and evidence."""
    if n is None:
        return ""
    k = n.get("k")
    if depth > 6:
        return "…"
    if k == "Path":
        return n.get("name") or n.get("path", "?").split("::")[-1]
    if k == "Lit":
        return repr(n.get("v"))
    if k == "Field":
        return "%s.%s" % (expr_text(n["base"], depth + 1), n["name"])
    if k == "MethodCall":
        return "%s.%s(%s)" % (expr_text(n["recv"], depth + 1), n["m"],
                              ", ".join(expr_text(a, depth + 1) for a in n["args"]))
    if k == "Call":
        return "%s(%s)" % (expr_text(n["f"], depth + 1), ", ".join(expr_text(a, depth + 1) for a in n["args"]))
    if k == "Binary":
        return "%s %s %s" % (expr_text(n["l"], depth + 1), n["op"], expr_text(n["r"], depth + 1))
    if k == "Unary":
        return "%s%s" % (n["op"], expr_text(n["e"], depth + 1))
    if k in ("AddrOf", "Cast"):
        return expr_text(n["e"], depth + 1)
    if k == "Index":
        return "%s[%s]" % (expr_text(n["base"], depth + 1), expr_text(n["idx"], depth + 1))
    if k == "Closure":
        return "|..| …"
    if k == "Struct":
        return "%s{..}" % n.get("path", "?").split("::")[-1]
    if k == "Tup":
        return "(%s)" % ", ".join(expr_text(a, depth + 1) for a in n["elems"])
    return "<%s>" % k


def walk_parents(n, parent=None, key=None):
    """(node, parent, key-in-parent) for all dict nodes (preorder)."""
    stack = [(n, parent, key)]
    while stack:
        x, p, k = stack.pop()
        if isinstance(x, dict):
            yield (x, p, k)
            for kk, v in reversed(list(x.items())):
                if isinstance(v, (dict, list)):
                    stack.append((v, x, kk))
        elif isinstance(x, list):
            for v in reversed(x):
                if isinstance(v, (dict, list)):
                    stack.append((v, p, k))


def mutating_field_accesses(body, field, bty_contains):
    """Field nodes `<x>.field` (base type mentioning bty_contains) used as an assignment target or
    under `&mut`, or as the receiver of a method taking `&mut self` (conservatively: any method
    call whose receiver is the field itself and whose callee is not known to be read-only)."""
    out = []
    parents = {}
    for (x, p, k) in walk_parents(body):
        parents[id(x)] = (p, k)
        if x.get("k") == "Field" and x["name"] == field and bty_contains in x.get("bty", ""):
            # climb through projections
            cur = x
            while True:
                p, k = parents.get(id(cur), (None, None))
                if p is None:
                    break
                pk = p.get("k")
                if pk in ("Field", "Index") and k == "base":
                    cur = p
                    continue
                if pk == "Unary" and p.get("op") == "*":
                    cur = p
                    continue
                break
            if p is None:
                continue
            pk = p.get("k")
            if pk in ("Assign", "AssignOp") and k == "l":
                out.append((x, "assign", p))
            elif pk == "AddrOf" and p.get("mut"):
                out.append((x, "borrow_mut", p))
            elif pk == "MethodCall" and k == "recv" and p.get("path") not in READONLY_METHODS:
                out.append((x, "method:" + str(p.get("path")), p))
    return out


READONLY_METHODS = {
    "core::option::Option::is_some_and", "core::option::Option::is_some", "core::option::Option::is_none",
    "alloc::vec::Vec::len", "core::clone::Clone::clone", "alloc::vec::Vec::is_empty",
    "core::slice::<impl [T]>::len", "core::slice::<impl [T]>::iter", "core::slice::<impl [T]>::get",
    "core::slice::<impl [T]>::is_empty", "core::slice::<impl [T]>::last", "core::slice::<impl [T]>::first",
    "core::option::Option::as_ref", "core::option::Option::unwrap_or", "core::fmt::Debug::fmt",
    "core::cmp::PartialEq::eq", "core::cmp::PartialEq::ne", "core::slice::<impl [T]>::contains",
    # by-value adapters: called on a field place they can only copy it (moving out of a borrowed field does not compile)
    "core::option::Option::map", "core::option::Option::map_or", "core::option::Option::unwrap_or_default",
}


# ------------------------------------------------------------------ guard context

class Ctx:
    """Structural index of one function: parents and the guard context of a program point."""

    def __init__(self, fn):
        self.fn = fn
        self.parent = {}
        stack = [(fn["body"], None, None, None)]
        while stack:
            x, p, k, i = stack.pop()
            if isinstance(x, dict):
                self.parent[id(x)] = (p, k, i)
                for kk, v in x.items():
                    if isinstance(v, dict):
                        stack.append((v, x, kk, None))
                    elif isinstance(v, list):
                        for j, y in enumerate(v):
                            if isinstance(y, dict):
                                stack.append((y, x, kk, j))

    def ancestors(self, n):
        """(ancestor, key, index) from innermost to outermost; key/index locate the child."""
        cur = n
        while True:
            p, k, i = self.parent.get(id(cur), (None, None, None))
            if p is None:
                return
            yield (p, k, i)
            cur = p

    def guards(self, n):
        """Guard context of n, outermost first:
           ('if', cond, truth)       n is inside the then (True) / else (False) branch
           ('arm', match, idx)       n is inside arm idx of match
           ('guard', cond, True)     n is inside an arm whose guard is cond
           ('not', cond, False)      an earlier statement `if cond { diverge/return }` of an enclosing block
           ('let', stmt)             an earlier `let pat = init` of an enclosing block (for `x?` guards)
           ('try', expr)             an earlier statement `expr?;` of an enclosing block (a checking helper)"""
        out = []
        for (p, k, i) in self.ancestors(n):
            pk = p.get("k")
            if pk == "If":
                if k == "then":
                    out.append(("if", p["cond"], True))
                elif k == "else":
                    out.append(("if", p["cond"], False))
            elif pk is None and "pat" in p and "body" in p and k == "body":
                # match arm object
                pp, kk, ii = self.parent.get(id(p), (None, None, None))
                if pp is not None and pp.get("k") == "Match":
                    if p.get("guard") is not None:
                        out.append(("guard", p["guard"], True))
                    out.append(("arm", pp, ii))
            elif pk == "Block" and k in ("stmts", "expr"):
                upto = i if k == "stmts" else len(p.get("stmts", []))
                for st in reversed(p.get("stmts", [])[:upto]):
                    sk = st.get("k")
                    if sk in ("Expr", "Semi"):
                        e = st["e"]
                        if e.get("k") == "If" and e.get("else") is None and diverges(e["then"]):
                            out.append(("not", e["cond"], False, e))
                        elif e.get("k") == "Match" and e.get("src") == "try":
                            # an earlier `check(..)?;` statement: ('try', the operand of `?`)
                            inner = e["scrut"]
                            if inner.get("k") == "Call" and inner.get("args"):
                                out.append(("try", inner["args"][0]))
                    elif sk == "Let":
                        out.append(("let", st))
            elif pk == "Closure":
                out.append(("closure", p))
        out.reverse()
        return out


def option_outcome(ev, pred):
    """On the path ev, was an Option-valued expression satisfying pred (e.g. `self.lengths.pop()`) found to be Some or
    None?  Recognises `match e { Some/None }`, `if let Some(..) = e`, `let Some(..) = e else { .. }` and `e?`.
    Returns 'some', 'none' or None (the path does not test such an expression)."""
    def has(n):
        return n is not None and any(pred(x) for x in walk(n))
    out = None
    for i, e in enumerate(ev):
        if e.kind == "arm" and has(e.node.get("scrut")):
            vs = pat_variants(e.node["arms"][e.extra]["pat"])
            if any(str(v).endswith("Option::None") for v in vs):
                out = "none"
            elif any(str(v).endswith("Option::Some") for v in vs):
                out = "some"
            elif e.node.get("src") == "try" and any(str(v).endswith("ControlFlow::Continue") for v in vs):
                out = "some"        # `e?` went on
            elif e.node.get("src") == "try" and any(str(v).endswith("ControlFlow::Break") for v in vs):
                out = "none"
            elif pat_is_catchall(e.node["arms"][e.extra]["pat"]):
                # `_ =>` after a `Some(..)` arm is the None case; after a `None` arm the Some case
                earlier = [v for a in e.node["arms"][:e.extra] for v in pat_variants(a["pat"])]
                if any(str(v).endswith("Option::Some") for v in earlier):
                    out = "none"
                elif any(str(v).endswith("Option::None") for v in earlier):
                    out = "some"
        elif e.kind == "cond" and kind(peel(e.node)) == "LetExpr" and has(peel(e.node).get("init")):
            vs = pat_variants(peel(e.node)["pat"])
            some_pat = any(str(v).endswith("Option::Some") for v in vs)
            none_pat = any(str(v).endswith("Option::None") for v in vs)
            if some_pat:
                out = "some" if e.extra is True else "none"
            elif none_pat:
                out = "none" if e.extra is True else "some"
        elif e.kind == "let" and e.node.get("els") is not None and has(e.node.get("init")):
            failed = any(x.kind == "cond" and x.node is e.node and x.extra is False for x in ev[i + 1:i + 2])
            vs = pat_variants(e.node["pat"])
            if any(str(v).endswith("Option::Some") for v in vs):
                out = "none" if failed else "some"
    return out


def diverges(n):
    """Does evaluating block/expression n never complete normally (return/break/continue/panic)?"""
    if n is None:
        return False
    k = n.get("k")
    if n.get("ty") == "!":
        return True
    if k in ("Ret", "Break", "Continue"):
        return True
    if k == "Block":
        for st in n.get("stmts", []):
            if st.get("k") in ("Expr", "Semi") and diverges(st["e"]):
                return True
        return diverges(n.get("expr")) if n.get("expr") is not None else False
    return False
