"""Regular languages over an arbitrary finite alphabet of atoms (integers): regex -> NFA -> DFA, equivalence
with a shortest distinguishing word, emptiness of intersections.  Character classes over Unicode are mapped
to atoms by partitioning 0..0x10FFFF at every class boundary used (see `Atoms`).

Regex AST:  ("eps",) ("sym", frozenset_of_atoms) ("cat", [r..]) ("alt", [r..]) ("star", r) ("plus", r) ("opt", r)
            ("rep", r, n)
"""
from collections import deque

MAXCP = 0x10FFFF


class Atoms:
    """Partition of the code-point space induced by a set of interval classes."""

    def __init__(self, classes):
        cuts = {0, MAXCP + 1}
        for cl in classes:
            for (a, b) in cl:
                cuts.add(a)
                cuts.add(b + 1)
        self.bounds = sorted(cuts)
        self.n = len(self.bounds) - 1

    def atoms_of(self, cl):
        out = set()
        for (a, b) in cl:
            for i in range(self.n):
                lo, hi = self.bounds[i], self.bounds[i + 1] - 1
                if lo >= a and hi <= b:
                    out.add(i)
        return frozenset(out)

    def rep(self, atom):
        """A printable representative of an atom."""
        lo, hi = self.bounds[atom], self.bounds[atom + 1] - 1
        for c in range(lo, min(hi, lo + 200) + 1):
            if 0x21 <= c <= 0x7e:
                return chr(c)
        return chr(lo) if lo < 0xD800 or lo > 0xDFFF else chr(0xE000)

    def describe(self, atom):
        lo, hi = self.bounds[atom], self.bounds[atom + 1] - 1
        return "U+%04X" % lo if lo == hi else "U+%04X..U+%04X" % (lo, hi)


def cls_union(*cls):
    iv = sorted(x for c in cls for x in c)
    out = []
    for (a, b) in iv:
        if out and a <= out[-1][1] + 1:
            out[-1] = (out[-1][0], max(out[-1][1], b))
        else:
            out.append((a, b))
    return out


def cls_complement(cl, lo=0, hi=MAXCP):
    out = []
    cur = lo
    for (a, b) in cls_union(cl):
        if a > cur:
            out.append((cur, a - 1))
        cur = max(cur, b + 1)
    if cur <= hi:
        out.append((cur, hi))
    return out


def cls_intersect(c1, c2):
    out = []
    for (a, b) in c1:
        for (c, d) in c2:
            lo, hi = max(a, c), min(b, d)
            if lo <= hi:
                out.append((lo, hi))
    return cls_union(out)


class NFA:
    def __init__(self):
        self.trans = []   # state -> list of (symset or None for eps, target)
        self.start = None
        self.accept = None

    def new(self):
        self.trans.append([])
        return len(self.trans) - 1

    def add(self, s, sym, t):
        self.trans[s].append((sym, t))


def build(r, nfa=None):
    """Thompson construction; returns (nfa, start, accept)."""
    top = nfa is None
    if nfa is None:
        nfa = NFA()
    k = r[0]
    s, a = nfa.new(), nfa.new()
    if k == "eps":
        nfa.add(s, None, a)
    elif k == "sym":
        nfa.add(s, r[1], a)
    elif k == "cat":
        cur = s
        for x in r[1]:
            _, xs, xa = build(x, nfa)
            nfa.add(cur, None, xs)
            cur = xa
        nfa.add(cur, None, a)
    elif k == "alt":
        for x in r[1]:
            _, xs, xa = build(x, nfa)
            nfa.add(s, None, xs)
            nfa.add(xa, None, a)
    elif k in ("star", "plus", "opt"):
        _, xs, xa = build(r[1], nfa)
        nfa.add(s, None, xs)
        nfa.add(xa, None, a)
        if k in ("star", "opt"):
            nfa.add(s, None, a)
        if k in ("star", "plus"):
            nfa.add(xa, None, xs)
    elif k == "rep":
        cur = s
        for _ in range(r[2]):
            _, xs, xa = build(r[1], nfa)
            nfa.add(cur, None, xs)
            cur = xa
        nfa.add(cur, None, a)
    else:
        raise ValueError("regex node %r" % (k,))
    if top:
        nfa.start, nfa.accept = s, a
    return nfa, s, a


def eclose(nfa, states):
    stack = list(states)
    seen = set(states)
    while stack:
        s = stack.pop()
        for (sym, t) in nfa.trans[s]:
            if sym is None and t not in seen:
                seen.add(t)
                stack.append(t)
    return frozenset(seen)


class DFA:
    def __init__(self, nalpha):
        self.nalpha = nalpha
        self.trans = []     # state -> dict atom -> state   (missing = dead)
        self.accepting = set()
        self.start = 0


def determinize(r, nalpha):
    nfa, _, _ = build(r)
    dfa = DFA(nalpha)
    start = eclose(nfa, [nfa.start])
    index = {start: 0}
    dfa.trans.append({})
    q = deque([start])
    while q:
        S = q.popleft()
        i = index[S]
        if nfa.accept in S:
            dfa.accepting.add(i)
        moves = {}
        for s in S:
            for (sym, t) in nfa.trans[s]:
                if sym is None:
                    continue
                for a in sym:
                    moves.setdefault(a, set()).add(t)
        for a, T in moves.items():
            U = eclose(nfa, T)
            if U not in index:
                index[U] = len(dfa.trans)
                dfa.trans.append({})
                q.append(U)
            dfa.trans[i][a] = index[U]
    return dfa


def difference_word(r1, r2, nalpha):
    """Shortest word in the symmetric difference of L(r1) and L(r2) (list of atoms), or None if equal.
    Returns (word, in_first)."""
    d1, d2 = determinize(r1, nalpha), determinize(r2, nalpha)
    DEAD = -1
    start = (0, 0)
    prev = {start: None}
    q = deque([start])
    while q:
        (a, b) = q.popleft()
        acc1 = a != DEAD and a in d1.accepting
        acc2 = b != DEAD and b in d2.accepting
        if acc1 != acc2:
            word = []
            cur = (a, b)
            while prev[cur] is not None:
                p, sym = prev[cur]
                word.append(sym)
                cur = p
            return list(reversed(word)), acc1
        ta = d1.trans[a] if a != DEAD else {}
        tb = d2.trans[b] if b != DEAD else {}
        for sym in sorted(set(ta) | set(tb)):
            nxt = (ta.get(sym, DEAD), tb.get(sym, DEAD))
            if nxt == (DEAD, DEAD):
                continue
            if nxt not in prev:
                prev[nxt] = ((a, b), sym)
                q.append(nxt)
    return None, None


def first_syms(r):
    """Set of atoms that can start a word of L(r), and nullability."""
    k = r[0]
    if k == "eps":
        return frozenset(), True
    if k == "sym":
        return frozenset(r[1]), False
    if k == "cat":
        out = set()
        for x in r[1]:
            f, n = first_syms(x)
            out |= f
            if not n:
                return frozenset(out), False
        return frozenset(out), True
    if k == "alt":
        out = set()
        nul = False
        for x in r[1]:
            f, n = first_syms(x)
            out |= f
            nul = nul or n
        return frozenset(out), nul
    if k in ("star", "opt"):
        f, _ = first_syms(r[1])
        return f, True
    if k == "plus":
        return first_syms(r[1])
    if k == "rep":
        if r[2] == 0:
            return frozenset(), True
        return first_syms(r[1])
    raise ValueError(k)
