"""Value provenance over typed HIR: the expressions a value can come from.

`Prov(crate).sources(fn, expr, stop)` follows a value backwards through the shapes that only move it - local bindings
(let initialisers and later assignments), blocks / if / match tails, `Option::map`-like adapters, pass-through methods,
calls of functions of the same crate (into their returned values, parameters mapped back to the call's arguments),
parameters of private functions (to the arguments of every call site) - and returns the expressions where the trail
ends: calls it cannot look into, literals, fields of `self`, parameters of public functions.  `stop(fn, node)` lets a
rule end the trail at calls it recognises (a sanitiser, the one function allowed to produce the value).

It is a may-analysis over all paths (every assignment to a local counts, whatever the order), which is the sound
direction for "every value stored here came from X" rules."""
from . import hirq
from .hirq import walk, kind, peel

PASS_THROUGH = {"unwrap_or_default", "unwrap", "expect", "into", "to_string", "as_str", "as_deref", "cloned", "copied",
                "as_ref", "to_owned", "clone", "into_owned", "unwrap_or", "or", "unwrap_or_else", "or_else", "take"}
ADAPTERS = {"map", "and_then", "then", "then_some", "map_or", "map_or_else"}


class Prov:
    def __init__(self, crate, max_depth=5):
        self.c = crate
        self.max_depth = max_depth
        self._cg = None
        self._defs = {}

    def cg(self):
        if self._cg is None:
            self._cg = hirq.CallGraph([self.c])
        return self._cg

    def defs(self, fn):
        """local id -> list of defining expressions: simple lets, assignments; ('pat', source, pattern, id) for
        destructuring bindings; parameters are absent."""
        key = id(fn)
        if key in self._defs:
            return self._defs[key]
        out = {}
        for n in walk(fn["body"]):
            k = n.get("k")
            if k in ("Let", "LetExpr") and n.get("init") is not None:
                p = n["pat"]
                if p.get("k") == "PBind" and not p.get("sub"):
                    out.setdefault(p["id"], []).append(n["init"])
                else:
                    for (bid, _nm) in hirq.pat_bindings(p):
                        out.setdefault(bid, []).append(("pat", n["init"], p, bid))
            elif k == "Match":
                for arm in n["arms"]:
                    for (bid, _nm) in hirq.pat_bindings(arm["pat"]):
                        out.setdefault(bid, []).append(("pat", n["scrut"], arm["pat"], bid))
            elif k == "Assign":
                lid = hirq.local_id(n["l"])
                if lid is not None and kind(peel(n["l"])) == "Path":
                    out.setdefault(lid, []).append(n["r"])
            elif k == "Closure":
                pass
        self._defs[key] = out
        return out

    def param_index(self, fn, lid):
        for i, p in enumerate(fn.get("params", [])):
            if any(b[0] == lid for b in hirq.pat_bindings(p)) or p.get("id") == lid:
                return i
        return None

    def sources(self, fn, expr, stop=None, through=None, depth=0, seen=None):
        """list of (fn, node, note) where the trail of `expr` (evaluated in fn) ends.  `through(fn, node)` may return
        the sub-expressions a composite node passes on (tuple elements, the base of a projection, ...)."""
        seen = seen if seen is not None else set()
        out = []
        self.through = through
        self._go(fn, expr, stop, depth, seen, out)
        return out

    def _go(self, fn, e, stop, depth, seen, out):
        if e is None:
            return
        if isinstance(e, tuple) and e and e[0] == "pat":
            out.append((fn, e[1], "destructured:%s" % pat_slot(e[2], e[3])))
            return
        e = peel(e)
        key = (id(fn), id(e))
        if key in seen:
            return
        seen.add(key)
        if stop is not None and stop(fn, e):
            out.append((fn, e, "stop"))
            return
        k = kind(e)
        if self.through is not None:
            sub = self.through(fn, e)
            if sub is not None:
                for s in sub:
                    self._go(fn, s, stop, depth, seen, out)
                return
        if k in ("Block", "If", "Match"):
            leaves = hirq.tail_leaves(e)
            if leaves == [e]:
                out.append((fn, e, "opaque"))
                return
            for l in leaves:
                self._go(fn, l, stop, depth, seen, out)
            return
        if k == "Path" and e.get("res") == "local":
            ds = self.defs(fn).get(e["id"])
            if ds:
                for d in ds:
                    self._go(fn, d, stop, depth, seen, out)
                return
            pi = self.param_index(fn, e["id"])
            if pi is not None and depth < self.max_depth and not fn.get("exported") and fn.get("dk") in ("Fn", "AssocFn"):
                sites = [(p, n) for (p, n) in self.cg().callers_of(fn["path"]) if kind(n) in ("Call", "MethodCall")]
                if sites:
                    for (p, n) in sites:
                        args = hirq.call_args(n)
                        if kind(n) == "MethodCall":
                            args = [n["recv"]] + list(n["args"])
                        caller = self.cg().fns.get(p)
                        if caller is not None and pi < len(args):
                            self._go(caller, args[pi], stop, depth + 1, seen, out)
                        else:
                            out.append((fn, e, "param"))
                    return
            out.append((fn, e, "param" if pi is not None else "local"))
            return
        if k in ("Call", "MethodCall"):
            cal = hirq.callee(e)
            m = e.get("m") if k == "MethodCall" else None
            if m in ADAPTERS and e["args"]:
                f = peel(e["args"][-1])
                if kind(f) == "Closure":
                    self._go(fn, f["body"], stop, depth, seen, out)
                    if m in ("map_or", "map_or_else"):
                        self._go(fn, e["args"][0], stop, depth, seen, out)
                    return
                if kind(f) == "Path" and f.get("res") == "def":
                    if stop is not None and stop(fn, f):
                        out.append((fn, f, "stop"))
                        return
                    callee_fn = self.c.fn(f["path"])
                    if callee_fn is not None and depth < self.max_depth:
                        self._ret(callee_fn, stop, depth + 1, seen, out)
                        return
                    out.append((fn, f, "fnvalue"))
                    return
                if m in ("then_some",):
                    self._go(fn, f, stop, depth, seen, out)
                    return
            if m in PASS_THROUGH:
                self._go(fn, e["recv"], stop, depth, seen, out)
                for a in e["args"]:
                    a = peel(a)
                    if kind(a) == "Closure":
                        self._go(fn, a["body"], stop, depth, seen, out)
                    else:
                        self._go(fn, a, stop, depth, seen, out)
                return
            if isinstance(cal, str):
                callee_fn = self.c.fn(cal)
                if callee_fn is not None and callee_fn.get("body") is not None and depth < self.max_depth \
                        and not callee_fn.get("exp"):
                    # into the callee's returned values; its parameters map back to this call's arguments
                    self._ret(callee_fn, stop, depth + 1, seen, out, call=(fn, e))
                    return
            out.append((fn, e, "call"))
            return
        out.append((fn, e, k))

    def _ret(self, callee_fn, stop, depth, seen, out, call=None):
        body = callee_fn["body"]
        vals = list(hirq.tail_leaves(body))
        for n in hirq.walk_no_closures(body):
            if n.get("k") == "Ret" and n.get("e") is not None:
                vals.extend(hirq.tail_leaves(n["e"]))
        for v in vals:
            self._go(callee_fn, v, stop, depth, seen, out)


def pat_slot(pat, bid):
    """'0' / '1' for a binding that is a direct element of a tuple pattern, '?' otherwise."""
    p = pat
    while p.get("k") in ("PRef", "PBox", "PDeref"):
        p = p["pat"]
    if p.get("k") == "PTuple":
        for i, q in enumerate(p.get("pats", [])):
            if any(b[0] == bid for b in hirq.pat_bindings(q)):
                return str(i)
    return "?"
