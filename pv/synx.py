"""Runs the pestsyn extractor (quote! templates, macro argument lists) and indexes the result."""
import json
import os
import subprocess
from . import facts


def extract(relpaths, repo=None):
    repo = repo or facts.REPO
    if not os.path.exists(facts.SYNX):
        raise SystemExit("pestsyn not built: run MANIFEST.setup_cmd (bin/setup.sh)")
    paths = [os.path.join(repo, p) for p in relpaths]
    out = subprocess.run([facts.SYNX] + paths, stdout=subprocess.PIPE, stderr=subprocess.PIPE, text=True)
    if out.returncode != 0:
        raise facts.BuildFailed("pestsyn failed: %s" % out.stderr[-500:])
    doc = json.loads(out.stdout)
    res = {}
    for f, rel in zip(doc["files"], relpaths):
        res[rel] = f["macros"]
    return res


def by_pos(macros):
    return {(m["line"], m["col"]): m for m in macros}
