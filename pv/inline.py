"""Helper-inlined view of a crate.

Extracting a block into a private helper (or merging a trivial wrapper into its caller) is the most common
behaviour-preserving edit, and every path / guard / who-may-write rule is sensitive to it.  This module builds a
second, equally valid representation of the same program: every call of a crate-local, non-exported, non-recursive
function whose references are all direct calls is replaced by a labelled block

    'l: { let <param_i> = <arg_i>; ...; <body with `return e` rewritten to `break 'l e`> }

(local ids of the copy are renumbered) and the helper itself is removed from the list of bodies.  `check` consults
this view only when the raw view reports a violation: a violation is reported iff the same rule is also violated in
the inlined view, so an alarm that is an artefact of where a maintainer drew function boundaries disappears, while a
real defect - which no choice of function boundaries removes - stays."""
import copy

from .hirq import walk, kind, peel

MAX_NODES = 600
SMALL_NODES = 160
TINY_NODES = 40
MAX_DEPTH = 3


def _is_fn(b):
    return b.get("dk") in ("Fn", "AssocFn") and b.get("body") is not None


def _walk_no_closure(n):
    """Pre-order over dict nodes, not descending into closures (their `return` is their own)."""
    stack = [n]
    while stack:
        x = stack.pop()
        if isinstance(x, dict):
            yield x
            if x.get("k") == "Closure" and x is not n:
                continue
            for v in x.values():
                if isinstance(v, (dict, list)):
                    stack.append(v)
        elif isinstance(x, list):
            stack.extend(x)


def _renumber(n, off):
    stack = [n]
    while stack:
        x = stack.pop()
        if isinstance(x, dict):
            if isinstance(x.get("id"), int):
                x["id"] += off
            if isinstance(x.get("target"), int):
                x["target"] += off
            for v in x.values():
                if isinstance(v, (dict, list)):
                    stack.append(v)
        elif isinstance(x, list):
            stack.extend(x)


class Inliner:
    def __init__(self, crate, protected=(), multi=()):
        self.crate = crate
        self.protected = set(protected)
        self.multi = set(multi)   # helpers in which the raw view located a violation: inlinable at several sites
        self.by_path = {}
        dup = set()
        for b in crate.bodies:
            if _is_fn(b):
                if b["path"] in self.by_path:
                    dup.add(b["path"])
                self.by_path[b["path"]] = b
        for p in dup:
            self.by_path.pop(p, None)
        self.helpers = self._helpers()
        self.counter = 0
        self.inlined_sites = {}
        self.skipped_sites = {}

    def _helpers(self):
        call_refs = {}
        value_refs = set()
        callers_of = {}
        for b in self.crate.bodies:
            if b.get("body") is None:
                continue
            callee_nodes = set()
            for n in walk(b["body"]):
                k = n.get("k")
                if k == "Call":
                    f = peel(n["f"])
                    if kind(f) == "Path" and f.get("res") == "def":
                        callee_nodes.add(id(f))
                        call_refs.setdefault(f.get("path"), 0)
                        call_refs[f.get("path")] += 1
                        callers_of.setdefault(f.get("path"), set()).add(b["path"])
                elif k == "MethodCall" and n.get("path"):
                    call_refs.setdefault(n["path"], 0)
                    call_refs[n["path"]] += 1
                    callers_of.setdefault(n["path"], set()).add(b["path"])
            for n in walk(b["body"]):
                if n.get("k") == "Path" and n.get("res") == "def" and id(n) not in callee_nodes \
                        and n.get("path") in self.by_path:
                    value_refs.add(n["path"])
        out = {}
        for p, b in self.by_path.items():
            if b.get("exported") or b.get("impl_trait") or b.get("exp"):
                continue
            if "::tests::" in p or "::test::" in p:
                continue
            refs = call_refs.get(p) or 0
            if p in value_refs or refs < 1 or p in self.protected:
                continue
            # one call site: the shape "a block was extracted into a helper" produces; up to four call sites for a
            # small helper: the shape "duplicated blocks were folded into one helper / a repeated condition became
            # a predicate" produces
            if refs > 1:
                small = b.get("nodes", 0) <= SMALL_NODES and refs <= 4
                tiny_predicate = b.get("nodes", 0) <= TINY_NODES and refs <= 4 and b.get("output") == "bool" \
                    and bool(callers_of.get(p, set()) & self.multi)
                if not ((small and p in self.multi) or tiny_predicate):
                    continue
            if "::rules::visible::" in p or "::rules::hidden::" in p:
                continue   # derive-generated rule functions are a call graph of their own, not helpers
            if b.get("nodes", 0) > MAX_NODES:
                continue
            if any(n.get("k") in ("Call", "MethodCall") and (n.get("path") == p or (
                    n.get("k") == "Call" and kind(peel(n["f"])) == "Path" and peel(n["f"]).get("path") == p))
                    for n in walk(b["body"])):
                continue  # directly recursive
            out[p] = b
        return out

    def _callee(self, n):
        if n.get("k") == "MethodCall":
            return n.get("path")
        if n.get("k") == "Call":
            f = peel(n["f"])
            if kind(f) == "Path" and f.get("res") == "def":
                return f.get("path")
        return None

    def _expand(self, call, stack):
        p = self._callee(call)
        g = self.helpers[p]
        self.counter += 1
        off = self.counter * 1000000
        label = off - 1
        params = copy.deepcopy(g["params"])
        body = copy.deepcopy(g["body"])
        for x in params:
            _renumber(x, off)
        _renumber(body, off)
        # return e  ->  break 'label e
        for x in _walk_no_closure(body):
            if x.get("k") == "Ret":
                x["k"] = "Break"
                x["target"] = label
                x["inl_ret"] = True
        args = ([call["recv"]] if call.get("k") == "MethodCall" else []) + list(call["args"])
        stmts = []
        for pat, a in zip(params, args):
            stmts.append({"k": "Let", "pat": pat, "init": a, "els": None, "sp": call.get("sp"), "inl_param": True})
        blk = {"k": "Block", "id": label, "stmts": stmts, "expr": body, "ty": call.get("ty"), "sp": call.get("sp"),
               "inlined": p}
        # nested helpers inside the copy
        self._inline_in(blk, stack + (p,))
        return blk

    def _inline_in(self, root, stack):
        """Replace helper calls inside root (in place).  Children first, so arguments are expanded before the call."""
        def rec(x):
            if isinstance(x, dict):
                for k2, v in list(x.items()):
                    if isinstance(v, dict):
                        nv = rec(v)
                        if nv is not v:
                            x[k2] = nv
                    elif isinstance(v, list):
                        for i, y in enumerate(v):
                            if isinstance(y, dict):
                                ny = rec(y)
                                if ny is not y:
                                    v[i] = ny
                p = self._callee(x) if x.get("k") in ("Call", "MethodCall") else None
                if p in self.helpers:
                    if p in stack or len(stack) >= MAX_DEPTH:
                        self.skipped_sites[p] = self.skipped_sites.get(p, 0) + 1
                        return x
                    self.inlined_sites[p] = self.inlined_sites.get(p, 0) + 1
                    return self._expand(x, stack)
            return x
        r = rec(root)
        return r

    def run(self):
        new_bodies = []
        for b in self.crate.bodies:
            if b.get("body") is None:
                new_bodies.append(b)
                continue
            nb = dict(b)
            nb["body"] = copy.deepcopy(b["body"])
            nb["body"] = self._inline_in(nb["body"], (b["path"],))
            new_bodies.append(nb)
        # a helper disappears from the view only if every one of its call sites was expanded
        gone = set(p for p in self.helpers if self.inlined_sites.get(p) and not self.skipped_sites.get(p))
        return [b for b in new_bodies if b["path"] not in gone], sorted(gone)


# ------------------------------------------------------------------ Result / Option combinators as matches

_COMB = {
    "core::result::Result::map": ("Ok", "Err", "wrap-ok"),
    "core::result::Result::map_err": ("Err", "Ok", "wrap-err"),
    "core::result::Result::and_then": ("Ok", "Err", "value"),
    "core::result::Result::or_else": ("Err", "Ok", "value"),
    "core::result::Result::unwrap_or_else": ("Err", "Ok", "unwrap"),
    "core::option::Option::map": ("Some", "None", "wrap-some"),
    "core::option::Option::and_then": ("Some", "None", "value"),
    "core::option::Option::is_some_and": ("Some", "None", "bool"),
}


def _ctor_path(name):
    return ("core::result::Result::" if name in ("Ok", "Err") else "core::option::Option::") + name


def _ctor_call(name, arg, ty, sp):
    return {"k": "Call", "f": {"k": "Path", "res": "def", "dk": "Ctor(Variant, Fn)", "path": _ctor_path(name),
                               "ctor": "Variant/Fn", "last": name, "sp": sp},
            "args": [arg], "ty": ty, "sp": sp, "desugared": True}


class Desugar:
    """`r.map(|x| B)`  ==  `match r { Ok(x) => Ok(B), Err(e) => Err(e) }` and its siblings (map_err, and_then, or_else,
    unwrap_or_else; Option::map / and_then), for closure literals.  A `return` inside the closure body becomes a
    `break` out of a labelled block, as for inlined helpers."""

    def __init__(self, start):
        self.counter = start
        self.sites = 0

    def fresh(self):
        self.counter += 1
        return self.counter * 1000000 + 7

    def rewrite(self, n):
        p = n.get("path")
        spec = _COMB.get(p)
        if spec is None or len(n.get("args", [])) != 1:
            return n
        clo = peel(n["args"][0])
        if kind(clo) == "Path" and clo.get("res") == "local" and clo["id"] in getattr(self, "closure_lets", {}):
            # `let rewind = |mut s: Box<Self>| { .. }; result.map(rewind).map_err(rewind)`: the closure kept in a local
            clo = copy.deepcopy(self.closure_lets[clo["id"]])
        elif kind(clo) == "Path" and clo.get("res") == "def" and clo.get("dk") in ("Fn", "AssocFn"):
            # `.map(Self::checkpoint_ok)`: a function value is the closure `|v| f(v)`
            vid = self.fresh()
            sp0 = n.get("sp")
            clo = {"k": "Closure", "sp": sp0,
                   "params": [{"k": "PBind", "id": vid, "name": "v", "mode": "BindingMode(No, Not)", "sp": sp0}],
                   "body": {"k": "Call", "f": clo, "sp": sp0, "ty": None,
                            "args": [{"k": "Path", "res": "local", "id": vid, "name": "v", "last": "v", "sp": sp0}]}}
        if kind(clo) != "Closure" or len(clo.get("params", [])) != 1:
            return n
        taken, other, mode = spec
        sp = n.get("sp")
        body = clo["body"]
        if any(x.get("k") == "Ret" for x in _walk_no_closure(body)):
            label = self.fresh()
            for x in _walk_no_closure(body):
                if x.get("k") == "Ret":
                    x["k"] = "Break"
                    x["target"] = label
                    x["inl_ret"] = True
            body = {"k": "Block", "id": label, "stmts": [], "expr": body, "ty": body.get("ty"), "sp": sp,
                    "desugared": "closure"}
        if mode.startswith("wrap"):
            val = _ctor_call(taken, body, n.get("ty"), sp)
        else:
            val = body
        taken_pat = {"k": "PTupleStruct", "res": "def", "dk": "Ctor(Variant, Fn)", "path": _ctor_path(taken),
                     "ctor": "Variant/Fn", "last": taken, "pats": [clo["params"][0]], "sp": sp}
        if other == "None":
            other_pat = {"k": "PPath", "res": "def", "dk": "Ctor(Variant, Const)", "path": _ctor_path("None"),
                         "ctor": "Variant/Const", "last": "None", "sp": sp}
            other_val = {"k": "Path", "res": "def", "dk": "Ctor(Variant, Const)", "path": _ctor_path("None"),
                         "ctor": "Variant/Const", "last": "None", "ty": n.get("ty"), "sp": sp}
            if mode == "bool":
                other_val = {"k": "Lit", "lk": "bool", "v": False, "ty": "bool", "sp": sp}
        else:
            bid = self.fresh()
            other_pat = {"k": "PTupleStruct", "res": "def", "dk": "Ctor(Variant, Fn)", "path": _ctor_path(other),
                         "ctor": "Variant/Fn", "last": other,
                         "pats": [{"k": "PBind", "id": bid, "name": "passed", "mode": "BindingMode(No, Not)", "sp": sp}], "sp": sp}
            ref = {"k": "Path", "res": "local", "id": bid, "name": "passed", "last": "passed", "sp": sp}
            other_val = ref if mode == "unwrap" else _ctor_call(other, ref, n.get("ty"), sp)
        self.sites += 1
        return {"k": "Match", "src": "match", "sty": n["recv"].get("ty", ""), "scrut": n["recv"],
                "arms": [{"pat": taken_pat, "guard": None, "body": val, "sp": sp},
                         {"pat": other_pat, "guard": None, "body": other_val, "sp": sp}],
                "ty": n.get("ty"), "sp": sp, "exp": n.get("exp"), "desugared": p}

    def run(self, root):
        self.closure_lets = {}
        for x in walk(root):
            if x.get("k") == "Let" and x.get("init") is not None and x["pat"].get("k") == "PBind" \
                    and kind(peel(x["init"])) == "Closure":
                self.closure_lets[x["pat"]["id"]] = peel(x["init"])

        def rec(x):
            if isinstance(x, dict):
                for k2, v in list(x.items()):
                    if isinstance(v, dict):
                        nv = rec(v)
                        if nv is not v:
                            x[k2] = nv
                    elif isinstance(v, list):
                        for i, y in enumerate(v):
                            if isinstance(y, dict):
                                ny = rec(y)
                                if ny is not y:
                                    v[i] = ny
                if x.get("k") == "MethodCall":
                    return self.rewrite(x)
            return x
        return rec(root)


def inlined_doc(crate, protected=(), multi=(), desugar=True, desugar_in=None):
    """A fact document (same shape as the driver's) of the helper-inlined view of `crate`."""
    inl = Inliner(crate, protected, multi)
    bodies, gone = inl.run()
    ds = Desugar(inl.counter + 1000)
    for b in (bodies if desugar else []):
        if b.get("body") is not None and not b.get("exp") and "::rules::visible::" not in b["path"] \
                and "::rules::hidden::" not in b["path"] and b["path"] not in protected \
                and b["path"] in (desugar_in if desugar_in is not None else multi):
            if any(x.get("k") == "MethodCall" and x.get("path") in _COMB for x in walk(b["body"])):
                if not any(b is o for o in crate.bodies):
                    b["body"] = ds.run(b["body"])
                else:
                    nb = dict(b)
                    nb["body"] = ds.run(copy.deepcopy(b["body"]))
                    bodies[bodies.index(b)] = nb
    doc = dict(crate.doc)
    doc["bodies"] = bodies
    doc["inlined_helpers"] = gone
    doc["desugared_combinators"] = ds.sites
    return doc
