"""Combinator terms: the normal form shared by C01 / C02 / C14.

A term describes a tree of ParserState combinator calls:
  ("prim", name, args)            state.name(args)
  ("comb", name, args, body)      state.name(args, |state| body)
  ("then", [t..]) / ("else", [t..])   and_then / or_else chains (flattened, left to right)
  ("rec", k, ctx)                 translation of child k of the matched variant (ctx: 'na' | 'at' | 'dyn')
  ("spine", k, ctx)               generator: translations of the elements of the right spine of child k
  ("call", arg)                   call of a rule function / parse_rule(arg)
  ("skip",) ("ok",)
  ("chainrep", base, [("then"|"else", body)..])    `#( .and_then(..) )*` applied to base
  ("if", cond, then, else)
Arguments are constants ("lit", v), ("path", "Atomicity::Atomic"), ("range", a, b) or provenance
("child", k) / ("childlist", k) / ("rulename",) / ("unknown", text).

Two front-ends: `TemplateFront` (pestsyn expression ASTs of quote! templates and macro arguments) and
`HirFront` (typed HIR of the VM or of expanded generated parsers)."""
from . import hirq
from .hirq import kind, peel, callee

PS = "pest::parser_state::ParserState"
COMBINATORS = {"sequence", "optional", "repeat", "lookahead", "atomic", "rule", "stack_push", "restore_on_err"}


# ------------------------------------------------------------------ normal form

def flat(tag, items):
    out = []
    for t in items:
        if t and t[0] == tag:
            out.extend(t[1])
        else:
            out.append(t)
    if len(out) == 1:
        return out[0]
    return (tag, tuple(out))


def norm(t, erase_skip=False, spine_once=True):
    """Canonical form. erase_skip removes implicit-whitespace calls (for comparison with atomic templates)."""
    if not isinstance(t, tuple) or not t:
        return t
    k = t[0]
    if k in ("then", "else"):
        items = [norm(x, erase_skip, spine_once) for x in t[1]]
        if erase_skip and k == "then":
            items = [x for x in items if x != ("skip",)]
            if not items:
                return ("ok",)
        return flat(k, items)
    if k == "comb":
        return ("comb", t[1], tuple(norm_arg(a) for a in t[2]), norm(t[3], erase_skip, spine_once))
    if k == "prim":
        return ("prim", t[1], tuple(norm_arg(a) for a in t[2]))
    if k == "chainrep":
        base = norm(t[1], erase_skip, spine_once)
        cur = base
        for (tag, body) in t[2]:
            cur = flat(tag, [cur, norm(body, erase_skip, spine_once)])
        return norm(cur, erase_skip, spine_once)
    if k == "spine":
        return ("rec", t[1], t[2]) if spine_once else t
    if k == "if":
        return ("if", t[1], norm(t[2], erase_skip, spine_once), norm(t[3], erase_skip, spine_once))
    return t


def norm_arg(a):
    if isinstance(a, tuple) and a and a[0] == "range":
        return ("range", norm_arg(a[1]), norm_arg(a[2]))
    if isinstance(a, tuple) and a and a[0] == "childlist":
        return ("child", a[1])
    return a


def ctx_erase(t):
    """Forget the context tag of recursive translations (for comparing shapes)."""
    if not isinstance(t, tuple) or not t:
        return t
    if t[0] == "rec":
        return ("rec", t[1])
    if t[0] == "spine":
        return ("rec", t[1])
    return tuple(ctx_erase(x) if isinstance(x, tuple) else x for x in t)


def law_l3(t):
    """L3: in atomic context sequence(optional(E.then(repeat(sequence(E))))) == repeat(E) for fail-clean E.
    Rewrites the long form into the short one wherever it occurs."""
    if not isinstance(t, tuple) or not t:
        return t
    t = tuple(law_l3(x) if isinstance(x, tuple) else x for x in t)
    if t[0] == "comb" and t[1] == "sequence" and not t[2]:
        o = t[3]
        if o[0] == "comb" and o[1] == "optional":
            th = o[3]
            if th[0] == "then" and len(th[1]) == 2:
                e, rp = th[1]
                if rp[0] == "comb" and rp[1] == "repeat" and rp[3][0] == "comb" and rp[3][1] == "sequence" and rp[3][3] == e:
                    return ("comb", "repeat", (), e)
    return t


def show(t, depth=0):
    if not isinstance(t, tuple) or not t:
        return repr(t)
    k = t[0]
    if k == "prim":
        return "%s(%s)" % (t[1], ", ".join(show_arg(a) for a in t[2]))
    if k == "comb":
        return "%s(%s|s| %s)" % (t[1], "".join(show_arg(a) + ", " for a in t[2]), show(t[3], depth + 1))
    if k == "then":
        return " ~> ".join(show(x, depth + 1) for x in t[1])
    if k == "else":
        return "(" + " / ".join(show(x, depth + 1) for x in t[1]) + ")"
    if k == "rec":
        return "T[child%s%s]" % (t[1], ":" + t[2] if len(t) > 2 else "")
    if k == "spine":
        return "T*[spine child%s:%s]" % (t[1], t[2])
    if k == "call":
        return "rule(%s)" % show_arg(t[1])
    if k == "skip":
        return "skip"
    if k == "ok":
        return "Ok"
    if k == "if":
        return "if %s {%s} else {%s}" % (t[1], show(t[2]), show(t[3]))
    if k == "chainrep":
        return "%s #(%s)*" % (show(t[1]), " ".join("%s %s" % (a, show(b)) for a, b in t[2]))
    return repr(t)


def show_arg(a):
    if isinstance(a, tuple):
        if a[0] == "lit":
            return repr(a[1])
        if a[0] == "range":
            return "%s..%s" % (show_arg(a[1]), show_arg(a[2]))
        if a[0] == "path":
            return a[1]
        if a[0] == "child":
            return "<child%s>" % a[1]
        return "<%s>" % ",".join(str(x) for x in a)
    return repr(a)


def short_path(p):
    parts = [x for x in p.split("::") if x]
    return "::".join(parts[-2:])


# ------------------------------------------------------------------ template front-end (pestsyn ASTs)

class TemplateFront:
    """env: interpolation name -> term or argument descriptor (resolved by the caller from the HIR of
    the enclosing arm)."""

    def __init__(self, env):
        self.env = env
        self.problems = []

    def interp(self, name, as_term):
        v = self.env.get(name)
        if v is None:
            self.problems.append("unresolved interpolation #%s" % name)
            return ("unknown", "#" + name)
        return v

    def term(self, n):
        k = n.get("k")
        if k == "Block":
            stmts = n.get("stmts", [])
            if not stmts:
                return self.term(n["expr"]) if n.get("expr") else ("ok",)
            # `let strings = [#(#strings),*]; state.skip_until(&strings)`
            local = {}
            for st in stmts:
                if st.get("k") == "Let":
                    local[st["name"]] = st["init"]
                else:
                    self.problems.append("statement in template block")
            sub = TemplateFront(dict(self.env))
            sub.locals = local
            sub.problems = self.problems
            return sub.term_with_locals(n["expr"], local)
        if k == "Path":
            p = n["path"]
            if p.startswith("__i_"):
                return self.interp(p[4:], True)
            self.problems.append("bare path %s as term" % p)
            return ("unknown", p)
        if k == "Call":
            f = n["f"]
            if f.get("k") == "Path":
                p = f["path"]
                if p.endswith("hidden::skip"):
                    return ("skip",)
                if p == "Ok":
                    return ("ok",)
                if p.startswith("self::__i_") or p.startswith("super::visible::__i_"):
                    a = self.interp(p.split("__i_")[-1], False)
                    return ("call", a)
                if p.startswith("super::visible::") or p.startswith("self::"):
                    return ("call", ("lit", p.split("::")[-1]))
            self.problems.append("call %s" % (f.get("path") if f.get("k") == "Path" else f.get("k")))
            return ("unknown", "call")
        if k == "MethodCall":
            return self.chain(n)
        if k == "If":
            return ("if", self.cond(n["cond"]), self.term(n["then"]), self.term(n["else"]) if n.get("else") else ("ok",))
        self.problems.append("template node %s" % k)
        return ("unknown", str(k))

    def term_with_locals(self, n, local):
        self.local_arrays = local
        return self.term(n)

    def cond(self, c):
        if c.get("k") == "Binary":
            return "%s %s %s" % (self.cond(c["l"]), c["op"], self.cond(c["r"]))
        if c.get("k") == "MethodCall":
            return "%s.%s()" % (self.cond(c["recv"]), c["m"])
        if c.get("k") == "Path":
            return short_path(c["path"])
        return "?"

    def chain(self, n):
        # flatten the method chain
        links = []
        cur = n
        while cur.get("k") == "MethodCall":
            links.append((cur["m"], cur["args"]))
            cur = cur["recv"]
        links.reverse()
        base = cur
        i = 0
        if base.get("k") == "Path" and base["path"] == "state":
            # first link is a ParserState method
            m, args = links[0]
            t = self.state_call(m, args)
            i = 1
        else:
            t = self.term(base)
        while i < len(links):
            m, args = links[i]
            if m == "__rep_begin":
                j = i + 1
                reps = []
                while j < len(links) and links[j][0] != "__rep_end":
                    mm, aa = links[j]
                    if mm in ("and_then", "or_else") and aa and aa[0].get("k") == "Closure":
                        reps.append(("then" if mm == "and_then" else "else", self.term(aa[0]["body"])))
                    else:
                        self.problems.append("repetition link %s" % mm)
                    j += 1
                t = ("chainrep", t, tuple(reps))
                i = j + 1
                continue
            if m in ("and_then", "or_else") and args and args[0].get("k") == "Closure":
                t = ("then" if m == "and_then" else "else", (t, self.term(args[0]["body"])))
            else:
                self.problems.append("chain link .%s on a result" % m)
            i += 1
        return t

    def state_call(self, m, args):
        if args and args[-1].get("k") == "Closure":
            return ("comb", m, tuple(self.arg(a) for a in args[:-1]), self.term(args[-1]["body"]))
        return ("prim", m, tuple(self.arg(a) for a in args))

    def arg(self, a):
        k = a.get("k")
        if k == "Lit":
            return ("lit", a.get("v"))
        if k == "AddrOf":
            return self.arg(a["e"])
        if k == "Range":
            return ("range", self.arg(a["start"]), self.arg(a["end"]))
        if k == "Path":
            p = a["path"]
            if p.startswith("__i_"):
                return self.interp(p[4:], False)
            if p.startswith("Rule::__i_"):
                return ("rulename",)
            if p.startswith("Rule::"):
                return ("lit", p.split("::")[-1])
            la = getattr(self, "local_arrays", {})
            if p in la:
                return self.arg(la[p])
            return ("path", short_path(p))
        if k == "Array":
            if len(a["elems"]) == 1 and a["elems"][0].get("k") == "Macro" and a["elems"][0]["name"] == "__rep":
                inner = a["elems"][0]["tokens"].strip()
                if inner.startswith("__i_"):
                    v = self.interp(inner[4:], False)
                    if isinstance(v, tuple) and v[0] == "child":
                        return ("childlist", v[1])
                    return v
            return ("unknown", "array")
        if k == "Macro":
            return ("unknown", "macro " + a.get("name", ""))
        return ("unknown", str(k))


# ------------------------------------------------------------------ HIR front-end

PURE_CONV = {
    "alloc::borrow::ToOwned::to_owned", "alloc::string::String::as_str", "core::clone::Clone::clone",
    "core::option::Option::unwrap", "core::option::Option::expect", "core::str::<impl str>::chars",
    "core::iter::traits::iterator::Iterator::next", "core::ops::deref::Deref::deref", "alloc::string::ToString::to_string",
    "core::convert::AsRef::as_ref", "core::iter::traits::iterator::Iterator::map", "core::slice::<impl [T]>::iter",
    "core::iter::traits::iterator::Iterator::collect", "core::convert::Into::into", "core::convert::From::from",
}


class HirFront:
    """Translates HIR expressions built from ParserState combinators.
    child_of: binding name -> child index of the matched variant (for the VM's parse_expr arms).
    rec_callees: def-paths whose call means 'translate this sub-expression' (Vm::parse_expr).
    skip_callees / rule_callees: def-paths (or predicates) for implicit skip and rule calls."""

    def __init__(self, fn=None, child_of=None, rec_callees=(), skip_callees=(), rule_callees=(), rule_fn_prefix=None,
                 crate=None, depth=0):
        self.crate = crate       # when given, calls of crate-local helper functions are translated through their body
        self.depth = depth
        self.child_of = child_of or {}
        self.rec = set(rec_callees)
        self.skipc = set(skip_callees)
        self.rulec = set(rule_callees)
        self.rule_fn_prefix = rule_fn_prefix
        self.lets = hirq.lets(fn["body"]) if fn else {}
        self.problems = []

    def term(self, n):
        n = self.strip(n)
        k = kind(n)
        if k == "MethodCall":
            p = n.get("path", "")
            if p.startswith(PS + "::"):
                m = p.split("::")[-1]
                args = list(n["args"])
                if args:
                    last = peel(args[-1])
                    if kind(last) == "Path" and last.get("res") == "local" and last["id"] in self.lets \
                            and kind(self.lets[last["id"]][0]) == "Closure":
                        args[-1] = self.lets[last["id"]][0]  # closure bound to a local first
                if args and kind(args[-1]) == "Closure":
                    return ("comb", m, tuple(self.arg(a) for a in args[:-1]), self.term(args[-1]["body"]))
                return ("prim", m, tuple(self.arg(a) for a in args))
            if p in ("core::result::Result::and_then", "core::result::Result::or_else"):
                a = n["args"][0]
                tag = "then" if p.endswith("and_then") else "else"
                if kind(a) == "Closure":
                    return (tag, (self.term(n["recv"]), self.term(a["body"])))
                a2 = peel(a)
                if kind(a2) == "Path" and a2.get("res") == "def":
                    return (tag, (self.term(n["recv"]), self.fn_value(a2["path"])))
            if p in self.rec:
                return ("rec", self.child_index(n["args"][0]), "dyn")
            if p in self.skipc:
                return ("skip",)
            if p in self.rulec:
                return ("call", self.arg(n["args"][0]))
            h = self.helper_term(p, [n["recv"]] + list(n["args"]))
            if h is not None:
                return h
            self.problems.append("method %s" % p)
            return ("unknown", p)
        if k == "Call":
            c = callee(n)
            if c == "core::result::Result::Ok":
                return ("ok",)
            if isinstance(c, str):
                if c in self.skipc or c.endswith("::hidden::skip"):
                    return ("skip",)
                if self.rule_fn_prefix and self.rule_fn_prefix in c:
                    return ("call", ("lit", c.split("::")[-1]))
                if c in self.rec:
                    return ("rec", self.child_index(n["args"][0]), "dyn")
                if c in self.rulec:
                    return ("call", self.arg(n["args"][0]))
                h = self.helper_term(c, list(n["args"]))
                if h is not None:
                    return h
            self.problems.append("call %s" % (c,))
            return ("unknown", str(c))
        if k == "If":
            return ("if", self.cond(n["cond"]), self.term(n["then"]), self.term(n["else"]) if n.get("else") else ("ok",))
        if k == "Ret" or (k == "Break" and n.get("inl_ret") and n.get("e") is not None):
            return self.term(n["e"])   # `return e` (of an inlined helper as well): the value of the arm
        if k == "Match":
            # `match e { Ok(s) => Ok(s), Err(s) => f(s) }` is `e.or_else(|s| f(s))`; `Ok(s) => g(s), Err(s) => Err(s)` is
            # `e.and_then(|s| g(s))`; the desugared `e?` is the operand followed by the rest (handled in Block)
            arms = n.get("arms", [])
            if len(arms) == 2 and not any(a.get("guard") for a in arms):
                byv = {}
                for a in arms:
                    vs = hirq.pat_variants(a["pat"])
                    if len(vs) == 1 and vs[0] in ("core::result::Result::Ok", "core::result::Result::Err"):
                        byv[vs[0].split("::")[-1]] = a
                if set(byv) == {"Ok", "Err"}:
                    def passes(a, ctor):
                        b = self.strip(peel(a["body"]))
                        ids = [x[0] for x in hirq.pat_bindings(a["pat"])]
                        return kind(b) == "Call" and callee(b) == "core::result::Result::" + ctor and len(b["args"]) == 1 \
                            and hirq.local_id(b["args"][0]) in ids
                    if passes(byv["Ok"], "Ok") and not passes(byv["Err"], "Err"):
                        return ("else", (self.term(n["scrut"]), self.term(byv["Err"]["body"])))
                    if passes(byv["Err"], "Err") and not passes(byv["Ok"], "Ok"):
                        return ("then", (self.term(n["scrut"]), self.term(byv["Ok"]["body"])))
        if k == "Block":
            stmts = [s for s in n.get("stmts", []) if s.get("k") != "Item"]
            if not stmts and n.get("expr") is not None:
                return self.term(n["expr"])
            # `let state = f(state)?; let state = g(state)?; h(state)` is `f(state).and_then(|state| g(state)).and_then(..)`
            def try_operand(e):
                e = peel(e) if e is not None else None
                if kind(e) == "Match" and e.get("src") == "try" and kind(e.get("scrut")) == "Call" and e["scrut"]["args"]:
                    return e["scrut"]["args"][0]
                return None
            if n.get("expr") is not None and stmts and all(s.get("k") == "Let" for s in stmts) and any(
                    try_operand(s.get("init")) is not None for s in stmts):
                seq = []
                for s in stmts:
                    op = try_operand(s.get("init"))
                    if op is not None:
                        seq.append(self.term(op))
                    elif s["pat"].get("k") == "PBind" and s.get("init") is not None:
                        self.lets[s["pat"]["id"]] = (s["init"], s)
                out = self.term(n["expr"])
                for t_ in reversed(seq):
                    out = ("then", (t_, out))
                return out
            # `let strings = [..]; state.skip_until(&strings)` in generated code
            if all(s.get("k") == "Let" for s in stmts) and n.get("expr") is not None:
                for s in stmts:
                    if s["pat"].get("k") == "PBind" and s.get("init") is not None:
                        self.lets[s["pat"]["id"]] = (s["init"], s)
                return self.term(n["expr"])
            if len(stmts) == 1 and stmts[0].get("k") in ("Semi", "Expr") and n.get("expr") is None:
                return self.term(stmts[0]["e"])
        if k == "Path" and n.get("res") == "local":
            self.problems.append("bare local %s" % n.get("name"))
        self.problems.append("node %s" % k)
        return ("unknown", str(k))

    def helper_term(self, path, args):
        """A call of a crate-local helper (e.g. a block of an arm moved into `fn parse_one_or_more(&self, expr, state)`):
        its body translated with the helper's sub-expression parameters bound to the caller's children."""
        if self.crate is None or self.depth >= 3 or not isinstance(path, str):
            return None
        h = self.crate.fn(path)
        if h is None or h.get("body") is None or any(
                kind(x) in ("Call", "MethodCall") and callee(x) == path for x in hirq.walk(h["body"])):
            return None
        child_of = {}
        for prm, a in zip(h["params"], args):
            if prm.get("k") != "PBind":
                continue
            ci = self.child_index(a)
            if not (isinstance(ci, tuple) and ci and ci[0] in ("?", "field")):
                child_of[prm["name"]] = ci
        sub = HirFront(h, child_of, self.rec, self.skipc, self.rulec, self.rule_fn_prefix, crate=self.crate,
                       depth=self.depth + 1)
        t = sub.term(h["body"])
        self.problems.extend("%s: %s" % (h["name"], p) for p in sub.problems)
        return t

    def fn_value(self, path):
        if path in self.skipc or path.endswith("::hidden::skip"):
            return ("skip",)
        if self.rule_fn_prefix and self.rule_fn_prefix in path:
            return ("call", ("lit", path.split("::")[-1]))
        return ("unknown", path)

    def strip(self, n):
        while isinstance(n, dict):
            k = n.get("k")
            if k == "Block" and not n.get("stmts") and n.get("expr") is not None:
                n = n["expr"]
            elif k == "Ret" and n.get("e") is not None:
                n = n["e"]
            elif k == "Break" and n.get("inl_ret") and n.get("e") is not None:
                n = n["e"]
            else:
                break
        return n

    def cond(self, c):
        c = peel(c)
        k = kind(c)
        if k == "Binary":
            return "%s %s %s" % (self.cond(c["l"]), c["op"], self.cond(c["r"]))
        if k == "MethodCall":
            return "%s.%s()" % (self.cond(c["recv"]), c["m"])
        if k == "Path":
            if c.get("res") == "local":
                return c["name"]
            return short_path(c.get("path", "?"))
        return "?"

    def child_index(self, a):
        a = peel(a)
        if kind(a) == "Path" and a.get("res") == "local":
            if a["name"] in self.child_of:
                return self.child_of[a["name"]]
        if kind(a) == "Field":
            return ("field", a["name"])
        return ("?", hirq.expr_text(a))

    def arg(self, a, depth=0):
        a = peel(a)
        k = kind(a)
        if depth > 8:
            return ("unknown", "deep")
        if k == "Lit":
            return ("lit", a.get("v"))
        if k == "Struct" and a.get("path", "").endswith("ops::range::Range"):
            f = {x["name"]: x["e"] for x in a["fields"]}
            return ("range", self.arg(f["start"], depth + 1), self.arg(f["end"], depth + 1))
        if k == "Path":
            if a.get("res") == "def":
                return ("path", short_path(a["path"]))
            if a.get("res") == "local":
                if a["name"] in self.child_of and a["id"] not in self.lets:
                    return ("child", self.child_of[a["name"]])
                if a["id"] in self.lets:
                    return self.arg(self.lets[a["id"]][0], depth + 1)
                if a["name"] in self.child_of:
                    return ("child", self.child_of[a["name"]])
                return ("local", a["name"])
        if k == "MethodCall" and a.get("path") in PURE_CONV:
            if a["m"] == "map":
                # iter().map(..).collect(): provenance of the receiver
                return self.arg(a["recv"], depth + 1)
            return self.arg(a["recv"], depth + 1)
        if k == "Call" and callee(a) in PURE_CONV:
            return self.arg(a["args"][0], depth + 1)
        if k == "Field":
            return ("field", a["name"])
        if k == "Array":
            vals = a.get("lits")
            if vals is None:
                vals = [hirq.lit_value(e) for e in a.get("elems", [])]
            return ("lit", tuple(vals))
        return ("unknown", hirq.expr_text(a))
