"""Fact production: runs the pestfacts rustc driver over the repository (per feature
configuration) and caches the JSON by a hash of the repository's current sources."""
import glob
import hashlib
import json
import os
import shutil
import subprocess
import sys
import tempfile
import time

VERIF = os.path.dirname(os.path.dirname(os.path.abspath(__file__)))
REPO = os.environ.get("PEST_REPO", "/repo")
DRIVER = os.path.join(VERIF, "pestfacts", "target", "debug", "pestfacts")
SYNX = os.path.join(VERIF, "pestsyn", "target", "debug", "pestsyn")
CACHE = os.environ.get("PEST_CACHE") or os.path.join(VERIF, ".cache")

# name -> cargo arguments.  Facts are per configuration because cfg changes the program.
CONFIGS = {
    "default": ["--workspace"],
    # grammar-extras everywhere it exists; pest_grammars is included so that its derive expansions are the ones a
    # build with `pest_derive/grammar-extras` unified in would get
    "extras": ["-p", "pest_meta", "-p", "pest_vm", "-p", "pest_generator", "-p", "pest_derive", "-p", "pest_grammars",
               "--features", "pest_meta/grammar-extras,pest_vm/grammar-extras,pest_generator/grammar-extras,"
                             "pest_derive/grammar-extras"],
    "nomemchr": ["-p", "pest", "--no-default-features"],
    "pestall": ["-p", "pest", "--features", "pretty-print,const_prec_climber,miette-error"],
}


def _sysroot():
    return subprocess.check_output(["rustc", "+nightly", "--print", "sysroot"], text=True).strip()


_hash_cache = {}


def repo_files(repo=None):
    repo = repo or REPO
    if os.path.isdir(os.path.join(repo, ".git")) or os.path.isfile(os.path.join(repo, ".git")):
        out = subprocess.check_output(
            ["git", "-C", repo, "ls-files", "-co", "--exclude-standard"], text=True).splitlines()
    else:
        out = []
        for d, ds, fs in os.walk(repo):
            ds[:] = [x for x in ds if x not in ("target", ".git")]
            for f in fs:
                out.append(os.path.relpath(os.path.join(d, f), repo))
    files = []
    for f in out:
        if f.startswith("target/") or "/target/" in f:
            continue
        if f.endswith((".rs", ".pest", ".toml", ".lock")):
            files.append(f)
    return sorted(files)


def repo_hash(repo=None):
    repo = repo or REPO
    if repo in _hash_cache:
        return _hash_cache[repo]
    h = hashlib.sha256()
    h.update(repr(sorted(CONFIGS.items())).encode())
    for tool in (DRIVER, SYNX):
        if os.path.exists(tool):
            with open(tool, "rb") as fh:
                h.update(hashlib.sha256(fh.read()).digest())
    for f in repo_files(repo):
        p = os.path.join(repo, f)
        if not os.path.isfile(p):
            continue
        h.update(f.encode())
        with open(p, "rb") as fh:
            h.update(hashlib.sha256(fh.read()).digest())
    _hash_cache[repo] = h.hexdigest()[:24]
    return _hash_cache[repo]


def _prune():
    if not os.path.isdir(CACHE):
        return
    ds = sorted((os.path.getmtime(os.path.join(CACHE, d)), d) for d in os.listdir(CACHE))
    for _, d in ds[:-6]:
        shutil.rmtree(os.path.join(CACHE, d), ignore_errors=True)


def build_facts(config, repo=None, extra_env=None):
    """Returns the directory holding the fact files of `config` for the current tree."""
    repo = repo or REPO
    key = repo_hash(repo)
    out = os.path.join(CACHE, key, config)
    if os.path.isfile(os.path.join(out, "DONE")):
        os.utime(os.path.join(CACHE, key))
        return out
    if not os.path.exists(DRIVER):
        raise SystemExit("pestfacts driver not built: run MANIFEST.setup_cmd (bin/setup.sh)")
    tmp_out = out + ".tmp%d" % os.getpid()
    shutil.rmtree(tmp_out, ignore_errors=True)
    os.makedirs(tmp_out)
    target = tempfile.mkdtemp(prefix="pestfacts-target-")
    env = dict(os.environ)
    env.update({
        "LD_LIBRARY_PATH": _sysroot() + "/lib",
        "RUSTFLAGS": "-Awarnings",
        "RUSTC_WORKSPACE_WRAPPER": DRIVER,
        "PESTFACTS_OUT": tmp_out,
        "CARGO_TARGET_DIR": target,
        "CARGO_NET_OFFLINE": "true",
    })
    env.pop("RUSTC_WRAPPER", None)
    if extra_env:
        env.update(extra_env)
    t0 = time.time()
    try:
        cmd = ["cargo", "+nightly", "check", "--offline", "-j", "16"] + CONFIGS[config]
        p = subprocess.run(cmd, cwd=repo, env=env, stdout=subprocess.PIPE, stderr=subprocess.STDOUT, text=True)
        if p.returncode != 0:
            sys.stderr.write(p.stdout[-6000:])
            raise BuildFailed("cargo check failed for configuration %s" % config)
    finally:
        shutil.rmtree(target, ignore_errors=True)
    if not glob.glob(os.path.join(tmp_out, "*.json")):
        raise BuildFailed("driver produced no facts for configuration %s (wrapper skipped?)" % config)
    with open(os.path.join(tmp_out, "DONE"), "w") as fh:
        fh.write("%.1f\n" % (time.time() - t0))
    shutil.rmtree(out, ignore_errors=True)
    os.rename(tmp_out, out)
    _prune()
    return out


class BuildFailed(Exception):
    pass


class Crate:
    def __init__(self, doc, path):
        self.doc = doc
        self.file = path
        self.name = doc["crate"]
        self.features = doc["features"]
        self.bodies = doc["bodies"]
        self.adts = doc["adts"]
        self.items = doc["items"]
        self._by_path = {}
        for b in self.bodies:
            self._by_path.setdefault(b["path"], []).append(b)

    def inlined(self):
        """A helper-inlined view of this crate (pv/inline.py), built on first use.  VIEW selects the variant:
        "inlined" (single-call-site helpers only), "inlined-d" (+ Result/Option combinators written out as matches),
        "inlined-m" (+ small helpers with several call sites in which the raw view located a violation),
        "inlined+" (both)."""
        multi = VIEW in ("inlined-m", "inlined+")
        desugar = VIEW in ("inlined-d", "inlined+")
        attr = "_inl_%d%d" % (multi, desugar)
        if getattr(self, attr, None) is None:
            from . import inline
            v = Crate(inline.inlined_doc(self, protected=LOOKED_UP - UNPROTECT, multi=(UNPROTECT if multi else ()),
                                         desugar=desugar, desugar_in=UNPROTECT), self.file)
            for a in ("_inl_00", "_inl_01", "_inl_10", "_inl_11"):
                setattr(v, a, v)
            setattr(self, attr, v)
        return getattr(self, attr)

    def fn(self, path):
        """The unique body with this def-path (None if absent)."""
        v = self._by_path.get(path)
        if not v:
            return self._relocated(path)
        return v[0]

    def _relocated(self, path):
        """A function the rules know by path that was moved into (or out of) a nested module of the same file: the
        unique function of that name whose module path extends, or is extended by, the expected parent. The actual
        path is registered as an alias so that resolved callees compare equal to the expected path."""
        if not isinstance(path, str) or "::" not in path or path.startswith("<"):
            return None
        parent, name = path.rsplit("::", 1)
        cands = []
        for b in self.bodies:
            if b.get("name") != name or b.get("dk") not in ("Fn", "AssocFn") or b["path"].startswith("<"):
                continue
            bp = b["path"].rsplit("::", 1)[0]
            if bp != parent and (bp.startswith(parent + "::") or parent.startswith(bp + "::")):
                cands.append(b)
        if len(cands) != 1:
            return None
        from . import hirq
        actual = cands[0]["path"]
        hirq.ALIAS[actual] = path
        # the body itself (and items nested in it) is known under the expected path from now on
        for b in self.bodies:
            if b["path"] == actual or b["path"].startswith(actual + "::"):
                old = b["path"]
                b["actual_path"] = old
                b["path"] = path + old[len(actual):]
                hirq.ALIAS[old] = b["path"]
                self._by_path.setdefault(b["path"], []).append(b)
        return cands[0]

    def fns(self, pred):
        return [b for b in self.bodies if pred(b)]

    def adt(self, path):
        for a in self.adts:
            if a["path"] == path:
                return a
        return None


class Facts:
    """All crates of one configuration."""

    def __init__(self, config, repo=None):
        self.config = config
        self.dir = build_facts(config, repo)
        self.crates = {}
        seen = {}
        for f in sorted(glob.glob(os.path.join(self.dir, "*.json"))):
            with open(f) as fh:
                doc = json.load(fh)
            ident = (doc["crate"], tuple(doc["features"]), tuple(doc["crate_types"]))
            if ident in seen:
                continue
            seen[ident] = f
            self.crates.setdefault(doc["crate"], []).append(Crate(doc, f))

    def crate(self, name, kind="Rlib", want_feature=None):
        cs = self.crates.get(name, [])
        cs = [c for c in cs if kind in c.doc["crate_types"]] or cs
        if want_feature is not None:
            cs = [c for c in cs if want_feature in c.features] or cs
        if not cs:
            return None
        # prefer the richest feature set (workspace member build, not the build-dependency one)
        c = sorted(cs, key=lambda c: -len(c.features))[0]
        return c.inlined() if VIEW != "raw" else c


_facts = {}
UNPROTECT = set()   # functions in which the raw view located a violation: inlinable even if looked up by name
LOOKED_UP = set()   # functions holding an obligation the raw view found satisfied: anchors of the rules, not inlined away
VIEW = "raw"   # "raw" | "inlined": which representation Facts.crate() hands to the rules (see pv/inline.py)


def facts(config, repo=None):
    k = (config, repo or REPO)
    if k not in _facts:
        _facts[k] = Facts(config, repo)
    return _facts[k]


def build_harness_facts(name, crates, repo=None, subst=None):
    """Compiles the harness crate /verif/harness/<name> (templates *.in with @REPO@ substituted) under the
    driver (RUSTC_WRAPPER, because path dependencies are not workspace members) and returns the fact dir."""
    repo = repo or REPO
    key = repo_hash(repo)
    src = os.path.join(VERIF, "harness", name)
    hh = hashlib.sha256()
    for root, ds, fs in sorted(os.walk(src)):
        for f in sorted(fs):
            hh.update(f.encode())
            hh.update(open(os.path.join(root, f), "rb").read())
    out = os.path.join(CACHE, key, "harness-%s-%s" % (name, hh.hexdigest()[:10]))
    if os.path.isfile(os.path.join(out, "DONE")):
        return out
    work = tempfile.mkdtemp(prefix="pestfacts-harness-")
    tmp_out = out + ".tmp%d" % os.getpid()
    shutil.rmtree(tmp_out, ignore_errors=True)
    os.makedirs(tmp_out)
    try:
        for root, ds, fs in os.walk(src):
            for f in fs:
                rel = os.path.relpath(os.path.join(root, f), src)
                dst = os.path.join(work, rel[:-3] if rel.endswith(".in") else rel)
                os.makedirs(os.path.dirname(dst), exist_ok=True)
                text = open(os.path.join(root, f)).read()
                if rel.endswith(".in"):
                    text = text.replace("@REPO@", repo)
                    for k, v in (subst or {}).items():
                        text = text.replace("@%s@" % k, v)
                open(dst, "w").write(text)
        lock = os.path.join(repo, "Cargo.lock")
        if os.path.exists(lock):
            shutil.copy(lock, os.path.join(work, "Cargo.lock"))
        env = dict(os.environ)
        env.update({
            "LD_LIBRARY_PATH": _sysroot() + "/lib",
            "RUSTFLAGS": "-Awarnings",
            "RUSTC_WRAPPER": DRIVER,
            "PESTFACTS_OUT": tmp_out,
            "PESTFACTS_CRATES": ",".join(crates),
            "CARGO_TARGET_DIR": os.path.join(work, "target"),
            "CARGO_NET_OFFLINE": "true",
        })
        env.pop("RUSTC_WORKSPACE_WRAPPER", None)
        p = subprocess.run(["cargo", "+nightly", "check", "--offline", "-j", "16"], cwd=work, env=env,
                           stdout=subprocess.PIPE, stderr=subprocess.STDOUT, text=True)
        if p.returncode != 0:
            sys.stderr.write(p.stdout[-6000:])
            raise BuildFailed("harness %s does not compile" % name)
    finally:
        shutil.rmtree(work, ignore_errors=True)
    if not glob.glob(os.path.join(tmp_out, "*.json")):
        raise BuildFailed("driver produced no facts for harness %s" % name)
    with open(os.path.join(tmp_out, "DONE"), "w") as fh:
        fh.write("ok\n")
    shutil.rmtree(out, ignore_errors=True)
    os.rename(tmp_out, out)
    return out


def harness_crates(name, crates, repo=None, subst=None):
    d = build_harness_facts(name, crates, repo, subst)
    out = {}
    for f in sorted(glob.glob(os.path.join(d, "*.json"))):
        with open(f) as fh:
            doc = json.load(fh)
        c = Crate(doc, f)
        out.setdefault(doc["crate"], []).append(c.inlined() if VIEW != "raw" else c)
    return out
