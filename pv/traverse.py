"""Exhaustiveness of generic traversals over a recursive enum: every variant that carries a
sub-expression must be matched explicitly and every such field must flow into the recursion
(a recursive call or the iterator's worklist)."""
import re
from . import hirq
from .hirq import walk, kind, callee, peel


def _mentions(ty, path):
    return re.search(r"(?<![\w:])" + re.escape(path) + r"(?![\w])", ty) is not None


def rec_fields(crate, enum_path):
    """variant name -> list of field indexes whose type (transitively through the crate's ADTs)
    contains the enum."""
    adts = {a["path"]: a for a in crate.adts}
    # which ADTs reach the enum
    reach = {enum_path}
    changed = True
    while changed:
        changed = False
        for p, a in adts.items():
            if p in reach:
                continue
            for v in a["variants"]:
                for f in v["fields"]:
                    if any(_mentions(f["ty"], q) for q in reach):
                        reach.add(p)
                        changed = True
                        break
                if p in reach:
                    break
    e = adts.get(enum_path)
    if e is None:
        return None
    out = {}
    for v in e["variants"]:
        idx = [i for i, f in enumerate(v["fields"]) if any(_mentions(f["ty"], q) for q in reach)]
        out[v["name"]] = idx
    return out


def enum_matches(fn, enum_path):
    """Match nodes of fn whose scrutinee type is the enum (by value, reference or Box)."""
    out = []
    for n in walk(fn["body"]):
        if kind(n) == "Match" and n.get("src") == "match":
            sty = n.get("sty", "")
            core = sty.lstrip("&").strip()
            if core.startswith("mut "):
                core = core[4:]
            core = re.sub(r"<.*$", "", core)
            if core == enum_path:
                out.append(n)
    return out


def arm_field_bindings(pat, variant_path):
    """For the alternative(s) of pat matching variant_path: field index -> set of binding names;
    None if the variant is not matched by this pattern."""
    res = {}
    found = False

    def visit(p):
        nonlocal found
        k = p.get("k")
        if k == "POr":
            for q in p["pats"]:
                visit(q)
        elif k in ("PRef", "PBox", "PDeref"):
            visit(p["pat"])
        elif k == "PBind" and p.get("sub"):
            visit(p["sub"])
        elif k == "PTupleStruct" and p.get("path") == variant_path:
            found = True
            dd = p.get("ddpos")
            pats = p["pats"]
            for i, q in enumerate(pats):
                idx = i
                if dd is not None and i >= dd:
                    idx = None  # positions after `..` are counted from the end; not needed here
                if idx is not None:
                    res.setdefault(idx, set()).update(nm for (_, nm) in hirq.pat_bindings(q))
        elif k == "PStruct" and p.get("path") == variant_path:
            found = True
            for f in p["fields"]:
                try:
                    idx = int(f["name"])
                except ValueError:
                    idx = f["name"]
                res.setdefault(idx, set()).update(nm for (_, nm) in hirq.pat_bindings(f["pat"]))
        elif k == "PPath" and p.get("path") == variant_path:
            found = True
    visit(pat)
    return res if found else None


def uses_in_recursion(body, names, rec_callees, self_worklist=True):
    """Which of `names` are used inside the arguments of a call to one of rec_callees, or stored
    into a field of `self` (assignment / push)."""
    used = set()

    def names_in(n):
        return set(x["name"] for x in walk(n) if kind(x) == "Path" and x.get("res") == "local" and x["name"] in names)

    for n in walk(body):
        k = kind(n)
        c = callee(n) if k in ("Call", "MethodCall") else None
        if k in ("Call", "MethodCall") and (c in rec_callees or (isinstance(c, tuple) and ("local", c[1]) in rec_callees)):
            for a in hirq.call_args(n):
                used |= names_in(a)
        elif self_worklist and k == "Assign":
            pl = hirq.place(n["l"])
            if pl and pl[0] == "self":
                used |= names_in(n["r"])
        elif self_worklist and k == "MethodCall" and n["m"] in ("push", "push_back", "extend"):
            pl = hirq.place(n["recv"])
            if pl and pl[0] == "self":
                for a in n["args"]:
                    used |= names_in(a)
    return used


def uses_in_result(body, names):
    """Which of `names` occur in the value the body evaluates to (tail expressions and `return` operands)."""
    used = set()
    for leaf in hirq.tail_leaves(body) + [x["e"] for x in walk(body) if kind(x) == "Ret" and x.get("e") is not None]:
        used |= set(x["name"] for x in walk(leaf) if kind(x) == "Path" and x.get("res") == "local" and x["name"] in names)
    return used


def check(crate, fn, enum_path, rec_callees=None, returns_children=False):
    """Returns (instances, holes): instances = [(variant, where)], holes = [(variant, reason, where)].
    returns_children: fn hands the children back to a traversal that called it (e.g. `split_children(expr) ->
    (Option<&Expr>, Option<&Expr>)`), so a child flows on by appearing in the arm's value."""
    rf = rec_fields(crate, enum_path)
    ms = enum_matches(fn, enum_path)
    if rf is None or not ms:
        return None, None
    m = max(ms, key=lambda x: len(x["arms"]))
    rec_callees = set(rec_callees or ()) | {fn["path"]}
    # helpers: local closures (and same-crate fns called here) that pass their argument into the recursion
    for lid, (init, st) in hirq.lets(fn["body"]).items():
        if kind(init) == "Closure" and any(kind(x) in ("Call", "MethodCall") and callee(x) in rec_callees for x in walk(init["body"])):
            rec_callees.add(("local", lid))
    inst, holes = [], []
    for v, idxs in rf.items():
        if not idxs:
            continue
        vpath = enum_path + "::" + v
        arm_hit = None
        for arm in m["arms"]:
            b = arm_field_bindings(arm["pat"], vpath)
            if b is not None:
                arm_hit = (arm, b)
                break
        if arm_hit is None:
            holes.append((v, "no explicit arm (falls into the catch-all): the traversal does not descend into "
                             "its sub-expression", hirq.where(m)))
            continue
        arm, b = arm_hit
        inst.append((v, hirq.where(arm["body"])))
        if hirq.diverges(arm["body"]):
            continue
        for i in idxs:
            names = b.get(i, set())
            if not names:
                holes.append((v, "field %d is not bound" % i, hirq.where(arm["pat"])))
                continue
            used = uses_in_recursion(arm["body"], names, rec_callees)
            if returns_children:
                used |= uses_in_result(arm["body"], names)
            if not (names & used):
                holes.append((v, "sub-expression `%s` does not flow into the recursion" % "/".join(sorted(names)),
                              hirq.where(arm["body"])))
    return inst, holes
