"""An independent reader for the concrete syntax of .pest grammars (it must not trust pest_meta, the
code under analysis).  Produces, per rule: name, modifier ('', '_', '@', '$', '!') and an expression tree:

  ("str", s) ("insens", s) ("range", a, b) ("ident", name) ("peek", a, b) ("push", e) ("pushlit", s)
  ("pos", e) ("neg", e) ("seq", [e..]) ("choice", [e..]) ("opt", e) ("rep", e) ("rep1", e)
  ("repn", e, min, max)   max None = unbounded        ("tag", name, e)
"""


class ParseError(Exception):
    pass


class Reader:
    def __init__(self, text):
        self.s = text
        self.i = 0

    # -- lexical helpers
    def ws(self):
        s = self.s
        while self.i < len(s):
            c = s[self.i]
            if c in " \t\r\n":
                self.i += 1
            elif s.startswith("//", self.i):
                j = s.find("\n", self.i)
                self.i = len(s) if j < 0 else j + 1
            elif s.startswith("/*", self.i):
                depth = 1
                self.i += 2
                while self.i < len(s) and depth:
                    if s.startswith("/*", self.i):
                        depth += 1
                        self.i += 2
                    elif s.startswith("*/", self.i):
                        depth -= 1
                        self.i += 2
                    else:
                        self.i += 1
            else:
                break

    def peek(self, lit):
        self.ws()
        return self.s.startswith(lit, self.i)

    def eat(self, lit):
        self.ws()
        if self.s.startswith(lit, self.i):
            self.i += len(lit)
            return True
        return False

    def expect(self, lit):
        if not self.eat(lit):
            raise ParseError("expected %r at offset %d: %r" % (lit, self.i, self.s[self.i:self.i + 30]))

    def ident(self):
        self.ws()
        j = self.i
        s = self.s
        if j < len(s) and (s[j].isalpha() or s[j] == "_") and s[j].isascii():
            j += 1
            while j < len(s) and (s[j].isalnum() or s[j] == "_") and s[j].isascii():
                j += 1
            name = s[self.i:j]
            self.i = j
            return name
        return None

    def escape(self):
        s = self.s
        c = s[self.i]
        self.i += 1
        table = {'"': '"', "\\": "\\", "r": "\r", "n": "\n", "t": "\t", "0": "\0", "'": "'"}
        if c in table:
            return table[c]
        if c == "x":
            v = int(s[self.i:self.i + 2], 16)
            self.i += 2
            return chr(v)
        if c == "u":
            assert s[self.i] == "{"
            j = s.index("}", self.i)
            v = int(s[self.i + 1:j], 16)
            self.i = j + 1
            return chr(v)
        raise ParseError("bad escape \\%s" % c)

    def string(self):
        self.ws()
        assert self.s[self.i] == '"'
        self.i += 1
        out = []
        while self.s[self.i] != '"':
            if self.s[self.i] == "\\":
                self.i += 1
                out.append(self.escape())
            else:
                out.append(self.s[self.i])
                self.i += 1
        self.i += 1
        return "".join(out)

    def char(self):
        self.ws()
        assert self.s[self.i] == "'"
        self.i += 1
        if self.s[self.i] == "\\":
            self.i += 1
            c = self.escape()
        else:
            c = self.s[self.i]
            self.i += 1
        assert self.s[self.i] == "'", "unterminated char at %d" % self.i
        self.i += 1
        return c

    def number(self):
        self.ws()
        j = self.i
        if j < len(self.s) and self.s[j] == "-":
            j += 1
        while j < len(self.s) and self.s[j].isdigit():
            j += 1
        if j == self.i:
            return None
        v = int(self.s[self.i:j])
        self.i = j
        return v

    # -- grammar
    def grammar(self):
        rules = []
        while True:
            self.ws()
            if self.i >= len(self.s):
                break
            name = self.ident()
            if name is None:
                raise ParseError("rule name expected at %d: %r" % (self.i, self.s[self.i:self.i + 30]))
            self.expect("=")
            mod = ""
            for m in ("_", "@", "$", "!"):
                if self.eat(m):
                    mod = m
                    break
            self.expect("{")
            e = self.expression()
            self.expect("}")
            rules.append((name, mod, e))
        return rules

    def expression(self):
        self.eat("|")
        alts = [self.sequence()]
        while self.eat("|"):
            alts.append(self.sequence())
        return alts[0] if len(alts) == 1 else ("choice", alts)

    def sequence(self):
        items = [self.term()]
        while self.eat("~"):
            items.append(self.term())
        return items[0] if len(items) == 1 else ("seq", items)

    def term(self):
        self.ws()
        tag = None
        if self.peek("#"):
            save = self.i
            self.eat("#")
            nm = self.ident()
            if nm and self.eat("="):
                tag = nm
            else:
                self.i = save
        prefixes = []
        while True:
            if self.eat("&"):
                prefixes.append("pos")
            elif self.peek("!") and not False:
                self.eat("!")
                prefixes.append("neg")
            else:
                break
        e = self.node()
        while True:
            if self.eat("?"):
                e = ("opt", e)
            elif self.eat("*"):
                e = ("rep", e)
            elif self.eat("+"):
                e = ("rep1", e)
            elif self.peek("{"):
                save = self.i
                self.eat("{")
                a = self.number()
                if a is not None and self.eat("}"):
                    e = ("repn", e, a, a)
                elif a is not None and self.eat(","):
                    b = self.number()
                    if self.eat("}"):
                        e = ("repn", e, a, b)
                    else:
                        self.i = save
                        break
                elif a is None and self.eat(","):
                    b = self.number()
                    if b is not None and self.eat("}"):
                        e = ("repn", e, 0, b)
                    else:
                        self.i = save
                        break
                else:
                    self.i = save
                    break
            else:
                break
        for p in reversed(prefixes):
            e = (p, e)
        if tag:
            e = ("tag", tag, e)
        return e

    def node(self):
        self.ws()
        s = self.s
        if self.eat("("):
            e = self.expression()
            self.expect(")")
            return e
        if s.startswith("PUSH_LITERAL", self.i) and self._call_follows(12):
            self.i += 12
            self.expect("(")
            v = self.string()
            self.expect(")")
            return ("pushlit", v)
        if s.startswith("PUSH", self.i) and self._call_follows(4):
            self.i += 4
            self.expect("(")
            e = self.expression()
            self.expect(")")
            return ("push", e)
        if s.startswith("PEEK", self.i) and self._brack_follows(4):
            self.i += 4
            self.expect("[")
            a = self.number()
            self.expect("..")
            b = self.number()
            self.expect("]")
            return ("peek", a if a is not None else 0, b)
        if s[self.i] == '"':
            return ("str", self.string())
        if s[self.i] == "^":
            self.i += 1
            return ("insens", self.string())
        if s[self.i] == "'":
            a = self.char()
            self.expect("..")
            b = self.char()
            return ("range", a, b)
        nm = self.ident()
        if nm:
            return ("ident", nm)
        raise ParseError("terminal expected at %d: %r" % (self.i, s[self.i:self.i + 30]))

    def _call_follows(self, n):
        j = self.i + n
        while j < len(self.s) and self.s[j] in " \t\r\n":
            j += 1
        return j < len(self.s) and self.s[j] == "("

    def _brack_follows(self, n):
        j = self.i + n
        while j < len(self.s) and self.s[j] in " \t\r\n":
            j += 1
        return j < len(self.s) and self.s[j] == "["


def parse(text):
    return Reader(text).grammar()


def parse_file(path):
    with open(path, encoding="utf-8") as fh:
        return parse(fh.read())


def rules_dict(rules):
    return {n: (m, e) for (n, m, e) in rules}


def alternatives(e):
    return list(e[1]) if e[0] == "choice" else [e]


def idents(e):
    """All rule names referenced in e."""
    out = []
    if not isinstance(e, tuple):
        return out
    if e[0] == "ident":
        return [e[1]]
    for x in e[1:]:
        if isinstance(x, tuple):
            out += idents(x)
        elif isinstance(x, list):
            for y in x:
                out += idents(y)
    return out


def show(e):
    """PEG expression in pest syntax (for messages)."""
    k = e[0]
    if k == "str":
        return '"%s"' % e[1].encode("unicode_escape").decode().replace('"', '\\"')
    if k == "insens":
        return '^"%s"' % e[1]
    if k == "range":
        return "'%s'..'%s'" % (e[1], e[2])
    if k == "ident":
        return e[1]
    if k == "seq":
        return "(" + " ~ ".join(show(x) for x in e[1]) + ")"
    if k == "choice":
        return "(" + " | ".join(show(x) for x in e[1]) + ")"
    if k == "opt":
        return show(e[1]) + "?"
    if k == "rep":
        return show(e[1]) + "*"
    if k == "rep1":
        return show(e[1]) + "+"
    if k == "repn":
        return "%s{%s,%s}" % (show(e[1]), e[2], "" if e[3] is None else e[3])
    if k == "neg":
        return "!" + show(e[1])
    if k == "pos":
        return "&" + show(e[1])
    if k == "push":
        return "PUSH(%s)" % show(e[1])
    return repr(e)
