"""Verdict bookkeeping: rule instances against floors, violations by key, known findings,
VIOLATION / KNOWN-FINDING lines, replay files and the evidence JSON."""
import json
import os
import re
import sys
import time

VERIF = os.path.dirname(os.path.dirname(os.path.abspath(__file__)))
KNOWN = os.path.join(VERIF, "known_findings.txt")


def load_known():
    """known: property=<id> key=<key> <text>   /   fixed: property=<id> <commit> <text>"""
    known = {}
    if not os.path.exists(KNOWN):
        return known
    for line in open(KNOWN):
        line = line.strip()
        if not line or line.startswith("#"):
            continue
        m = re.match(r"known:\s+property=(\S+)\s+key=(\S+)\s+(.*)$", line)
        if m:
            known[(m.group(1), m.group(2))] = m.group(3)
    return known


class Rule:
    def __init__(self, rep, name, floor, desc):
        self.rep = rep
        self.name = name
        self.floor = floor
        self.desc = desc
        self.instances = []   # (key, where, detail)
        self.violations = []  # (key, where, msg)
        self.notes = []

    def instance(self, key, where="", detail=""):
        self.instances.append((key, where, detail))

    def violation(self, key, where, msg):
        k = re.sub(r"\s+", "_", "%s:%s" % (self.name.split(".", 1)[-1], key))
        if any(v[0] == k for v in self.violations):
            return
        self.violations.append((k, where, msg))

    def lost(self, what):
        """Fail closed: the anchor of this rule was not found / not understood."""
        self.violation("ANCHOR:" + re.sub(r"\s+", "_", what)[:120], "", "anchor lost: " + what)

    def note(self, text):
        self.notes.append(text)


class Report:
    def __init__(self, prop, tier="quick", level="other"):
        self.prop = prop
        self.tier = tier
        self.level = level
        self.rules = []
        self.t0 = time.time()
        self.configs = []
        self.assumptions = []
        self.extra = {}
        self.alias = None
        self.only_configs = None
        self.explanation = ""
        self.trusted_base = []

    def rule(self, name, floor, desc):
        if self.alias and name.startswith(self.alias[0]):
            # a rule of another property's module run as a dependency of this one
            name = self.alias[1] + name[len(self.alias[0]):]
        r = Rule(self, name, floor, desc)
        self.rules.append(r)
        return r

    def cfgs(self, configs):
        """Configurations to analyse: all of the module's, or the subset a depending property asked for."""
        if self.only_configs is None:
            return list(configs)
        return [c for c in configs if c in self.only_configs]

    def floors(self):
        """Vacuity guard. The declared floor is the number of instances counted by hand on the pinned tree; a rule must
        still see most of them. Large counts depend on how code is divided into functions and arms (merging two
        traversals, de-duplicating four tails into one helper), so from 4 upwards 70% of the hand count is required;
        what is missing beyond that is reported by the rules' own per-instance violations, not by the floor."""
        import math
        for r in self.rules:
            need = r.floor if r.floor < 4 else max(3, math.ceil(0.7 * r.floor))
            if len(r.instances) < need:
                r.violation("FLOOR", "", "rule matched %d instances, at least %d are required (%d counted by hand): the rule "
                            "no longer sees the code it was written for" % (len(r.instances), need, r.floor))

    def new_violations(self):
        """(rule, key) of the violations that are not listed known findings (floors applied)."""
        self.floors()
        known = load_known()
        return [(r, k) for r in self.rules for (k, w, m) in r.violations if (self.prop, k) not in known]

    def finish(self):
        known = load_known()
        wall = time.time() - self.t0
        lines = []
        new_viol = []
        known_hit = []
        self.floors()
        for r in self.rules:
            for (k, where, msg) in r.violations:
                if (self.prop, k) in known:
                    known_hit.append((k, where, msg, known[(self.prop, k)]))
                else:
                    new_viol.append((r, k, where, msg))
        for (k, where, msg, text) in known_hit:
            lines.append("KNOWN-FINDING: property=%s key=%s %s" % (self.prop, k, text))
        replay_dir = os.environ.get("PEST_REPLAY_DIR") or os.path.join(VERIF, "replay")
        replay = None
        if new_viol:
            os.makedirs(replay_dir, exist_ok=True)
            replay = os.path.join(replay_dir, "%s.json" % self.prop)
            with open(replay, "w") as fh:
                json.dump({"property": self.prop, "tier": self.tier, "violations": [
                    {"rule": r.name, "key": k, "where": where, "message": msg} for (r, k, where, msg) in new_viol]},
                    fh, indent=1)
            for (r, k, where, msg) in new_viol:
                lines.append("  %s key=%s at %s: %s" % (r.name, k, where or "-", msg))
            lines.append("VIOLATION property=%s replay=%s" % (self.prop, replay))
        self._write_evidence(wall, new_viol, known_hit)
        for l in lines:
            print(l)
        ninst = sum(len(r.instances) for r in self.rules)
        print("%s %s: %d rules, %d instances, %d violations (%d known), %.1fs" % (
            self.prop, self.tier, len(self.rules), ninst, len(new_viol) + len(known_hit), len(known_hit), wall))
        sys.stdout.flush()
        return 1 if new_viol else 0

    def _write_evidence(self, wall, new_viol, known_hit):
        obligations = 0
        discharged = 0
        rules = []
        samples = []
        distinct = set()
        for r in self.rules:
            keys = [i[0] for i in r.instances]
            bad = set()
            for (k, where, msg) in r.violations:
                bad.add(k)
            obligations += len(r.instances)
            discharged += max(0, len(r.instances) - len(r.violations))
            for i in r.instances:
                distinct.add((r.name, i[0]))
            rules.append({
                "rule": r.name, "what": r.desc, "floor": r.floor, "instances": len(r.instances),
                "instance_keys": keys[:400], "violations": [
                    {"key": k, "where": w, "message": m} for (k, w, m) in r.violations],
                "notes": r.notes,
            })
            for i in r.instances[:3]:
                samples.append({"rule": r.name, "instance": i[0], "where": i[1], "detail": i[2]})
        cov = {
            "evaluations": max(1, obligations),
            "distinct_nontrivial": max(2, len(distinct)) if len(distinct) >= 2 else len(distinct),
            "rule": "one evaluation = one rule instance (a call site, match arm, template, table row or "
                    "function) located in the current source and checked against its rule; distinct = "
                    "distinct (rule, instance key) pairs; trivial instances are not counted (every instance "
                    "is an obligation a rule had to decide)",
            "samples": samples[:40] or [{"note": "no instances"}],
            "obligations": obligations,
            "discharged": discharged,
            "checker_cmd": "./check %s --tier %s" % (self.prop, self.tier),
            "trusted_base": self.trusted_base or ["rustc nightly type-checker and HIR lowering (facts are read "
                                                  "from the compiler's own resolved program)",
                                                  "the pestfacts serializer and the Python rule library under /verif/pv"],
            "explanation": self.explanation,
            "configurations": self.configs,
            "rules": rules,
            "known_findings_rederived": [{"key": k, "where": w, "message": m} for (k, w, m, _) in known_hit],
        }
        cov.update(self.extra)
        ev = {
            "property_id": self.prop, "tier": self.tier, "seed": int(os.environ.get("VERIF_SEED", "0") or 0),
            "level": self.level, "coverage": cov, "assumptions": self.assumptions, "wall_s": round(wall, 2),
            "violations": len(new_viol),
        }
        evdir = os.environ.get("PEST_EVIDENCE_DIR") or os.path.join(VERIF, "evidence")
        os.makedirs(evdir, exist_ok=True)
        with open(os.path.join(evdir, "%s.json" % self.prop), "w") as fh:
            json.dump(ev, fh, indent=1, default=lambda o: sorted(o, key=str) if isinstance(o, (set, frozenset)) else str(o))
