"""C06 — validation guarantees termination and accepts well-formed grammars (DESIGN.md section 4, C06).

The validator is itself a static analysis of grammars; what is decided here is that it looks everywhere
it must and computes the documented equations:
  LEFTMOST  left_recursion::check_expr descends into every leftmost position of every operator
  TRAVERSE  the walker validate_repetition / validate_choices rely on reaches every sub-expression
  NULLABLE  is_non_progressing / is_non_failing compute the PEG nullable / cannot-fail equations per variant
  TRACE     rule-following recursions guard on a visited set and pair trace.push with trace.pop
  WIRING    the validators run, on every rule, before rules are handed to the optimizer
The converse clause (every well-formed grammar is accepted) is not decided.
"""
from .. import facts, hirq, traverse
from ..hirq import walk, kind, callee, where, peel, PathEnum, exits

LEVEL = "other"

# The validator analyses WHITESPACE and COMMENT in isolation and never models the implicit skip between the operands of
# their own bodies. That is sound only because both back-ends run those bodies atomically (no skipping inside): C02's RULE
# rule decides the wrapper each back-end puts around every (modifier x WHITESPACE/COMMENT) rule; it is re-run here.
DEPENDS = [
    ("C02", {"only_rules": ["RULE", "EXPR", "SKIP", "BUILTINS"], "skip_keys": ["NodeTag"],
             "why": "termination of the implicit-skip loop relies on WHITESPACE/COMMENT bodies running under "
                    "atomic(Atomic) in the generator and the VM; and the validator reasons about the operators as the "
                    "documentation defines them - `e+` must need one iteration in both back-ends, or a grammar it "
                    "accepts loops at run time"}),
    ("C05", {"why": "validation runs before optimisation: what it proved about progress and failure holds for the rules "
                    "that are executed only if every pass preserves their meaning (`(!\"a\" ~ ANY)+` rewritten into a "
                    "skip that can match nothing makes an accepted repetition spin)"}),
]
PEXPR = "pest_meta::parser::ParserExpr"
CHECK = "pest_meta::validator::left_recursion::check_expr"
NP = "pest_meta::validator::is_non_progressing"
NF = "pest_meta::validator::is_non_failing"
WALKER = "pest_meta::parser::ParserNode::filter_map_top_down::filter_internal"

MANIFEST = {
    "technique": "exhaustiveness and must-execute analysis of the validator's recursions over ParserExpr, "
                 "equation-table comparison of nullable/cannot-fail arms, push/pop pairing and visited-guard "
                 "dominance, must-precede on call edges (typed HIR, per feature configuration)",
    "text": "Decides that the termination analysis looks everywhere it must: the left-recursion walk reaches the "
            "leftmost position of every operator (a variant it does not descend into lets `a = { V(a) }` through "
            "and overflows the stack at parse time); the walker behind the repetition/choice checks reaches "
            "every sub-expression; each arm of the two nullability predicates computes the standard PEG equation "
            "for its operator; rule-following recursions are guarded by a visited set with balanced push/pop; "
            "validation precedes optimisation on every path. The converse (acceptance of every well-formed "
            "grammar) and the soundness of the PEG equations themselves are not decided.",
    "note": "Necessary conditions for the termination clause. The equation table is an oracle taken from the "
            "PEG literature (Ford 2004, well-formedness), with the repository's documented treatment of stack "
            "built-ins (excluded by the property statement).",
}


def locate(meta):
    """Anchors by role (private names may change)."""
    global CHECK, NP, NF, WALKER
    cg = hirq.CallGraph([meta])
    reach = cg.reachable(["pest_meta::validator::validate_ast"])
    bools = []
    for p in sorted(reach):
        fn = meta.fn(p)
        if fn is None or fn.get("exp"):
            continue
        ms = traverse.enum_matches(fn, PEXPR)
        selfrec = any(callee(n) == p for n in walk(fn["body"]))
        if not ms or not selfrec:
            continue
        big = max(len(m["arms"]) for m in ms)
        if fn.get("output", "").startswith("core::option::Option<pest::error::Error") and big >= 6:
            CHECK = p
        elif fn.get("output") == "bool" and big >= 10:
            bools.append(p)
        elif fn.get("output") == "()" and big >= 8:
            WALKER = p
    if len(bools) == 2:
        # which is which: the non-progressing predicate is the one for which a predicate (!e) is `true`
        def negpred_true(p):
            fn = meta.fn(p)
            m = max(traverse.enum_matches(fn, PEXPR), key=lambda x: len(x["arms"]))
            for arm in m["arms"]:
                if PEXPR + "::NegPred" in hirq.pat_variants(arm["pat"]):
                    return hirq.lit_value(arm["body"]) is True
            return False
        a, b = bools
        if negpred_true(a) and not negpred_true(b):
            NP, NF = a, b
        elif negpred_true(b) and not negpred_true(a):
            NP, NF = b, a
        # otherwise keep the default names (and let the equation table report)


def run(rep, tier):
    rep.explanation = (
        "For each ParserExpr variant present in the analysed configuration (post-cfg ADT) the rules check the "
        "corresponding arm of the validator's recursive functions; unary wrappers must recurse on every path, "
        "Choice into both alternatives, Seq into lhs on every path and into rhs on some path.")
    rep.configs = rep.cfgs(["default", "extras"])
    for cfg in rep.configs:
        f = facts.facts(cfg)
        meta = f.crate("pest_meta", want_feature="grammar-extras" if cfg == "extras" else None)
        sfx = "" if cfg == "default" else "@" + cfg
        locate(meta)
        leftmost(rep, meta, sfx)
        trav(rep, meta, sfx)
        nullable(rep, meta, sfx)
        trace(rep, meta, sfx)
        trace_entry(rep, meta, sfx)
        minzero(rep, meta, sfx)
        allrules(rep, meta, sfx)
        trivia_nonatomic(rep, meta, sfx)
        resolve(rep, meta, sfx)
        wiring(rep, meta, f, sfx)


# ------------------------------------------------------------------ LEFTMOST

def calls_self_with(body, fnpath, names):
    """Does `body` contain a call fnpath(.. name ..) (closures included)?"""
    for n in walk(body):
        if kind(n) in ("Call", "MethodCall") and callee(n) == fnpath:
            for a in hirq.call_args(n):
                for x in walk(a):
                    if kind(x) == "Path" and x.get("res") == "local" and x["name"] in names:
                        return True
    return False


def must_call_self_with(fn, arm_body, fnpath, names):
    """True if every normally-completing path through arm_body calls fnpath with one of names
    (closures are not executed by the arm itself, so calls inside closures do not count)."""
    pe = PathEnum(fn, inline_closures=False)
    paths = pe.paths_of(arm_body)
    ok_any = False
    for (ev, out) in paths:
        if out == "diverge":
            continue
        hit = False
        for e in ev:
            if e.kind == "call" and callee(e.node) == fnpath:
                for a in hirq.call_args(e.node):
                    for x in walk(a):
                        if kind(x) == "Path" and x.get("res") == "local" and x["name"] in names:
                            hit = True
        if not hit:
            return False
        ok_any = True
    return ok_any


def leftmost(rep, meta, sfx):
    floor = 12 if not sfx else 13
    r = rep.rule("C06.LEFTMOST" + sfx, floor,
                 "left_recursion::check_expr descends into the child of every unary operator on every path, into "
                 "both alternatives of a choice, into the lhs of a sequence on every path and into its rhs on "
                 "some path")
    fn = meta.fn(CHECK)
    if fn is None:
        r.lost("validator::left_recursion::check_expr")
        return
    rf = traverse.rec_fields(meta, PEXPR)
    ms = traverse.enum_matches(fn, PEXPR)
    if not rf or not ms:
        r.lost("match on ParserExpr in check_expr")
        return
    m = max(ms, key=lambda x: len(x["arms"]))
    for v, idxs in rf.items():
        if not idxs:
            continue
        vpath = PEXPR + "::" + v
        hit = None
        for arm in m["arms"]:
            b = traverse.arm_field_bindings(arm["pat"], vpath)
            if b is not None:
                hit = (arm, b)
                break
        if hit is None:
            r.violation(v, where(m), "no arm for %s: `a = { %s }` is accepted as not left-recursive and "
                        "overflows the stack at parse time" % (v, example(v)))
            continue
        arm, b = hit
        r.instance(v, where(arm["body"]))
        if v == "Seq":
            lhs, rhs = b.get(0, set()), b.get(1, set())
            if not must_call_self_with(fn, arm["body"], CHECK, lhs):
                r.violation("Seq:lhs", where(arm["body"]),
                            "the lhs of a sequence is not checked on every path: when the lhs can match without "
                            "consuming input, a rule reference in its own leftmost position is skipped "
                            "(`a = { a? ~ \"x\" }`, `a = { !a ~ \"x\" }` are accepted)")
            if not calls_self_with(arm["body"], CHECK, rhs):
                r.violation("Seq:rhs", where(arm["body"]), "the rhs of a sequence is never checked (needed when "
                            "the lhs is nullable)")
        elif v == "Choice":
            lhs, rhs = b.get(0, set()), b.get(1, set())
            if not must_call_self_with(fn, arm["body"], CHECK, lhs):
                r.violation("Choice:lhs", where(arm["body"]), "first alternative not checked on every path")
            if not calls_self_with(arm["body"], CHECK, rhs):
                r.violation("Choice:rhs", where(arm["body"]), "second alternative never checked")
        else:
            names = set()
            for i in idxs:
                names |= b.get(i, set())
            if not must_call_self_with(fn, arm["body"], CHECK, names):
                r.violation(v, where(arm["body"]), "the operand of %s is not checked on every path: `a = { %s }` "
                            "is accepted and overflows the stack at parse time" % (v, example(v)))


def example(v):
    return {"RepExact": "a{2}", "RepMin": "a{2,}", "RepMax": "a{,2}", "RepMinMax": "a{1,2}", "NodeTag": "#t = a",
            "Opt": "a?", "Rep": "a*", "RepOnce": "a+", "PosPred": "&a", "NegPred": "!a", "Push": "PUSH(a)",
            "Seq": "a ~ x", "Choice": "a | x"}.get(v, v + "(a)")


# ------------------------------------------------------------------ TRAVERSE

def trav(rep, meta, sfx):
    floor = 12 if not sfx else 12
    r = rep.rule("C06.TRAVERSE" + sfx, floor,
                 "ParserNode::filter_map_top_down (the only way validate_repetition / validate_choices see "
                 "sub-expressions) descends into every child of every variant")
    fn = meta.fn(WALKER)
    if fn is None:
        r.lost("ParserNode::filter_map_top_down::filter_internal")
        return
    inst, holes = traverse.check(meta, fn, PEXPR)
    if inst is None:
        r.lost("match on ParserExpr in filter_internal")
        return
    for (v, w) in inst:
        r.instance(v, w)
    for (v, reason, w) in holes:
        r.violation(v, w, "%s: %s; repetitions and choices nested under it are never validated (an empty-iterating "
                    "repetition there loops forever)" % (v, reason))
    # the two validators must go through this walker
    for vfn in ("pest_meta::validator::validate_repetition", "pest_meta::validator::validate_choices"):
        b = meta.fn(vfn)
        if b is None:
            r.lost(vfn)
            continue
        ok = any(callee(n) == "pest_meta::parser::ParserNode::filter_map_top_down" for n in walk(b["body"]))
        r.instance("uses:" + vfn.split("::")[-1], where(b["body"]))
        if not ok:
            r.violation("uses:" + vfn.split("::")[-1], where(b["body"]), "validator no longer walks the whole rule")


# ------------------------------------------------------------------ NULLABLE

# oracle: per variant, the boolean structure of the equation.  R(i) = recursive result on field i,
# EMPTY = literal is empty, ZERO(i) = count field i is 0.
T, F_ = ("const", True), ("const", False)
NP_TABLE = {
    "Str": ("EMPTY",), "Insens": ("EMPTY",), "Range": F_, "PeekSlice": F_,
    "PosPred": T, "NegPred": T, "Opt": T, "Rep": T, "RepMax": T,
    "Seq": ("and", ("R", 0), ("R", 1)), "Choice": ("or", ("R", 0), ("R", 1)),
    "RepOnce": ("R", 0), "Push": ("R", 0), "NodeTag": ("R", 0), "PushLiteral": T,
    "RepExact": ("or", ("ZERO", 1), ("R", 0)), "RepMin": ("or", ("ZERO", 1), ("R", 0)),
    "RepMinMax": ("or", ("ZERO", 1), ("R", 0)),
}
NF_TABLE = dict(NP_TABLE)
NF_TABLE.update({"NegPred": F_, "PosPred": ("R", 0)})


def formula(n, binds, fnpath):
    """Reduce an arm body to the oracle's vocabulary."""
    n = peel(n)
    k = kind(n)
    if k == "Block" and not n.get("stmts") and n.get("expr") is not None:
        return formula(n["expr"], binds, fnpath)
    if k == "Lit" and n.get("lk") == "bool":
        return ("const", bool(n["v"]))
    if k == "Binary" and n["op"] in ("&&", "||"):
        return ("and" if n["op"] == "&&" else "or", formula(n["l"], binds, fnpath), formula(n["r"], binds, fnpath))
    if k == "Binary" and n["op"] == "==":
        for a, b in ((n["l"], n["r"]), (n["r"], n["l"])):
            if hirq.lit_value(b) == 0:
                nm = peel(a).get("name") if kind(peel(a)) == "Path" else None
                for i, names in binds.items():
                    if nm in names:
                        return ("ZERO", i)
    if k == "MethodCall" and n["m"] == "is_empty":
        return ("EMPTY",)
    if k in ("Call", "MethodCall") and callee(n) == fnpath:
        first = hirq.call_args(n)[0]
        for x in walk(first):
            if kind(x) == "Path" and x.get("res") == "local":
                for i, names in binds.items():
                    if x["name"] in names:
                        return ("R", i)
    return ("?", hirq.expr_text(n))


def norm(f):
    if f[0] in ("and", "or"):
        parts = sorted([norm(f[1]), norm(f[2])], key=repr)
        return (f[0], parts[0], parts[1])
    return f


def nullable(rep, meta, sfx):
    for (fnpath, table, label) in ((NP, NP_TABLE, "non_progressing"), (NF, NF_TABLE, "non_failing")):
        floor = 17 if not sfx else 19
        r = rep.rule("C06.NULLABLE:%s%s" % (label, sfx), floor - 1,
                     "each arm of is_%s computes the PEG equation of its operator; no wildcard arm" % label)
        fn = meta.fn(fnpath)
        if fn is None:
            r.lost(fnpath)
            continue
        ms = traverse.enum_matches(fn, PEXPR)
        if not ms:
            r.lost("match on ParserExpr in " + fnpath)
            continue
        m = max(ms, key=lambda x: len(x["arms"]))
        adt = meta.adt(PEXPR)
        for arm in m["arms"]:
            if hirq.pat_is_catchall(arm["pat"]):
                r.violation("wildcard", where(arm["pat"]), "wildcard arm: a new operator would be classified "
                            "without anyone deciding its equation")
        for v in adt["variants"]:
            name = v["name"]
            vpath = PEXPR + "::" + name
            if name == "Ident":
                continue  # rule references are handled by C06.TRACE
            hit = None
            for arm in m["arms"]:
                b = traverse.arm_field_bindings(arm["pat"], vpath)
                if b is not None:
                    hit = (arm, b)
                    break
            if hit is None:
                r.violation(name, where(m), "no arm for %s" % name)
                continue
            arm, b = hit
            got = norm(formula(arm["body"], b, fnpath))
            want = norm(table[name]) if name in table else None
            r.instance(name, where(arm["body"]), repr(got))
            if want is None:
                r.violation(name, where(arm["body"]), "operator %s has no entry in the oracle table" % name)
            elif got != want:
                r.violation(name, where(arm["body"]),
                            "is_%s(%s) computes %s, the PEG equation is %s: the validator then accepts a grammar "
                            "that can loop without consuming input, or rejects a well-formed one"
                            % (label, name, show(got), show(want)))


def show(f):
    if f[0] == "const":
        return "true" if f[1] else "false"
    if f[0] in ("and", "or"):
        return "(%s %s %s)" % (show(f[1]), "&&" if f[0] == "and" else "||", show(f[2]))
    if f[0] == "R":
        return "rec(child%d)" % f[1]
    if f[0] == "ZERO":
        return "count%d == 0" % f[1]
    if f[0] == "EMPTY":
        return "literal.is_empty()"
    return "<%s>" % (f[1] if len(f) > 1 else f[0])


# ------------------------------------------------------------------ TRACE

def trace(rep, meta, sfx):
    r = rep.rule("C06.TRACE" + sfx, 3,
                 "validator recursions that follow a rule reference (rules.get(name) then recurse) are dominated "
                 "by a visited test on the trace and pair every trace.push before the recursive call with a "
                 "trace.pop after it")
    for fnpath in (CHECK, NP, NF):
        fn = meta.fn(fnpath)
        if fn is None:
            r.lost(fnpath)
            continue
        tparams = [p["id"] for p in fn["params"] if p.get("k") == "PBind" and "Vec<alloc::string::String>" in p.get("ty", "")
                   and p.get("ty", "").startswith("&mut")]
        tid, tfield = None, None
        if len(tparams) == 1:
            tid = tparams[0]
        else:
            # the trace kept in a field of a search object: the Vec<String> field of self this function pushes to
            pushed = set()
            for x in walk(fn["body"]):
                if kind(x) == "MethodCall" and x["m"] == "push":
                    pl = hirq.place(x["recv"])
                    if pl and pl[0] == "self" and pl[2] and "Vec<alloc::string::String>" in str(peel(x["recv"]).get("ty", "")):
                        pushed.add(pl[2][0])
            if len(pushed) == 1:
                tfield = list(pushed)[0]
        if tid is None and tfield is None:
            r.lost("trace parameter of " + fnpath)
            continue

        def is_trace(e, tid=tid, tfield=tfield):
            if tid is not None:
                return hirq.local_id(e) == tid
            pl = hirq.place(e)
            return bool(pl) and pl[0] == "self" and pl[2][:1] == [tfield]
        ctx = hirq.Ctx(fn)
        # rule-following recursive calls: self-calls whose node argument derives from `rules.get(..)` - bound by an
        # enclosing `if let Some(node) = rules.get(name)`, or by an earlier `let node = match rules.get(name) {..}` /
        # `let Some(node) = rules.get(name) else {..}` / `rules.get(name)?`
        def from_get(e):
            return any(kind(x) == "MethodCall" and x["m"] == "get" and "HashMap" in x.get("rty", "") for x in walk(e))
        get_bound = set()
        for st in walk(fn["body"]):
            if st.get("k") == "Let" and st.get("init") is not None and from_get(st["init"]):
                for (bid, nm) in hirq.pat_bindings(st["pat"]):
                    get_bound.add(bid)
            if st.get("k") == "LetExpr" and from_get(st["init"]):
                for (bid, nm) in hirq.pat_bindings(st["pat"]):
                    get_bound.add(bid)
            if st.get("k") == "Match" and from_get(st["scrut"]):      # `match rules.get(ident) { Some(node) => .. }`
                for arm in st["arms"]:
                    for (bid, nm) in hirq.pat_bindings(arm["pat"]):
                        get_bound.add(bid)
        lets_f = hirq.lets(fn["body"])

        def extra_guards(n):
            """Guards that are not enclosing ifs: the left operand of a short-circuit `&&`, and - for a call inside a
            closure handed to `opt.map(..)` / `is_some_and(..)` - the condition under which `opt` is the looked-up
            definition (`let definition = if already_seen { None } else { rules.get(ident) }`)."""
            out, via = [], False
            cur = n
            for (p_, k_, i_) in ctx.ancestors(n):
                if kind(p_) == "Binary" and p_["op"] == "&&" and k_ == "r":
                    out.append(("if", p_["l"], True))
                if kind(p_) == "MethodCall" and k_ == "args" and kind(peel(cur)) == "Closure" \
                        and p_["m"] in ("map", "is_some_and", "and_then", "map_or", "map_or_else", "filter"):
                    recv = peel(p_["recv"])
                    hops = 0
                    while kind(recv) == "Path" and recv.get("res") == "local" and recv["id"] in lets_f and hops < 3:
                        recv = peel(lets_f[recv["id"]][0])
                        hops += 1
                    if from_get(recv):
                        via = True
                    if kind(recv) == "If" and recv.get("else") is not None:
                        if from_get(recv["else"]) and not from_get(recv["then"]):
                            out.append(("if", recv["cond"], False))
                        elif from_get(recv["then"]) and not from_get(recv["else"]):
                            out.append(("if", recv["cond"], True))
                cur = p_
            return out, via

        def resolve_bool(e):
            e = peel(e)
            hops = 0
            while kind(e) == "Path" and e.get("res") == "local" and e["id"] in lets_f and hops < 3:
                e = peel(lets_f[e["id"]][0])
                hops += 1
            return e
        follow = []
        for n in walk(fn["body"]):
            if kind(n) in ("Call", "MethodCall") and callee(n) == fnpath:
                xg, via_closure = extra_guards(n)
                gs = ctx.guards(n) + xg
                via_get = via_closure or any(g[0] == "if" and kind(peel(g[1])) == "LetExpr" and from_get(g[1]) for g in gs)
                if not via_get and n["args"]:
                    root = hirq.place(n["args"][0])
                    via_get = bool(root) and root[1] in get_bound
                if via_get:
                    follow.append((n, gs))
        if not follow:
            r.lost("rule-following recursive call in " + fnpath)
            continue
        for (n, gs) in follow:
            key = fnpath.split("::")[-1]
            r.instance(key + ":follow", where(n))
            visited = False

            def is_contains(e):
                e = peel(e)
                return kind(e) == "MethodCall" and e["m"] == "contains" and is_trace(e["recv"])
            for g in gs:
                if g[0] == "if" and g[2] is True:
                    for cj in conj(g[1]):
                        cj = peel(cj)
                        if kind(cj) == "Unary" and cj["op"] == "!" and is_contains(resolve_bool(cj["e"])):
                            visited = True
                # the same test in its other spellings: the else branch of `if trace.contains(..)`, or code after
                # `if trace.contains(..) { return .. }`, or the test kept in a local first
                if g[0] == "if" and g[2] is False and is_contains(resolve_bool(g[1])):
                    visited = True
                if g[0] == "not" and is_contains(resolve_bool(g[1])):
                    visited = True
            # ... and by nothing else that remembers earlier walks: whether following `name` finds a cycle depends on
            # the trace it is followed from (a reference to a rule already on the trace is skipped), so an answer
            # recorded under one trace is not valid under another
            modes = hirq.binding_modes(fn)
            mut_params = set(p["id"] for p in fn["params"] if p.get("k") == "PBind" and p.get("ty", "").startswith("&mut"))
            for g in gs:
                if g[0] not in ("if", "not", "guard"):
                    continue
                for y in walk(g[1]):
                    if kind(y) == "MethodCall" and y["m"] in ("contains", "contains_key", "get", "binary_search"):
                        rid = hirq.local_id(y["recv"])
                        if rid is None or is_trace(y["recv"]):
                            continue
                        if rid in mut_params or modes.get(rid):
                            r.violation(key + ":memo", where(y),
                                        "the recursion through a rule reference is also suppressed by a lookup in `%s`, "
                                        "a collection that outlives the current descent: a rule is skipped because an "
                                        "earlier walk (from another start, with another trace) found nothing below it, "
                                        "but that walk skipped references to rules on ITS trace - a cycle that does not "
                                        "pass through the first start (a = b; b = c; c = b) is then never reported"
                                        % hirq.expr_text(y["recv"])[:30])
            if not visited:
                r.violation(key + ":visited", where(n),
                            "the recursion through a rule reference is not guarded by `!trace.contains(name)`: a "
                            "cycle that does not pass through the starting rule recurses until the stack "
                            "overflows (the validator itself does not terminate)")
        # push/pop pairing along every path
        pe = PathEnum(fn, inline_closures=False)
        bad = None
        npaths = 0
        for (ev, out) in exits(pe.paths()):
            depth = 0
            rec_after_push = False
            pushes = 0
            for e in ev:
                if e.kind != "call":
                    continue
                cal = callee(e.node)
                if cal == "alloc::vec::Vec::push" and is_trace(e.node["recv"]):
                    depth += 1
                    pushes += 1
                elif cal == "alloc::vec::Vec::pop" and is_trace(e.node["recv"]):
                    depth -= 1
                elif cal == fnpath and depth > 0:
                    rec_after_push = True
            if pushes:
                npaths += 1
            if rec_after_push and depth != 0:
                bad = ev
        r.instance(fnpath.split("::")[-1] + ":pairing", where(fn["body"]), "%d paths push the trace" % npaths)
        if bad is not None:
            r.violation(fnpath.split("::")[-1] + ":pairing", where(fn["body"]),
                        "a path pushes a rule on the trace, recurses, and returns without popping it: the trace is "
                        "also the visited set and `trace.last()`, so later siblings are analysed against the wrong "
                        "rule and left recursion behind an already-visited guard goes unreported")


def trace_entry(rep, meta, sfx):
    r = rep.rule("C06.TRACE-ENTRY" + sfx, 5,
                 "every top-level question `is_non_failing / is_non_progressing(expr)` asked by a validation pass starts "
                 "from an empty trace: the helpers answer `false` for a rule already on the trace, so a pre-loaded trace "
                 "silently accepts a nullable rule repeated inside its own definition")
    # the one place that may seed the trace: the left-recursion walk asks about the rule it is standing in
    seeded_ok = {CHECK: "seeds the trace with trace.last(): reaching the current rule again is left recursion, "
                        "reported by the walk itself"}
    chk = meta.fn(CHECK)
    if chk is not None and chk.get("impl_self"):
        # the walk as methods of a search object: its helper methods ask on the walk's behalf
        for f in meta.bodies:
            if f.get("impl_self") == chk["impl_self"] and not f.get("impl_trait"):
                seeded_ok.setdefault(f["path"], seeded_ok[CHECK])
    for fn in meta.bodies:
        if "::tests::" in fn["path"] or fn.get("exp") or fn["path"] in (NP, NF):
            continue
        lets = hirq.lets(fn["body"])
        modes = hirq.binding_modes(fn)
        for n in walk(fn["body"]):
            if kind(n) == "Call" and callee(n) in (NP, NF):
                key = "%s->%s" % (fn["path"].replace("pest_meta::validator::", ""), callee(n).split("::")[-1])
                if fn["path"] in seeded_ok:
                    r.instance(key + ":seeded", where(n), seeded_ok[fn["path"]])
                    continue
                r.instance(key, where(n))
                a = peel(n["args"][-1])
                d = 0
                while d < 6 and kind(a) == "Path" and a.get("res") == "local" and a["id"] in lets:
                    if modes.get(a["id"]) and any(
                            hirq.local_id(x.get("recv", {})) == a["id"] for x in walk(fn["body"])
                            if kind(x) == "MethodCall" and x.get("m") in ("push", "extend", "insert", "append")):
                        break
                    a = peel(lets[a["id"]][0])
                    d += 1
                if not (kind(a) == "Call" and callee(a) in ("alloc::vec::Vec::new", "core::default::Default::default",
                                                             "alloc::vec::Vec::with_capacity")):
                    r.violation(key, where(n),
                                "%s asks %s with a trace that is not freshly empty (%s): e.g. "
                                "`list = { (\"[\" ~ list* ~ \"]\")? }` is then accepted and `list*` iterates forever on "
                                "the empty match" % (fn["name"], callee(n).split("::")[-1], hirq.expr_text(n["args"][-1])[:80]))


def conj(n):
    n = peel(n)
    if kind(n) == "Binary" and n["op"] == "&&":
        return conj(n["l"]) + conj(n["r"])
    return [n]


# ------------------------------------------------------------------ RESOLVE

def resolve(rep, meta, sfx):
    r = rep.rule("C06.RESOLVE" + sfx, 3,
                 "in the rule-reference case of the validator's recursions nothing but a test for a reserved "
                 "keyword may answer before the grammar's own rule of that name is looked up (the back-ends run the "
                 "user's rule for every non-keyword name)")
    kw = meta.fn("pest_meta::validator::PEST_KEYWORDS")
    keywords = set()
    if kw is not None:
        for x in walk(kw["body"]):
            if kind(x) == "Array":
                vals = x.get("lits") or [hirq.lit_value(e) for e in x.get("elems", [])]
                keywords |= set(v for v in vals if isinstance(v, str))
    if not keywords:
        r.lost("validator::PEST_KEYWORDS")
        return
    for fnpath in (CHECK, NP, NF):
        fn = meta.fn(fnpath)
        if fn is None:
            r.lost(fnpath)
            continue
        ms = traverse.enum_matches(fn, PEXPR)
        m = max(ms, key=lambda x: len(x["arms"]))
        arm = None
        for a in m["arms"]:
            if PEXPR + "::Ident" in hirq.pat_variants(a["pat"]):
                arm = a
        if arm is None:
            r.lost("Ident arm of " + fnpath)
            continue
        ctx = hirq.Ctx(fn)
        lookups = [x for x in walk(arm["body"]) if kind(x) == "MethodCall" and x["m"] == "get" and "HashMap" in x.get("rty", "")]
        key = fnpath.split("::")[-1]
        r.instance(key, where(arm["body"]))
        if not lookups:
            r.violation(key + ":lookup", where(arm["body"]), "the rule-reference case no longer looks the name up in the grammar")
            continue
        lk = lookups[0]
        # early answers: `if c { return .. }` statements of the arm body that precede the lookup
        for g in ctx.guards(lk):
            if g[0] != "not":
                continue
            lits = [x.get("v") for x in walk(g[1]) if kind(x) == "Lit" and x.get("lk") == "str"]
            cmp_only = all(kind(x) != "MethodCall" or x["m"] in ("eq", "ne") for x in walk(g[1]))
            nonkw = [l for l in lits if l not in keywords]
            tparams = set(p["id"] for p in fn["params"] if p.get("k") == "PBind" and "Vec<alloc::string::String>" in p.get("ty", ""))
            # membership in the trace (names of user rules that were looked up and entered) is not a classification table
            uses_table = any(kind(x) == "MethodCall" and x["m"] in ("contains", "contains_key", "binary_search")
                             and hirq.local_id(x["recv"]) not in tparams for x in walk(g[1]))
            # `trace[0] == other` (left recursion found) compares two names, no literal: not an early *classification*
            if not lits and not uses_table:
                continue
            if nonkw or uses_table or not cmp_only:
                r.violation(key + ":early-answer", where(g[1]),
                            "`%s` answers before the grammar's own rule is looked up, for names that are not "
                            "reserved keywords: a user rule named like a built-in (NEWLINE, LETTER, ..) is judged as "
                            "the built-in while both back-ends run the user's rule, so an empty-matching body "
                            "slips through the repetition / left-recursion checks" % hirq.expr_text(g[1]))


# ------------------------------------------------------------------ WIRING

def wiring(rep, meta, f, sfx):
    r = rep.rule("C06.WIRING" + sfx, 9,
                 "validate_ast runs the four validators; consume_rules returns rules only when validate_ast "
                 "returned no errors; every entry point validates before it optimizes")
    va = meta.fn("pest_meta::validator::validate_ast")
    if va is None:
        r.lost("validator::validate_ast")
        return
    called = hirq.called_paths(va["body"])
    reach = hirq.CallGraph([meta]).reachable([va["path"]])
    for v in ("validate_repetition", "validate_choices", "validate_whitespace_comment", "validate_left_recursion"):
        p = "pest_meta::validator::" + v
        r.instance("validate_ast:" + v, where(va["body"]))
        ok = p in called or p in reach
        if not ok and v == "validate_left_recursion":
            # the wrapper may have been merged into validate_ast: what matters is that the left-recursion walk runs
            ok = CHECK in reach
        if not ok:
            r.violation("validate_ast:" + v, where(va["body"]), "validate_ast no longer runs %s" % v)
    # validate_repetition inspects the unbounded repetitions
    vr = meta.fn("pest_meta::validator::validate_repetition")
    if vr is not None:
        seen = set()
        for n in walk(vr["body"]):
            if kind(n) == "Match" and PEXPR in n.get("sty", ""):
                for arm in n["arms"]:
                    seen |= set(v.split("::")[-1] for v in hirq.pat_variants(arm["pat"]))
            # the same selection as `if let` / `let .. else` / `matches!`
            if n.get("k") in ("Let", "LetExpr") and isinstance(n.get("pat"), dict):
                seen |= set(str(v).split("::")[-1] for v in hirq.pat_variants(n["pat"]) if str(v).startswith(PEXPR + "::"))
        for v in ("Rep", "RepOnce", "RepMin"):
            r.instance("unbounded:" + v, where(vr["body"]))
            if v not in seen:
                r.violation("unbounded:" + v, where(vr["body"]), "validate_repetition no longer inspects %s "
                            "(an unbounded repetition)" % v)
    vw = meta.fn("pest_meta::validator::validate_whitespace_comment")
    if vw is not None:
        lits = set(x.get("v") for x in walk(vw["body"]) if kind(x) == "Lit" and x.get("lk") == "str")
        for nm in ("WHITESPACE", "COMMENT"):
            r.instance("special:" + nm, where(vw["body"]))
            if nm not in lits:
                r.violation("special:" + nm, where(vw["body"]), "%s is no longer validated as the body of the "
                            "implicit repetition" % nm)
    # consume_rules: Ok only under errors.is_empty()
    cr = meta.fn("pest_meta::parser::consume_rules")
    if cr is None:
        r.lost("parser::consume_rules")
    else:
        pe = PathEnum(cr)
        okpaths = 0
        for (ev, out) in exits(pe.paths()):
            v = hirq.path_value(ev)
            v = peel(v) if v is not None else None
            if v is not None and kind(v) == "Call" and callee(v) == "core::result::Result::Ok":
                okpaths += 1
                vi = hirq.index_of(ev, lambda e: e.kind == "call" and callee(e.node) == "pest_meta::validator::validate_ast")
                ci = hirq.index_of(ev, lambda e: e.kind == "cond" and any(
                    kind(x) == "MethodCall" and x["m"] == "is_empty" for x in walk(e.node)) and e.extra is True)
                if vi < 0 or ci < vi:
                    r.violation("consume_rules:gate", where(cr["body"]), "consume_rules can return rules without "
                                "validate_ast having returned an empty error list")
        r.instance("consume_rules:gate", where(cr["body"]), "%d Ok paths" % okpaths)
    # entry points: optimize is preceded by validate_pairs and consume_rules
    crates = [meta]
    gen = f.crate("pest_generator", want_feature="grammar-extras" if sfx else None)
    if gen is not None:
        crates.append(gen)
    for c in crates:
        for b in c.bodies:
            calls = [(callee(n), n) for n in walk(b["body"]) if kind(n) == "Call"]
            opt = [n for (cal, n) in calls if cal == "pest_meta::optimizer::optimize"]
            if not opt or b["path"].startswith("pest_meta::optimizer::"):
                continue
            pe = PathEnum(b, max_paths=400000)
            try:
                paths = pe.paths()
            except hirq.TooManyPaths:
                r.violation("entry:%s:too-many-paths" % b["path"], where(b["body"]), "cannot enumerate paths")
                continue
            bad = False
            for (ev, out) in paths:
                oi = hirq.index_of(ev, lambda e: e.kind == "call" and callee(e.node) == "pest_meta::optimizer::optimize")
                if oi < 0:
                    continue
                pre = [callee(e.node) for e in ev[:oi] if e.kind == "call"]
                if "pest_meta::validator::validate_pairs" not in pre or "pest_meta::parser::consume_rules" not in pre:
                    bad = True
            r.instance("entry:" + b["path"], where(opt[0]))
            if bad:
                r.violation("entry:" + b["path"], where(opt[0]), "a path reaches optimize() without validate_pairs "
                            "and consume_rules (validate_ast) before it: unvalidated grammars reach the back-ends")


# ------------------------------------------------------------------ MINZERO (acceptance half)

def minzero(rep, meta, sfx):
    r = rep.rule("C06.MINZERO" + sfx, 1,
                 "a lower bound of zero is legal: the reader rejects a zero count only where the count is an exact or an "
                 "upper bound (e{0}, e{,0}, e{m,0}); `e{0,}` is `e*` and must be accepted when e begins by consuming a "
                 "character")
    PE_ = "pest_meta::parser::ParserExpr"
    n = 0
    for fn in meta.bodies:
        if fn.get("exp") or not fn["path"].startswith("pest_meta::parser::") or "::grammar::" in fn["path"] or fn.get("body") is None:
            continue
        ctx = hirq.Ctx(fn)
        for x in walk(fn["body"]):
            if kind(x) == "Call" and callee(x) == PE_ + "::RepMin" and len(x["args"]) >= 2:
                n += 1
                cnt = hirq.local_id(x["args"][1])
                r.instance("RepMin", where(x))
                for g in ctx.guards(x):
                    cnd = peel(g[1]) if g[0] in ("not", "if") else None
                    if cnd is None or kind(cnd) != "Binary":
                        continue
                    zero_test = cnd["op"] == "==" and hirq.lit_value(cnd["r"]) == 0 and hirq.local_id(cnd["l"]) == cnt
                    pos_test = cnd["op"] in ("!=", ">") and hirq.lit_value(cnd["r"]) == 0 and hirq.local_id(cnd["l"]) == cnt
                    if (g[0] == "not" and zero_test) or (g[0] == "if" and g[2] is True and pos_test) or (g[0] == "if" and g[2] is False and zero_test):
                        r.violation("RepMin", where(cnd), "`e{0,}` is rejected (the zero test that belongs to upper bounds is "
                                    "applied to the lower bound of e{n,}): a well-formed grammar is refused")
    if n == 0:
        r.lost("construction site of ParserExpr::RepMin in the reader")


# ------------------------------------------------------------------ ALLRULES

def allrules(rep, meta, sfx):
    r = rep.rule("C06.ALLRULES" + sfx, 1,
                 "a validation pass that asks the nullability questions per rule looks at EVERY rule of the grammar: the "
                 "iterator chain over the rule list it is given contains no selector that can stop early or drop rules "
                 "(find, find_map, position, next, nth, take, take_while, skip, step_by, first, last) - both WHITESPACE and "
                 "COMMENT sit in the implicit repetition, so checking only the first of them found accepts "
                 "`COMMENT = _{ !\"x\" }` after a harmless WHITESPACE and parsing loops forever")
    CUT = ("find", "find_map", "position", "next", "nth", "take", "take_while", "skip", "skip_while", "step_by", "first",
           "last", "rfind", "rposition", "next_back", "nth_back", "map_while")
    n = 0
    for fn in meta.bodies:
        if not fn["path"].startswith("pest_meta::validator::") or "::tests::" in fn["path"] or fn.get("exp") or fn.get("body") is None:
            continue
        if not any(kind(x) == "Call" and callee(x) in (NP, NF) for x in walk(fn["body"])):
            continue
        lists = set(p["id"] for p in fn["params"] if p.get("k") == "PBind" and ("[" in str(p.get("ty", "")) or "Vec<" in str(p.get("ty", "")))
                    and "ParserRule" in str(p.get("ty", "")))
        # locals that are just another name for the list (the parameter of a helper inlined into this function)
        lets_a = hirq.lets(fn["body"])
        grew = True
        while grew:
            grew = False
            for lid, (init, st) in lets_a.items():
                if lid not in lists and init is not None and hirq.local_id(init) in lists:
                    lists.add(lid)
                    grew = True
        if not lists:
            continue
        n += 1
        key = fn["path"].replace("pest_meta::validator::", "")
        r.instance(key, where(fn["body"]))
        for x in walk(fn["body"]):
            if kind(x) == "MethodCall" and x["m"] in CUT:
                root = x["recv"]
                hops = 0
                while kind(peel(root)) == "MethodCall" and hops < 12:
                    root = peel(root)["recv"]
                    hops += 1
                if hirq.local_id(root) in lists:
                    r.violation(key + ":" + x["m"], where(x),
                                "%s selects from the rule list with `%s` before asking about the rules: rules after the first "
                                "hit are never examined" % (fn["name"], x["m"]))
        # the same for a loop over the list that is left early
        for lp in [x for x in walk(fn["body"]) if kind(x) == "Loop" and x.get("src") == "ForLoop"]:
            for y in walk(lp["body"]):
                if kind(y) == "Break" and y.get("target") == lp.get("id") and not hirq.is_desugar(y):
                    r.violation(key + ":break", where(y), "%s leaves its loop over the rules early" % fn["name"])
    if n == 0:
        r.lost("validation passes over the rule list that ask is_non_failing / is_non_progressing")


# ------------------------------------------------------------------ TRIVIA (implicit calls inside `!` rules)

def trivia_nonatomic(rep, meta, sfx):
    """WHITESPACE and COMMENT bodies run atomically (C02.RULE), which is why the validator may ignore the implicit trivia
    calls when it looks for recursion.  A `!` (non-atomic) rule *called from* a trivia rule switches implicit skipping
    back on: inside it every sequence / repetition junction calls WHITESPACE again without consuming anything."""
    r = rep.rule("C06.TRIVIA" + sfx, 1,
                 "the validation that guarantees termination takes the rule modifiers into account: a non-atomic (`!`) rule "
                 "reachable from WHITESPACE / COMMENT re-enables implicit skipping inside the trivia body, so its junctions "
                 "are calls of WHITESPACE that the left-recursion walk must see - a validator that never looks at a rule's "
                 "type cannot exclude `WHITESPACE = { \" \" | c }  c = !{ \"a\"? ~ \"b\" }`")
    va = meta.fn("pest_meta::validator::validate_ast")
    if va is None:
        r.lost("validator::validate_ast")
        return
    reach = hirq.CallGraph([meta]).reachable([va["path"]]) | {va["path"]}
    looks = []
    for p in sorted(reach):
        fn = meta.fn(p)
        if fn is None or fn.get("body") is None or not p.startswith("pest_meta::validator::"):
            continue
        for x in walk(fn["body"]):
            if kind(x) == "Field" and x["name"] == "ty" and "ParserRule" in str(x.get("bty", "")):
                looks.append((fn, x))
            if kind(x) == "Path" and str(x.get("path", "")).startswith("pest_meta::ast::RuleType::"):
                looks.append((fn, x))
            if x.get("k") in ("PPath", "PStruct", "PTupleStruct") and str(x.get("path", "")).startswith("pest_meta::ast::RuleType::"):
                looks.append((fn, x))
    r.instance("ruletype-consulted", where(va["body"]), "%d places" % len(looks))
    if not looks:
        r.violation("ruletype-ignored", where(va["body"]),
                    "no validation pass reads a rule's modifier: recursion through the implicit WHITESPACE/COMMENT calls "
                    "inside a `!` rule that a trivia rule refers to is accepted and overflows the stack at parse time")
