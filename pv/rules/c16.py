"""C16 — Unicode property rules are consistent for every code point (DESIGN.md section 4, C16).

Decided exhaustively: everything is a statement about constant tables and name lists.
  NAMES      every advertised name has a function, a BY_NAME entry whose upper-cased key is the name,
             and both read the same TrieSet constant; no duplicate keys
  LOOKUP     unicode::by_name's search algorithm is sound for the constant tables (linear scan, or a
             binary search whose comparison order the tables are actually sorted by)
  ACCESS     validator, generator and VM use the advertised list / by_name, and no hard-wired arm maps a
             property name to a different property function
  PARTITION  over all 1,112,064 scalar values: the 30 two-letter categories partition, each grouped
             category is the union of its members, scripts are pairwise disjoint
Nothing of pest is executed: the tries are decoded from the source constants (layout of ucd-trie 0.1.7).
"""
from .. import facts, hirq
from ..hirq import walk, kind, callee, where, peel

LEVEL = "proof"
U = "pest::unicode"

MANIFEST = {
    "technique": "exhaustive evaluation of source constants: TrieSet tables decoded to bitsets over all code "
                 "points (set algebra on big integers), name-list / table / function cross-reference through "
                 "resolved paths, precondition check of the lookup algorithm against the constant tables",
    "text": "Exhaustive over the finite space: all 1,112,064 scalar values x all advertised property names. The "
            "partition, union and disjointness clauses are decided by set algebra on the decoded tables; the "
            "agreement of the three access paths is decided by showing that the function of a name, its by_name "
            "entry and the generated/VM built-in all resolve to the same table constant, and that by_name's "
            "search finds every advertised key.",
    "note": "Trusted: the three-level layout of ucd-trie 0.1.7's TrieSetSlice::contains (transcribed, 20 lines) and "
            "rustc's constant resolution. The grouping table (L = Lu|Ll|Lt|Lm|Lo, ...) is UAX #44.",
}

GROUPS = {
    "LETTER": ["UPPERCASE_LETTER", "LOWERCASE_LETTER", "TITLECASE_LETTER", "MODIFIER_LETTER", "OTHER_LETTER"],
    "CASED_LETTER": ["UPPERCASE_LETTER", "LOWERCASE_LETTER", "TITLECASE_LETTER"],
    "MARK": ["NONSPACING_MARK", "SPACING_MARK", "ENCLOSING_MARK"],
    "NUMBER": ["DECIMAL_NUMBER", "LETTER_NUMBER", "OTHER_NUMBER"],
    "PUNCTUATION": ["CONNECTOR_PUNCTUATION", "DASH_PUNCTUATION", "OPEN_PUNCTUATION", "CLOSE_PUNCTUATION",
                    "INITIAL_PUNCTUATION", "FINAL_PUNCTUATION", "OTHER_PUNCTUATION"],
    "SYMBOL": ["MATH_SYMBOL", "CURRENCY_SYMBOL", "MODIFIER_SYMBOL", "OTHER_SYMBOL"],
    "SEPARATOR": ["SPACE_SEPARATOR", "LINE_SEPARATOR", "PARAGRAPH_SEPARATOR"],
    "OTHER": ["CONTROL", "FORMAT", "SURROGATE", "PRIVATE_USE", "UNASSIGNED"],
}
TWO_LETTER = sorted(set(x for v in GROUPS.values() for x in v))
ALL_CP = (1 << 0x110000) - 1
SURR = ((1 << 0xE000) - 1) ^ ((1 << 0xD800) - 1)
SCALARS = ALL_CP ^ SURR


def arr_values(n):
    n = peel(n)
    if kind(n) != "Array":
        return None
    if "lits" in n:
        return n["lits"]
    return [hirq.lit_value(e) for e in n["elems"]]


def decode_trie(st):
    """Struct literal of a TrieSet -> bitset (python int) over 0..0x10FFFF."""
    f = {x["name"]: arr_values(x["e"]) for x in st["fields"]}
    need = ["tree1_level1", "tree2_level1", "tree2_level2", "tree3_level1", "tree3_level2", "tree3_level3"]
    if any(f.get(k) is None for k in need):
        return None
    bits = 0
    # < 0x800: 32 chunks
    t1 = f["tree1_level1"]
    for i in range(0x800 >> 6):
        ch = t1[i] if i < len(t1) else 0
        if ch:
            bits |= ch << (i << 6)
    # 0x800..0x10000
    l1, l2 = f["tree2_level1"], f["tree2_level2"]
    for i in range(0x800 >> 6, 0x10000 >> 6):
        j = i - 0x20
        if j < len(l1):
            ch = l2[l1[j]]
            if ch:
                bits |= ch << (i << 6)
    # >= 0x10000
    a1, a2, a3 = f["tree3_level1"], f["tree3_level2"], f["tree3_level3"]
    for i in range(0x10000 >> 6, 0x110000 >> 6):
        k1 = (i >> 6) - 0x10
        if k1 < len(a1):
            child = a1[k1]
            leaf = a2[child * 64 + (i & 0x3f)]
            ch = a3[leaf]
            if ch:
                bits |= ch << (i << 6)
    return bits


def run(rep, tier):
    rep.explanation = (
        "TrieSet constants are decoded into Python integers used as bitsets over all 0x110000 code points; the "
        "category/script clauses are then bitwise identities checked exhaustively. Name agreement is checked "
        "through rustc-resolved constant paths, not through text.")
    rep.extra["exhaustive"] = True
    rep.configs = ["default"]
    f = facts.facts("default")
    c = f.crate("pest")
    names, consts, byname = names_rule(rep, c)
    lookup(rep, c, byname)
    # "every advertised name resolves" in the configuration without default features as well: the tables and the list of
    # advertised names are not feature-gated, so the lookup must not be either
    f2 = facts.facts("nomemchr")
    c2 = f2.crate("pest") if f2 is not None else None
    if c2 is not None:
        rep.configs = ["default", "nomemchr"]
        lookup(rep, c2, byname, "@nomemchr")
    access(rep, f, c, names)
    opaque(rep, f)
    if names:
        partition(rep, c, names, consts)


def names_rule(rep, c):
    r = rep.rule("C16.NAMES", 259,
                 "every advertised property name has a function pest::unicode::NAME, a BY_NAME entry with that "
                 "upper-cased key, and both read the same TrieSet constant; keys are unique across the three tables")
    lists = {}
    for b in c.bodies:
        if b["path"].startswith(U + "::") and b["path"].endswith("_PROPERTY_NAMES") and b["dk"].startswith("Static"):
            vals = arr_values(b["body"])
            if vals is not None:
                lists[b["path"].split("::")[-1]] = vals
    if len(lists) < 3:
        r.lost("the three *_PROPERTY_NAMES lists (found %s)" % sorted(lists))
        return None, None, None
    names = [n for k in sorted(lists) for n in lists[k]]
    if len(set(names)) != len(names):
        dup = sorted(set(n for n in names if names.count(n) > 1))
        r.violation("duplicate-advertised", "", "names advertised twice: %s" % dup)
    # functions
    fn_const = {}
    aliases = {}
    for b in c.bodies:
        if b["dk"] == "Fn" and b["path"].startswith(U + "::") and b["path"].count("::") == 2 and b.get("output") == "bool":
            cs = [x for x in walk(b["body"]) if kind(x) == "Path" and x.get("res") == "def" and x.get("dk", "").startswith("Const")]
            ok = [x for x in walk(b["body"]) if kind(x) == "MethodCall" and x["m"] == "contains_char"]
            if len(cs) == 1 and ok:
                fn_const[b["name"]] = cs[0]["path"]
            elif not cs:
                # an alias: `pub fn NAME(c) -> bool { OTHER(c) }`
                tgt = [callee(x) for x in walk(b["body"]) if kind(x) == "Call" and str(callee(x)).startswith(U + "::")
                       and str(callee(x)).count("::") == 2]
                if len(tgt) == 1:
                    aliases[b["name"]] = tgt[0].split("::")[-1]
    for a, tgt in sorted(aliases.items()):
        if tgt in fn_const:
            fn_const[a] = fn_const[tgt]
    # BY_NAME tables
    byname = {}
    for mod in ("binary", "category", "script"):
        b = c.fn("%s::%s::BY_NAME" % (U, mod))
        if b is None:
            r.lost("%s::BY_NAME" % mod)
            continue
        arr = peel(b["body"])
        ents = []
        for e in arr.get("elems", []):
            e = peel(e)
            if kind(e) == "Tup" and len(e["elems"]) == 2:
                ents.append((hirq.lit_value(e["elems"][0]), peel(e["elems"][1]).get("path")))
        byname[mod] = ents
    flat = [(k, p, mod) for mod in ("binary", "category", "script") for (k, p) in byname.get(mod, [])]
    upper = {}
    for (k, p, mod) in flat:
        if k is None:
            continue
        ku = k.upper()
        if ku in upper and upper[ku][0] != p:
            r.violation("ambiguous-key:" + ku, "", "two BY_NAME entries upper-case to %s and name different tables "
                        "(%s, %s): by_name returns the first" % (ku, upper[ku][0], p))
        upper.setdefault(ku, (p, mod, k))
    for n in names:
        r.instance(n, "", "fn -> %s" % fn_const.get(n))
        if n not in fn_const:
            r.violation("no-function:" + n, "", "advertised name %s has no function pest::unicode::%s reading a "
                        "table" % (n, n))
            continue
        if n not in upper:
            r.violation("unresolved:" + n, "", "advertised name %s has no BY_NAME entry: the validator accepts it, "
                        "generated code works, the VM panics with `undefined rule`" % n)
            continue
        if upper[n][0] != fn_const[n]:
            r.violation("different-table:" + n, "", "by_name(%s) reads %s but pest::unicode::%s reads %s" % (
                n, upper[n][0], n, fn_const[n]))
        if not fn_const[n].endswith("::" + n) and n not in aliases:
            r.violation("function-table:" + n, "", "function %s reads table %s" % (n, fn_const[n]))
    # unicode_property_names chains exactly the three lists
    upn = c.fn(U + "::unicode_property_names")
    if upn is None:
        r.lost("unicode_property_names")
    else:
        used = set(x["path"].split("::")[-1] for x in walk(upn["body"]) if kind(x) == "Path" and x.get("res") == "def"
                   and x.get("path", "").endswith("_PROPERTY_NAMES"))
        if used != set(lists):
            r.violation("names-fn", where(upn["body"]), "unicode_property_names chains %s, the lists are %s" % (
                sorted(used), sorted(lists)))
    consts = {}
    for n in names:
        if n in fn_const:
            consts[n] = fn_const[n]
    return names, consts, byname


def lookup(rep, c, byname, sfx=""):
    r = rep.rule("C16.LOOKUP" + sfx, 3,
                 "unicode::by_name finds every key of the three BY_NAME tables: it is a linear scan comparing the "
                 "upper-cased key, or a binary search over tables that are sorted in the order it compares by")
    fn = c.fn(U + "::by_name")
    if fn is None or not byname:
        r.lost("unicode::by_name")
        return
    cg = hirq.CallGraph([c])
    reach = cg.reachable([fn["path"]])
    bodies = [c.fn(p) for p in reach if c.fn(p) is not None and p.startswith(U)]
    tables_used = set()
    for b in bodies:
        for x in walk(b["body"]):
            if kind(x) == "Path" and x.get("res") == "def" and x.get("path", "").endswith("::BY_NAME"):
                tables_used.add(x["path"].split("::")[-2])
    for mod in ("binary", "category", "script"):
        r.instance("table:" + mod, where(fn["body"]))
        if mod not in tables_used:
            r.violation("table:" + mod, where(fn["body"]), "by_name does not consult %s::BY_NAME: its names never "
                        "resolve" % mod)
    bs = []
    for b in bodies:
        for x in walk(b["body"]):
            if kind(x) == "MethodCall" and x["m"].startswith("binary_search"):
                bs.append((b, x))
    if bs:
        # ordering the search compares by: derive the key transformation from the closure
        for (b, x) in bs:
            txt = " ".join(callee(y) or "" for y in walk(x) if kind(y) in ("MethodCall", "Call") and isinstance(callee(y), str))
            if "to_ascii_uppercase" in txt or "to_uppercase" in txt:
                keyf = lambda s: s.upper().encode()
                kname = "upper-cased bytes"
            elif "to_ascii_lowercase" in txt or "to_lowercase" in txt:
                keyf = lambda s: s.lower().encode()
                kname = "lower-cased bytes"
            else:
                keyf = lambda s: s.encode()
                kname = "bytes"
            for mod, ents in byname.items():
                keys = [keyf(k) for (k, p) in ents if k is not None]
                bad = [ents[i + 1][0] for i in range(len(keys) - 1) if keys[i] >= keys[i + 1]]
                r.instance("sorted:%s" % mod, where(x), "binary search by %s" % kname)
                if bad:
                    r.violation("sorted:%s" % mod, where(x),
                                "by_name binary-searches %s::BY_NAME comparing %s, but the table is not sorted in "
                                "that order (out of order at %s): those names do not resolve although they are "
                                "advertised and accepted by the validator" % (mod, kname, bad[:8]))
        return
    # linear scan (loops, or an iterator chain with find / position / any): every comparison of the requested name with
    # a table key folds the key's case the way the advertised names are spelled
    comps = []
    for b in bodies:
        for x in walk(b["body"]):
            is_cmp = (kind(x) == "Binary" and x["op"] == "==") or (
                kind(x) == "MethodCall" and (x.get("path") == "core::cmp::PartialEq::eq" or x["m"] == "eq_ignore_ascii_case"))
            if not is_cmp:
                continue
            tys = [y.get("ty", "") for y in walk(x) if kind(y) in ("Path", "Field", "MethodCall")]
            if not any("str" in ty or "String" in ty for ty in tys):
                continue
            t2 = " ".join(str(callee(y) or "") + " " + str(y.get("m", "")) for y in walk(x) if kind(y) in ("MethodCall", "Call"))
            folded = any(w in t2 for w in ("to_uppercase", "to_ascii_uppercase", "eq_ignore_ascii_case"))
            comps.append((x, folded))
    r.instance("scan", where(fn["body"]), "%d name comparisons, %d case-folded" % (len(comps), sum(1 for c2 in comps if c2[1])))
    if not comps:
        r.lost("by_name lookup idiom (neither a scan comparing names nor a binary search)")
    for (x, folded) in comps:
        if not folded:
            r.violation("scan:unfolded", where(x), "by_name compares the requested name with a table key without folding "
                        "the key's case: the tables spell keys in mixed case, the advertised names are upper case, so "
                        "those names do not resolve")


FRAGMENT_TESTS = ("strip_suffix", "strip_prefix", "ends_with", "starts_with", "contains", "find", "rfind", "split_once",
                  "rsplit_once", "trim_end_matches", "trim_start_matches")


def name_fragment_tests(body):
    """calls that look inside a string for a fragment (suffix / prefix / substring tests) with a str receiver"""
    out = []
    for x in walk(body):
        if kind(x) == "MethodCall" and x["m"] in FRAGMENT_TESTS and str(x.get("path", "")).startswith(
                ("core::str::", "alloc::string::String", "alloc::str::")):
            out.append(x)
    return out


def opaque(rep, f):
    r = rep.rule("C16.OPAQUE", 0,
                 "rule and property names are opaque keys to the optimizer shared by both back-ends: no pass of "
                 "pest_meta::optimizer looks inside a name for a prefix, suffix or substring.  A rewrite that reasons "
                 "from the spelling of a name (`X_MARK` is a kind of `MARK`) changes what a choice of built-in "
                 "properties matches - QUOTATION_MARK and PREPENDED_CONCATENATION_MARK are binary properties, disjoint "
                 "from the category group MARK - while the functions and by_name still give the table's answer")
    probe = {"k": "Block", "stmts": [], "expr": {"k": "MethodCall", "m": "strip_suffix", "path": "core::str::<impl str>::strip_suffix",
                                                 "recv": {"k": "Path"}, "args": []}}
    if len(name_fragment_tests(probe)) != 1:
        r.lost("self-test of the fragment-test detector")
        return
    meta = f.crate("pest_meta")
    if meta is None:
        r.lost("pest_meta facts")
        return
    n = 0
    for b in meta.bodies:
        if not str(b.get("path", "")).startswith("pest_meta::optimizer::") or "::tests::" in str(b.get("path", "")) \
                or b.get("body") is None or b.get("exp"):
            continue
        n += 1
        for x in name_fragment_tests(b["body"]):
            key = "%s:%s" % (b["path"].replace("pest_meta::optimizer::", ""), x["m"])
            r.violation(key, where(x), "optimizer pass %s tests a name with `%s`: a rewrite decided by a fragment of an "
                        "identifier's spelling treats unrelated properties as related (e.g. MARK | QUOTATION_MARK rewritten to "
                        "MARK), so the built-in rule no longer matches what pest::unicode::NAME and by_name answer"
                        % (b["path"].split("::")[-1], hirq.expr_text(x)[:50]))
    r.note("%d optimizer functions scanned" % n)
    if n < 10:
        r.lost("functions of pest_meta::optimizer (found %d)" % n)


def access(rep, f, c, names):
    from . import c02
    r = rep.rule("C16.ACCESS", 5,
                 "the validator's BUILTINS and the generator's loop use unicode_property_names(); the VM falls back "
                 "to unicode::by_name; no string-literal arm or template maps a property name to another "
                 "property's function; no advertised name collides with a hard-wired built-in")
    meta = f.crate("pest_meta")
    gen = f.crate("pest_generator")
    vm = f.crate("pest_vm")
    NAMESFN = U + "::unicode_property_names"
    if meta is not None:
        b = meta.fn("pest_meta::validator::BUILTINS")
        ok = b is not None and any(callee(x) == NAMESFN for x in walk(b["body"]) if kind(x) == "Call")
        r.instance("validator", where(b["body"]) if b else "")
        if not ok:
            r.violation("validator", where(b["body"]) if b else "", "validator BUILTINS no longer includes "
                        "unicode_property_names(): advertised names are rejected as undefined rules")
    # generator template for property built-ins: the emitted function and the unicode function it calls carry
    # the same interpolated name
    try:
        from .. import synx
        macros = synx.extract(["generator/src/generator.rs"])["generator/src/generator.rs"]
        tm = [m for m in macros if m["macro"] == "quote" and m["fn"] == c02.gen_name(gen, "generate_builtin_rules") and "unicode" in m.get("raw", "")]
        r.instance("generator-template", "generator/src/generator.rs:%s" % (tm[0]["line"] if tm else "?"))
        import re as _re
        okt = False
        if tm:
            raw = tm[0]["raw"]
            f1 = _re.search(r"fn\s*#\s*(\w+)", raw)
            f2 = _re.search(r"pest\s*::\s*unicode\s*::\s*#\s*(\w+)", raw)
            okt = bool(f1 and f2 and f1.group(1) == f2.group(1))
        if not okt:
            r.violation("generator-template", "generator/src/generator.rs", "the generated built-in for a Unicode "
                        "property does not call the pest::unicode function of the same name")
    except Exception as e:  # fail closed
        r.violation("generator-template:extract", "generator/src/generator.rs", "template extraction failed: %s" % e)
    if gen is not None:
        b = c02.gen_fn(gen, "generate_builtin_rules")
        ok = b is not None and any(callee(x) == NAMESFN for x in walk(b["body"]) if kind(x) == "Call")
        r.instance("generator", where(b["body"]) if b else "")
        if not ok:
            r.violation("generator", where(b["body"]) if b else "", "generator does not emit built-ins for "
                        "unicode_property_names()")
    # who may call by_name: the lookup tables hold properties pest does not advertise (BIDI_MIRRORED, INCB, ..), so the
    # front-end (validator, generator) must decide by the advertised list only; the VM's fallback runs after validation
    ncallers = 0
    for crate in (meta, gen):
        if crate is None:
            continue
        for fn in crate.bodies:
            if "::tests::" in fn["path"] or fn.get("body") is None:
                continue
            for x in walk(fn["body"]):
                if kind(x) in ("Call", "MethodCall") and callee(x) == U + "::by_name":
                    ncallers += 1
                    r.violation("by_name-caller:%s" % fn["path"], where(x),
                                "%s consults unicode::by_name: a name that is in the lookup tables but not in "
                                "unicode_property_names() (e.g. BIDI_MIRRORED) is then accepted by the front-end although "
                                "generated code has no such built-in" % fn["path"])
    r.instance("by_name-callers-in-front-end", "", str(ncallers))
    hard = set()
    if vm is not None:
        b = vm.fn("pest_vm::Vm::parse_rule")
        ok = b is not None and any(callee(x) == U + "::by_name" for x in walk(b["body"]) if kind(x) == "Call")
        r.instance("vm-fallback", where(b["body"]) if b else "")
        if not ok:
            r.violation("vm-fallback", where(b["body"]) if b else "", "the VM does not fall back to unicode::by_name")
        # string-literal arms referring to unicode functions
        nmis = 0
        for crate in (vm,):
            for fn in crate.bodies:
                for m in walk(fn["body"]):
                    if kind(m) != "Match":
                        continue
                    for arm in m["arms"]:
                        p = arm["pat"]
                        lits = [q.get("v") for q in walk(p) if q.get("k") == "PLit" and q.get("lk") == "str"]
                        if not lits:
                            continue
                        refs = set(x["path"].split("::")[-1] for x in walk(arm["body"]) if kind(x) == "Path" and x.get("res") == "def"
                                   and x.get("path", "").startswith(U + "::") and x.get("dk") == "Fn")
                        hard |= set(l for l in lits if l not in refs)
                        for x in walk(arm["body"]):
                            if kind(x) == "Path" and x.get("res") == "def" and x.get("path", "").startswith(U + "::") \
                                    and x.get("dk") == "Fn" and x["path"].count("::") == 2:
                                fnname = x["path"].split("::")[-1]
                                if fnname in names:
                                    nmis += 1
                                    if fnname not in lits:
                                        r.violation("arm:%s" % "|".join(lits), where(x),
                                                    "the arm for %s uses pest::unicode::%s: the VM built-in answers "
                                                    "for a different property than the function, by_name and "
                                                    "generated code" % (lits, fnname))
        r.instance("vm-arms", "", "%d literal arms referencing property functions" % nmis)
    clash = sorted(set(names) & hard) if names else []
    # hard-wired arms that are themselves property names must refer to the same function (checked above);
    # names hard-wired to non-unicode behaviour are a collision
    r.instance("collisions", "", str(clash))
    for nm in clash:
        r.violation("shadowed:" + nm, "", "the VM answers the advertised property name %s from a hard-wired arm instead "
                    "of unicode::by_name: for code points where that arm and the property table differ, the VM disagrees "
                    "with the function, by_name and generated code" % nm)
    # positive control for the arm matcher
    ctl = {"k": "Match", "arms": [{"pat": {"k": "PLit", "lk": "str", "v": "UPPERCASE_LETTER"},
                                   "body": {"k": "Path", "res": "def", "dk": "Fn", "path": U + "::UPPERCASE"}}]}
    hit = False
    for arm in ctl["arms"]:
        lits = [q.get("v") for q in walk(arm["pat"]) if q.get("k") == "PLit"]
        for x in walk(arm["body"]):
            if kind(x) == "Path" and x["path"].split("::")[-1] not in lits:
                hit = True
    if not hit:
        r.violation("positive-control", "", "arm matcher no longer recognises its control example")


def partition(rep, c, names, consts):
    r = rep.rule("C16.PARTITION", 39,
                 "over all scalar values: two-letter categories are pairwise disjoint and cover everything; grouped "
                 "categories equal the union of their members; scripts are pairwise disjoint")
    sets = {}
    for n, path in consts.items():
        b = c.fn(path)
        if b is None:
            continue
        st = peel(b["body"])
        if kind(st) != "Struct":
            continue
        bits = decode_trie(st)
        if bits is None:
            r.violation("decode:" + n, where(b["body"]), "table constant not understood")
            continue
        sets[n] = bits
    rep.extra["tables_decoded"] = len(sets)
    rep.extra["code_points"] = 0x110000
    missing = [n for n in TWO_LETTER + list(GROUPS) if n not in sets]
    if missing:
        r.lost("category tables %s" % missing)
        return
    # disjoint + cover
    acc = 0
    for n in TWO_LETTER:
        s = sets[n] & SCALARS
        r.instance("cat:" + n, "", "%d scalars" % bin(s).count("1"))
        inter = acc & s
        if inter:
            cp = (inter & -inter).bit_length() - 1
            other = [m for m in TWO_LETTER if m != n and (sets[m] >> cp) & 1]
            r.violation("overlap:" + n, "", "U+%04X is in %s and in %s: two general-category rules match the same "
                        "character" % (cp, n, other))
        acc |= s
    rest = SCALARS & ~acc
    if rest:
        cp = (rest & -rest).bit_length() - 1
        r.violation("uncovered", "", "U+%04X (and %d more scalars) is in no two-letter category" % (cp, bin(rest).count("1") - 1))
    for g, members in GROUPS.items():
        u = 0
        for m in members:
            u |= sets[m]
        d = (sets[g] ^ u) & SCALARS
        r.instance("group:" + g, "", "%d scalars" % bin(sets[g] & SCALARS).count("1"))
        if d:
            cp = (d & -d).bit_length() - 1
            r.violation("group:" + g, "", "%s differs from the union of %s at U+%04X (%d scalars)" % (
                g, members, cp, bin(d).count("1")))
    # scripts: names from the SCRIPT list
    lists = {}
    b = c.fn(U + "::SCRIPT_PROPERTY_NAMES")
    scripts = arr_values(b["body"]) if b else []
    acc = 0
    nscr = 0
    for n in scripts:
        if n not in sets:
            continue
        nscr += 1
        s = sets[n] & SCALARS
        inter = acc & s
        if inter:
            cp = (inter & -inter).bit_length() - 1
            other = [m for m in scripts if m != n and m in sets and (sets[m] >> cp) & 1]
            r.violation("script-overlap:" + n, "", "U+%04X is in scripts %s and %s" % (cp, n, other))
        acc |= s
    r.instance("scripts", "", "%d script tables pairwise disjoint" % nscr)
    if nscr < 100:
        r.lost("script tables (decoded %d)" % nscr)
    rep.extra["obligations_note"] = "each instance is a set identity over 1,112,064 scalars"
