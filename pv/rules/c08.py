"""C08 — failure reports point at the furthest failure with sound expectations (DESIGN.md section 4, C08).

Which attempts are recorded across backtracking is a history property and is NOT decided.  Decided:
  SORTED      ParsingError is built only after sort+dedup of both attempt vectors, from those vectors
  WRITERS     attempt_pos / pos_attempts / neg_attempts are written only by the constructor and `track`,
              `track` is called only from `rule`, and the error position is attempt_pos
  TRACKSITES  polarity of the two call sites of `track`, the atomic early return, the choice of vector,
              and the monotone (furthest) update of attempt_pos
  ARGS        the truncation indices saved from one attempt vector are only used to truncate that vector
  POLARITY    the look-ahead mode table implements negation parity (what counts as 'under negation')
  INLINE      the optimizer pass that replaces rule references by their literals runs only inside `@` rules
"""
from .. import facts, hirq
from ..hirq import walk, kind, callee, where, peel, PathEnum, exits

LEVEL = "other"
PS = "pest::parser_state::ParserState"
LOOK = "pest::parser_state::Lookahead"
ATOM = "pest::parser_state::Atomicity"
FIELDS = ("attempt_pos", "pos_attempts", "neg_attempts")

MANIFEST = {
    "technique": "dominance (sort/dedup before construction), who-may-write / who-may-call analysis, guard-context "
                 "polarity rule at the two tracking sites, index-kind provenance of truncation indices across the "
                 "call, symbolic evaluation of the look-ahead mode table (typed HIR)",
    "text": "Decides for every grammar and input: both expectation lists are sorted and duplicate-free and are the "
            "tracked vectors; only `track` (called only from `rule`) records attempts and only monotonically "
            "forward (furthest position); a match is recorded only under negation and a failure only outside it; "
            "atomic interiors are not recorded; the index saved from the positive list is used to truncate the "
            "positive list (likewise negative); the mode table makes `under negation` mean an odd number of "
            "enclosing negative predicates. It does not decide which attempts survive backtracking.",
    "note": "Necessary conditions. Both back-ends enter through pest::state (C02.ENTRY), so the clauses cover the "
            "generated parser and the VM alike.",
}


def run(rep, tier):
    rep.explanation = (
        "All rules are over impl ParserState and pest::state in crate pest; paths are enumerated structurally and "
        "guard contexts are computed from enclosing ifs / early returns.")
    rep.configs = ["default"] + (["nomemchr", "pestall"] if tier == "thorough" else [])
    for cfg in rep.configs:
        c = facts.facts(cfg).crate("pest")
        sfx = "" if cfg == "default" else "@" + cfg
        sorted_rule(rep, c, sfx)
        track = writers(rep, c, sfx)   # the recording function is located by role, not by name
        if track:
            tracksites(rep, c, sfx, track)
            args(rep, c, sfx, track)
        polarity(rep, c, sfx)
        reported(rep, c, sfx)
        childcount(rep, c, sfx)
    inline_rule(rep)
    backends(rep)


def vec_field_of(n):
    """For a method call on `<x>.pos_attempts` / `<x>.neg_attempts`: the field name."""
    pl = hirq.place(n)
    if pl and pl[2] and pl[2][-1] in ("pos_attempts", "neg_attempts"):
        return pl[2][-1]
    return None


def sorted_rule(rep, c, sfx):
    r = rep.rule("C08.SORTED" + sfx, 3,
                 "every construction of ErrorVariant::ParsingError in pest::state is preceded on its path by sort "
                 "and dedup of both attempt vectors, and its positives/negatives are those vectors")
    fn = c.fn("pest::parser_state::state")
    if fn is None:
        r.lost("pest::state")
        return
    # the construction sits in pest::state or in a helper of the parser-state module it delegates the failure report to
    if not any(kind(x) == "Struct" and x.get("path") == "pest::error::ErrorVariant::ParsingError" for x in walk(fn["body"])):
        hs = [b for b in c.bodies if b.get("body") is not None and b["path"].startswith("pest::parser_state::")
              and "::tests::" not in b["path"] and not b.get("exp")
              and any(kind(x) == "Struct" and x.get("path") == "pest::error::ErrorVariant::ParsingError" for x in walk(b["body"]))]
        if len(hs) == 1:
            fn = hs[0]
    pe = PathEnum(fn)
    n = 0
    for (ev, out) in exits(pe.paths()):
        si = hirq.index_of(ev, lambda e: e.kind == "struct" and e.node.get("path") == "pest::error::ErrorVariant::ParsingError")
        if si < 0:
            continue
        n += 1
        st = ev[si].node
        # field values are evaluated before the struct event; ops must precede the first clone
        flds = {f["name"]: f["e"] for f in st["fields"]}
        for fname, vec in (("positives", "pos_attempts"), ("negatives", "neg_attempts")):
            e = peel(flds.get(fname, {}))
            src = vec_field_of(e)
            if src != vec:
                r.violation("source:" + fname, where(st), "%s is not taken from %s" % (fname, vec))
            ops = {"sort": -1, "dedup": -1}
            for i, x in enumerate(ev[:si]):
                if x.kind == "call" and kind(x.node) == "MethodCall" and vec_field_of(x.node["recv"]) == vec:
                    m = x.node["m"]
                    if m in ("sort", "sort_unstable"):
                        ops["sort"] = i
                    elif m == "dedup":
                        ops["dedup"] = i
            if ops["sort"] < 0 or ops["dedup"] < 0 or ops["dedup"] < ops["sort"]:
                r.violation("order:" + vec, where(st), "%s reaches the error without sort followed by dedup: the "
                            "list of expected rules can contain duplicates or be unsorted" % vec)
    r.instance("ParsingError-paths", where(fn["body"]), "%d paths construct it" % n)
    r.instance("positives", where(fn["body"]))
    r.instance("negatives", where(fn["body"]))
    if n == 0:
        r.lost("construction of ErrorVariant::ParsingError in pest::state")


def writers(rep, c, sfx):
    r = rep.rule("C08.WRITERS" + sfx, 8,
                 "attempt_pos, pos_attempts, neg_attempts are mutated only in ParserState::track (and "
                 "sorted/deduped in pest::state); track is called only from rule; the error position is attempt_pos")
    track = None
    cg0 = hirq.CallGraph([c])
    STATE = "pest::parser_state::state"

    def only_from_state(path, depth=0, seen=()):
        """is this function reached only from pest::state (directly or through other such helpers)?"""
        if path == STATE:
            return True
        cs = set(p for (p, n) in cg0.callers_of(path))
        if not cs or depth > 3 or path in seen:
            return False
        return all(only_from_state(p, depth + 1, seen + (path,)) for p in cs)

    def is_finalizer(fn):
        """a helper of pest::state that only puts the recorded attempts in order (sort / dedup) for the report"""
        hows = [how for fld in FIELDS for (x, how, p) in hirq.mutating_field_accesses(fn["body"], fld, "ParserState")]
        return bool(hows) and all(how.startswith("method:") and how.split("::")[-1] in ("sort", "dedup", "sort_unstable")
                                  for how in hows) and only_from_state(fn["path"])
    for fn in c.bodies:
        fin = fn["path"] == STATE or (fn.get("impl_self") == PS and fn.get("body") is not None and is_finalizer(fn))
        for fld in FIELDS:
            ms = hirq.mutating_field_accesses(fn["body"], fld, "ParserState")
            for (x, how, p) in ms:
                key = "%s<-%s" % (fld, fn["path"])
                r.instance(key + ":" + how.split("::")[-1], where(x), how)
                if fin:
                    if not (how.startswith("method:") and how.split("::")[-1] in ("sort", "dedup", "sort_unstable")):
                        r.violation(key, where(x), "pest::state mutates %s other than by sort/dedup (%s)" % (fld, how))
                    continue
                if fn.get("impl_self") != PS:
                    r.violation(key, where(x), "%s mutated outside impl ParserState" % fld)
                    continue
                if track is None or track == fn["path"]:
                    track = fn["path"]
                else:
                    r.violation(key, where(x), "%s is mutated by a second function (%s) besides %s: attempts can "
                                "be recorded without the furthest-position discipline" % (fld, fn["path"], track))
    if track is None:
        r.lost("the function that records attempts")
        return None
    cg = hirq.CallGraph([c])
    for (p, n) in cg.callers_of(track):
        r.instance("caller:" + p, where(n))
        if p != PS + "::rule":
            r.violation("caller:" + p, where(n), "attempt tracking is invoked from %s, not only from rule()" % p)
    st0 = c.fn("pest::parser_state::state")
    # the function that builds the error: pest::state, or a helper reached only from it
    builders = [st0] if st0 is not None else []
    for fn in c.bodies:
        if fn is not st0 and fn.get("body") is not None and fn["path"].startswith("pest::parser_state::") \
                and "::tests::" not in fn["path"] and only_from_state(fn["path"]) and any(
                    kind(n) == "Call" and isinstance(callee(n), str) and callee(n).startswith("pest::error::Error::new_from_pos")
                    for n in walk(fn["body"])):
            builders.append(fn)
    for st in builders:
        for n in walk(st["body"]):
            if kind(n) == "Call" and isinstance(callee(n), str) and callee(n).startswith("pest::error::Error::new_from_pos"):
                posarg = peel(n["args"][1])
                _lets, _modes = hirq.lets(st["body"]), hirq.binding_modes(st)
                d = 0
                while d < 6 and kind(posarg) == "Path" and posarg.get("res") == "local" and posarg["id"] in _lets \
                        and not _modes.get(posarg["id"]):
                    posarg = peel(_lets[posarg["id"]][0])   # an immutable `let pos = ..` (or an inlined helper's parameter)
                    d += 1
                ok = kind(posarg) == "Call" and len(posarg["args"]) == 2 and kind(peel(posarg["args"][1])) == "Field" \
                    and peel(posarg["args"][1])["name"] == "attempt_pos"
                r.instance("error-position:" + callee(n).split("::")[-1], where(n))
                if not ok:
                    r.violation("error-position:" + callee(n).split("::")[-1], where(n),
                                "the error is located at `%s`, not at attempt_pos" % hirq.expr_text(n["args"][1]))
    return track


def cond_variant_test(cond, field, enum):
    """(op, variant) if cond is `<x>.field ==/!= enum::V`."""
    c = peel(cond)
    if kind(c) == "Binary" and c["op"] in ("==", "!="):
        l, rr = peel(c["l"]), peel(c["r"])
        if kind(l) == "Field" and l["name"] == field and kind(rr) == "Path" and rr.get("path", "").startswith(enum + "::"):
            return (c["op"], rr["path"].split("::")[-1])
    return None


def tracksites(rep, c, sfx, trackpath):
    r = rep.rule("C08.TRACKSITES" + sfx, 6,
                 "rule(): Ok arm tracks only under lookahead == Negative, Err arm only under lookahead != Negative; "
                 "track returns at once in atomic mode, records into neg_attempts iff lookahead == Negative, and "
                 "moves attempt_pos only forward")
    rule = c.fn(PS + "::rule")
    track = c.fn(trackpath)
    if rule is None or track is None:
        r.lost("ParserState::rule / track")
        return
    ctx = hirq.Ctx(rule)
    sites = [n for n in walk(rule["body"]) if kind(n) == "MethodCall" and n.get("path") == trackpath]
    seen_arms = set()
    for n in sites:
        gs = ctx.guards(n)
        arm = None
        tests = []
        for g in gs:
            if g[0] == "arm" and g[1].get("src") == "match":
                pv = hirq.pat_variants(g[1]["arms"][g[2]]["pat"])
                if pv and pv[0].startswith("core::result::Result::"):
                    arm = pv[0].split("::")[-1]
                    tests = []
            elif g[0] == "if" and g[2] is True:
                t = cond_variant_test(g[1], "lookahead", LOOK)
                if t:
                    tests.append(t)
        seen_arms.add(arm)
        r.instance("site:%s" % arm, where(n), "guards %s" % tests)
        want = ("==", "Negative") if arm == "Ok" else ("!=", "Negative")
        if want not in tests:
            r.violation("site:%s" % arm, where(n),
                        "in the %s arm of rule() the attempt is tracked under %s, the contract is lookahead %s "
                        "Negative (a rule is reported as unexpected only if it matched under negation, as expected "
                        "only if it failed outside negation)" % (arm, tests or "no lookahead test", want[0]))
    for a in ("Ok", "Err"):
        if a not in seen_arms:
            r.violation("site:%s" % a, where(rule["body"]), "no tracking call in the %s arm of rule()" % a)
    # track(): nothing is recorded in atomic mode - every path that mutates the attempt state has first seen
    # `atomicity == Atomic` evaluate to false
    pe = PathEnum(track)
    ok = True
    tested = 0
    for (ev, out) in exits(pe.paths()):
        mi = hirq.index_of(ev, lambda e: (e.kind == "assign" and (hirq.place(e.node["l"]) or ("", 0, [""]))[2][-1:] and
                                           (hirq.place(e.node["l"]) or ("", 0, [""]))[2][-1] in FIELDS)
                           or (e.kind == "call" and kind(e.node) == "MethodCall" and e.node["m"] in ("push", "clear", "truncate")
                               and (vec_field_of(e.node["recv"]) or hirq.local_id(e.node["recv"]) is not None)))
        if mi < 0:
            continue
        tested += 1
        gi = hirq.index_of(ev[:mi], lambda e: e.kind == "cond" and cond_variant_test(e.node, "atomicity", ATOM) == ("==", "Atomic")
                           and e.extra is False)
        gi2 = hirq.index_of(ev[:mi], lambda e: e.kind == "cond" and cond_variant_test(e.node, "atomicity", ATOM) == ("!=", "Atomic")
                            and e.extra is True)
        if gi < 0 and gi2 < 0:
            ok = False
    r.instance("track:atomic-return", where(track["body"]), "%d recording paths" % tested)
    if not ok or tested == 0:
        r.violation("track:atomic-return", where(track["body"]), "a path of track records an attempt without having "
                    "tested that the mode is not Atomic: rules inside an atomic rule's interior get reported")
    # choice of the vector, path by path: on every path that pushes the rule, the receiving vector is neg_attempts
    # exactly when the path runs under lookahead == Negative (whatever the spelling: if/else selecting a `&mut` vector,
    # a match on self.lookahead, two separate pushes ..)
    tlets = hirq.lets(track["body"])
    npush = 0
    verdicts = set()
    for (ev, out) in exits(PathEnum(track).paths()):
        pushes = [e for e in ev if e.kind == "call" and kind(e.node) == "MethodCall" and e.node["m"] == "push"]
        for pu in pushes:
            vec = vec_field_of(pu.node["recv"])
            lid = hirq.local_id(pu.node["recv"])
            if vec is None and lid in tlets:
                init = peel(tlets[lid][0])
                # the branch of the initializer taken on this path
                cur = init
                guard = 0
                while kind(cur) in ("If", "Block", "Match") and guard < 6:
                    guard += 1
                    if kind(cur) == "Block":
                        cur = peel(cur["expr"]) if cur.get("expr") is not None else None
                    elif kind(cur) == "If":
                        ce = next((e for e in ev if e.kind == "cond" and e.node is cur["cond"]), None)
                        if ce is None:
                            ce = next((e for e in ev if e.kind == "cond" and peel(e.node) is peel(cur["cond"])), None)
                        if ce is None:
                            cur = None
                        else:
                            cur = peel(cur["then"] if ce.extra else cur["else"])
                    elif kind(cur) == "Match":
                        ae = next((e for e in ev if e.kind == "arm" and e.node is cur), None)
                        cur = peel(cur["arms"][ae.extra]["body"]) if ae is not None else None
                    if cur is None:
                        break
                vec = vec_field_of(cur) if cur is not None else None
            if vec is None:
                continue
            npush += 1
            neg = None
            for e in ev[:ev.index(pu)]:
                if e.kind == "cond":
                    tst = cond_variant_test(e.node, "lookahead", LOOK)
                    if tst and tst[1] == "Negative":
                        neg = (tst[0] == "==") == bool(e.extra)
                elif e.kind == "arm":
                    scr = peel(e.node["scrut"])
                    if kind(scr) == "Field" and scr["name"] == "lookahead":
                        arm = e.node["arms"][e.extra]
                        vs = [v.split("::")[-1] for v in hirq.pat_variants(arm["pat"])]
                        if vs == ["Negative"]:
                            neg = True
                        elif "Negative" not in vs:
                            # a catch-all after a Negative arm, or explicit other variants
                            earlier = [v.split("::")[-1] for a2 in e.node["arms"][:e.extra] for v in hirq.pat_variants(a2["pat"])]
                            if vs or "Negative" in earlier:
                                neg = False
            verdicts.add((vec, neg))
    r.instance("track:vector-choice", where(track["body"]), str(sorted(verdicts, key=str)))
    if npush == 0:
        r.violation("track:vector-choice", where(track["body"]), "selection between pos_attempts and neg_attempts "
                    "not found")
    for (vec, neg) in sorted(verdicts, key=str):
        if neg is None:
            r.violation("track:vector-choice", where(track["body"]), "an attempt is pushed to %s on a path that has not "
                        "tested lookahead against Negative" % vec)
        elif (vec == "neg_attempts") != neg:
            r.violation("track:vector-choice", where(track["body"]), "under lookahead %s Negative the attempt goes to "
                        "%s" % ("==" if neg else "!=", vec))
    # monotone attempt_pos (high-water mark)
    highwater(r, track, "attempt_pos", "track")


def tail_expr(n):
    n = peel(n)
    while kind(n) == "Block" and n.get("expr") is not None:
        n = peel(n["expr"])
    return n


def highwater(r, fn, field, label):
    """Every assignment to self.<field> sits in the then-branch of `X > self.<field>` and assigns X; and
    every such then-branch does assign it."""
    ctx = hirq.Ctx(fn)
    assigns = [n for n in walk(fn["body"]) if kind(n) == "Assign" and (hirq.place(n["l"]) or ("", 0, []))[2][-1:] == [field]]
    for a in assigns:
        ok = False
        for g in ctx.guards(a):
            if g[0] == "if" and g[2] is True:
                c = peel(g[1])
                if kind(c) == "Binary" and c["op"] == ">" and (hirq.place(c["r"]) or ("", 0, []))[2][-1:] == [field] \
                        and hirq.local_id(c["l"]) is not None and hirq.local_id(c["l"]) == hirq.local_id(a["r"]):
                    ok = True
                if kind(c) == "Binary" and c["op"] == "<" and (hirq.place(c["l"]) or ("", 0, []))[2][-1:] == [field] \
                        and hirq.local_id(c["r"]) is not None and hirq.local_id(c["r"]) == hirq.local_id(a["r"]):
                    ok = True
            if g[0] == "arm" and greater_arm(g[1], g[2], field) is not None \
                    and greater_arm(g[1], g[2], field) == hirq.local_id(a["r"]):
                ok = True   # `match x.cmp(&self.field) { Ordering::Greater => { self.field = x } .. }`
        r.instance("%s:highwater-assign" % label, where(a))
        if not ok:
            r.violation("%s:highwater-assign" % label, where(a), "%s is assigned outside `if x > self.%s { .. = x }`: "
                        "the furthest position can move backwards" % (field, field))
    # every `if x > self.field` branch must perform the assignment on all its paths
    for n in walk(fn["body"]):
        if kind(n) == "If":
            c = peel(n["cond"])
            if kind(c) == "Binary" and c["op"] == ">" and (hirq.place(c["r"]) or ("", 0, []))[2][-1:] == [field]:
                x = hirq.local_id(c["l"])
                pe = PathEnum(fn)
                allok = True
                for (ev, out) in pe.paths_of(n["then"]):
                    if out == "diverge":
                        continue
                    if not any(e.kind == "assign" and (hirq.place(e.node["l"]) or ("", 0, []))[2][-1:] == [field]
                               and hirq.local_id(e.node["r"]) == x for e in ev):
                        allok = False
                r.instance("%s:highwater-branch" % label, where(n))
                if not allok:
                    r.violation("%s:highwater-branch" % label, where(n),
                                "a path through `if x > self.%s` does not record x as the new %s: state that was "
                                "reset for the new furthest position stays keyed to the old one" % (field, field))
    for n in walk(fn["body"]):
        if kind(n) == "Match":
            for i, arm in enumerate(n["arms"]):
                x = greater_arm(n, i, field)
                if x is None:
                    continue
                pe = PathEnum(fn)
                allok = True
                for (ev, out) in pe.paths_of(arm["body"]):
                    if out == "diverge":
                        continue
                    if not any(e.kind == "assign" and (hirq.place(e.node["l"]) or ("", 0, []))[2][-1:] == [field]
                               and hirq.local_id(e.node["r"]) == x for e in ev):
                        allok = False
                r.instance("%s:highwater-branch" % label, where(arm["body"]))
                if not allok:
                    r.violation("%s:highwater-branch" % label, where(arm["body"]),
                                "a path through the `Greater` arm does not record x as the new %s" % field)
    if not assigns:
        r.violation("%s:highwater-assign" % label, where(fn["body"]), "no assignment to %s found" % field)


def greater_arm(m, idx, field):
    """If arm idx of m is the `Ordering::Greater` arm of `match x.cmp(&self.<field>)`, the local id of x."""
    scr = peel(m["scrut"])
    if not (kind(scr) == "MethodCall" and scr["m"] == "cmp" and scr["args"]):
        return None
    if (hirq.place(scr["args"][0]) or ("", 0, []))[2][-1:] != [field]:
        return None
    vs = hirq.pat_variants(m["arms"][idx]["pat"])
    if len(vs) == 1 and vs[0].endswith("Ordering::Greater") and not hirq.pat_is_catchall(m["arms"][idx]["pat"]):
        return hirq.local_id(scr["recv"])
    return None


def args(rep, c, sfx, trackpath):
    r = rep.rule("C08.ARGS" + sfx, 4,
                 "index-kind: the local saved from pos_attempts.len() is passed to the parameter of track that "
                 "truncates pos_attempts, and likewise for neg_attempts, at both call sites")
    rule = c.fn(PS + "::rule")
    track = c.fn(trackpath)
    if rule is None or track is None:
        r.lost("ParserState::rule / track")
        return
    # parameters of track -> vector they truncate
    pkind = {}
    params = [p for p in track["params"] if p.get("k") == "PBind"]
    for n in walk(track["body"]):
        if kind(n) == "MethodCall" and n["m"] == "truncate":
            v = vec_field_of(n["recv"])
            lid = hirq.local_id(n["args"][0])
            for i, p in enumerate(params):
                if p["id"] == lid and v:
                    pkind[i] = v
    if sorted(pkind.values()) != ["neg_attempts", "pos_attempts"]:
        r.lost("parameters of track that truncate pos_attempts / neg_attempts (found %s)" % pkind)
        return
    # locals of rule() saved from X.len(): through tuple lets
    saved = {}
    for n in walk(rule["body"]):
        if n.get("k") == "Let" and n.get("init") is not None:
            pat, init = n["pat"], n["init"]
            if pat.get("k") == "PTuple":
                tuples = [t for t in hirq.tail_leaves(init) if kind(peel(t)) == "Tup"]
                for idx, sub in enumerate(pat["pats"]):
                    if sub.get("k") != "PBind":
                        continue
                    kinds = set()
                    for t in tuples:
                        e = peel(peel(t)["elems"][idx])
                        if kind(e) == "MethodCall" and e["m"] == "len" and vec_field_of(e["recv"]):
                            kinds.add(vec_field_of(e["recv"]))
                        elif hirq.lit_value(e) == 0:
                            pass
                        else:
                            kinds.add("?")
                    if len(kinds) == 1:
                        saved[sub["id"]] = next(iter(kinds))
            elif pat.get("k") == "PBind":
                e = peel(init)
                if kind(e) == "MethodCall" and e["m"] == "len" and vec_field_of(e["recv"]):
                    saved[pat["id"]] = vec_field_of(e["recv"])
    # the two indices are saved alike: in every branch of the expression that yields the pair, both components are the
    # current lengths or both are 0 (attempts recorded at an older position are all dropped when this rule reports) -
    # (0, neg_attempts.len()) keeps the children's `unexpected` entries next to the rule that should replace them
    for n in walk(rule["body"]):
        if n.get("k") == "Let" and n.get("init") is not None and n["pat"].get("k") == "PTuple":
            for tpl in [peel(x) for x in hirq.tail_leaves(n["init"]) if kind(peel(x)) == "Tup"]:
                if len(tpl["elems"]) != 2:
                    continue
                forms = []
                for e in tpl["elems"]:
                    e = peel(e)
                    if kind(e) == "MethodCall" and e["m"] == "len" and vec_field_of(e["recv"]):
                        forms.append("len")
                    elif hirq.lit_value(e) == 0:
                        forms.append("zero")
                    else:
                        forms.append("?")
                if set(forms) <= {"len", "zero"} and "?" not in forms and any(
                        vec_field_of(peel(e)["recv"]) for e in tpl["elems"] if kind(peel(e)) == "MethodCall") or forms == ["zero", "zero"]:
                    r.instance("symmetry:%s" % "+".join(forms), where(tpl))
                    if forms[0] != forms[1]:
                        r.violation("symmetry", where(tpl),
                                    "the saved truncation indices are (%s, %s): one attempt list is cut back to empty, the "
                                    "other to its current length - rules that matched under `!` inside this rule stay in "
                                    "`unexpected` beside the rule that replaces them" % tuple(forms))
    sites = [n for n in walk(rule["body"]) if kind(n) == "MethodCall" and n.get("path") == trackpath]
    ctx = hirq.Ctx(rule)
    for n in sites:
        arm = "?"
        for g in ctx.guards(n):
            if g[0] == "arm" and g[1].get("src") == "match":
                pv = hirq.pat_variants(g[1]["arms"][g[2]]["pat"])
                if pv and pv[0].startswith("core::result::Result::"):
                    arm = pv[0].split("::")[-1]
        for i, vec in sorted(pkind.items()):
            # params[0] is self
            a = n["args"][i - 1] if i >= 1 else n["recv"]
            got = saved.get(hirq.local_id(a))
            key = "site:%s:%s" % (arm, vec)
            r.instance(key, where(n), "argument `%s` saved from %s" % (hirq.expr_text(a), got))
            if got != vec:
                r.violation(key, where(n),
                            "in the %s arm, the index that truncates %s is `%s`, which was saved from %s: attempts "
                            "recorded earlier by sibling alternatives at the same position are dropped from the "
                            "wrong list" % (arm, vec, hirq.expr_text(a), got))


def polarity(rep, c, sfx):
    r = rep.rule("C08.POLARITY" + sfx, 6,
                 "ParserState::lookahead sets the mode by negation parity: positive keeps None/Positive -> Positive "
                 "and Negative -> Negative; negative flips None/Positive -> Negative and Negative -> Positive")
    fn = c.fn(PS + "::lookahead")
    if fn is None:
        r.lost("ParserState::lookahead")
        return
    bparams = [p for p in fn["params"] if p.get("k") == "PBind" and p.get("ty") == "bool"]
    if len(bparams) != 1:
        r.lost("bool parameter of lookahead")
        return
    bid = bparams[0]["id"]
    fids = [p["id"] for p in fn["params"] if p.get("k") == "PBind" and p.get("ty") == "F"]
    # the assignment to .lookahead before the closure call
    target = None
    for st in fn["body"].get("stmts", []):
        if st.get("k") in ("Semi", "Expr") and kind(st["e"]) == "Assign":
            t = hirq.field_write_target(st["e"])
            if t and t[1] == "lookahead":
                target = st["e"]
                break
    if target is None:
        r.lost("assignment of the lookahead mode before the closure runs")
        return
    lets = hirq.lets(fn["body"])
    want = {(True, "None"): "Positive", (True, "Positive"): "Positive", (True, "Negative"): "Negative",
            (False, "None"): "Negative", (False, "Positive"): "Negative", (False, "Negative"): "Positive"}

    def pmatch(pat, val):
        k = pat.get("k")
        if k in ("PWild",) or (k == "PBind" and pat.get("sub") is None):
            return True
        if k == "POr":
            return any(pmatch(q, val) for q in pat["pats"])
        if k == "PTuple":
            return isinstance(val, tuple) and len(val) == len(pat["pats"]) and all(pmatch(q, v) for q, v in zip(pat["pats"], val))
        if k == "PLit":
            return pat.get("v") == val
        if k in ("PPath", "PTupleStruct", "PStruct"):
            return isinstance(val, str) and str(pat.get("path", "")).split("::")[-1] == val
        return False

    def ev(n, pos, init):
        n = peel(n)
        k = kind(n)
        if k == "Path" and n.get("res") == "local" and n["id"] == bid:
            return pos
        if k == "Lit" and isinstance(n.get("v"), bool):
            return n["v"]
        if k == "Tup":
            vals = tuple(ev(x, pos, init) for x in n["elems"])
            return None if any(v is None for v in vals) else vals
        if k == "Binary" and n["op"] in ("==", "!="):
            a, b = ev(n["l"], pos, init), ev(n["r"], pos, init)
            if a is None or b is None:
                return None
            return (a == b) if n["op"] == "==" else (a != b)
        if k == "Unary" and n["op"] == "!":
            a = ev(n["e"], pos, init)
            return None if not isinstance(a, bool) else (not a)
        if k == "Block" and n.get("expr") is not None and not n.get("stmts"):
            return ev(n["expr"], pos, init)
        if k == "Path" and n.get("res") == "def" and n.get("path", "").startswith(LOOK + "::"):
            return n["path"].split("::")[-1]
        if k == "Path" and n.get("res") == "local" and n["id"] in lets:
            src = peel(lets[n["id"]][0])
            if kind(src) == "Field" and src["name"] == "lookahead":
                return init
        if k == "Field" and n["name"] == "lookahead":
            return init
        if k == "If":
            c = peel(n["cond"])
            neg = False
            if kind(c) == "Unary" and c["op"] == "!":
                c, neg = peel(c["e"]), True
            if hirq.local_id(c) == bid:
                truth = pos != neg
                return ev(n["then"] if truth else n["else"], pos, init)
            cv = ev(c, pos, init)
            if isinstance(cv, bool) and n.get("else") is not None:
                return ev(n["then"] if (cv != neg) else n["else"], pos, init)
            return None
        if k == "Match":
            s = ev(n["scrut"], pos, init)
            if s is None:
                return None
            for arm in n["arms"]:
                if arm.get("guard") is not None:
                    g = ev(arm["guard"], pos, init)
                    if g is None:
                        return None
                    if not g:
                        continue
                if pmatch(arm["pat"], s):
                    return ev(arm["body"], pos, init)
        return None

    for (pos, init), w in sorted(want.items(), key=str):
        got = ev(target["r"], pos, init)
        key = "%s:%s" % ("positive" if pos else "negative", init)
        r.instance(key, where(target), "-> %s" % got)
        if got != w:
            r.violation(key, where(target),
                        "%s predicate entered in mode %s sets mode %s, negation parity requires %s: rules inside "
                        "`!(.. &e ..)` are reported with the wrong polarity (dropped from `unexpected`, or added to "
                        "`expected` at a position where nothing reportable failed)"
                        % ("a positive" if pos else "a negative", init, got, w))


def resolve_imm(n, lets, modes, depth=0):
    """Follow immutable `let x = init` chains from a local path to its initializer."""
    n = peel(n)
    while depth < 8 and kind(n) == "Path" and n.get("res") == "local" and n["id"] in lets and not modes.get(n["id"]):
        n = peel(lets[n["id"]][0])
        depth += 1
    return n


def reported(rep, c, sfx):
    r = rep.rule("C08.REPORTED" + sfx, 4,
                 "Error::new_from_pos reports the position it is given: `variant` is the parameter, `location` is "
                 "Pos(pos.pos()) and `line_col` is Pos(pos.line_col()) of the same Position parameter (through "
                 "immutable lets only), and no function assigns or mutably borrows location / line_col afterwards")
    fn = c.fn("pest::error::Error::new_from_pos")
    if fn is None:
        r.lost("Error::new_from_pos")
        return
    lets = hirq.lets(fn["body"])
    modes = hirq.binding_modes(fn)
    params = {p["name"]: p["id"] for p in fn["params"] if p.get("k") == "PBind"}
    posids = [p["id"] for p in fn["params"] if p.get("k") == "PBind" and "position::Position" in p.get("ty", "")]
    varids = [p["id"] for p in fn["params"] if p.get("k") == "PBind" and "ErrorVariant" in p.get("ty", "")]
    if len(posids) != 1 or len(varids) != 1:
        r.lost("new_from_pos(variant, pos) parameters")
        return
    lits = [n for n in walk(fn["body"]) if kind(n) == "Struct" and n.get("path") == "pest::error::Error"]
    if not lits:
        # the literal moved into a constructor helper (`Error::from_parts(variant, location, line_col, ..)`): read the
        # helper's literal with its parameters replaced by this call's arguments
        for n in walk(fn["body"]):
            h = c.fn(callee(n)) if kind(n) in ("Call", "MethodCall") and isinstance(callee(n), str) else None
            if h is None or h is fn or h.get("body") is None or not str(h["path"]).startswith("pest::error::"):
                continue
            hl = [x for x in walk(h["body"]) if kind(x) == "Struct" and x.get("path") == "pest::error::Error"]
            if len(hl) != 1:
                continue
            args = hirq.call_args(n) if kind(n) == "Call" else [n["recv"]] + list(n["args"])
            pmap = {}
            for prm, a in zip(h["params"], args):
                if prm.get("k") == "PBind":
                    pmap[prm["id"]] = a
            flds = []
            for x in hl[0]["fields"]:
                e = peel(x["e"])
                flds.append({"name": x["name"], "e": pmap.get(e.get("id"), x["e"]) if kind(e) == "Path" and e.get("res") == "local" else x["e"]})
            lits.append({"k": "Struct", "path": "pest::error::Error", "fields": flds, "sp": n.get("sp")})
    if not lits:
        r.lost("the Error literal of new_from_pos")
        return

    def proj(e, ctor, meth):
        e = resolve_imm(e, lets, modes)
        if not (kind(e) == "Call" and callee(e) == ctor and len(e["args"]) == 1):
            return "is not %s(..)" % ctor.split("::", 2)[-1]
        a = resolve_imm(e["args"][0], lets, modes)
        if not (kind(a) == "MethodCall" and a.get("path") == meth):
            return "is not computed by %s" % meth.split("::", 2)[-1]
        rc = peel(a["recv"])
        while kind(rc) in ("AddrOf",):
            rc = peel(rc["e"])
        if not (kind(rc) == "Path" and rc.get("res") == "local" and rc["id"] == posids[0]):
            return "is not taken from the `pos` parameter"
        return None

    for lit in lits:
        f = {x["name"]: x["e"] for x in lit["fields"]}
        for (name, ctor, meth) in (("location", "pest::error::InputLocation::Pos", "pest::position::Position::pos"),
                                   ("line_col", "pest::error::LineColLocation::Pos", "pest::position::Position::line_col")):
            r.instance("ctor:" + name, where(lit))
            if name not in f:
                r.violation("ctor:" + name, where(lit), "field %s is not set explicitly" % name)
                continue
            why = proj(f[name], ctor, meth)
            if why:
                r.violation("ctor:" + name, where(f[name]),
                            "Error.%s %s: the reported %s is no longer the position the failure was recorded at "
                            "(location and line_col describe different places)" % (name, why, name))
        r.instance("ctor:variant", where(lit))
        v = resolve_imm(f.get("variant", {}), lets, modes)
        if not (kind(v) == "Path" and v.get("res") == "local" and v["id"] == varids[0]):
            r.violation("ctor:variant", where(lit), "Error.variant is not the variant the caller passed")
    n = 0
    for g in c.bodies:
        if g.get("exp") or "::tests::" in g["path"]:
            continue
        for fld in ("location", "line_col"):
            for (x, how, parent) in hirq.mutating_field_accesses(g["body"], fld, "pest::error::Error"):
                if g["path"] == fn["path"] or how.startswith("method:"):
                    continue
                n += 1
                r.violation("write:%s:%s" % (g["path"].replace("pest::", ""), fld), where(x),
                            "%s writes Error.%s after construction (%s)" % (g["path"], fld, how))
    r.instance("writers-outside-ctor", "", "%d found" % n)


def childcount(rep, c, sfx):
    r = rep.rule("C08.CHILDCOUNT" + sfx, 1,
                 "the number of attempts made inside a rule - which decides whether the failing rule is reported in place "
                 "of them - counts expected and unexpected attempts alike: a function of ParserState that returns a count "
                 "of recorded attempts reads the length of both lists")
    n = 0
    for b in c.bodies:
        if b.get("impl_self") != PS or b.get("output") != "usize" or b.get("body") is None or b.get("exp"):
            continue
        read = set()
        for x in walk(b["body"]):
            if kind(x) == "MethodCall" and x["m"] == "len" and vec_field_of(x["recv"]):
                read.add(vec_field_of(x["recv"]))
        if not read:
            continue
        n += 1
        key = b["name"]
        r.instance(key, where(b["body"]), str(sorted(read)))
        if read != {"pos_attempts", "neg_attempts"}:
            r.violation(key, where(b["body"]),
                        "%s counts only %s: a rule that matched under `!` inside a failing rule is not counted as tried, so "
                        "the parent is reported where the child should be (or the other way round)" % (key, sorted(read)))
    if n == 0:
        # the count may be computed inline in rule()/track(): then both lengths must be read there
        for name in ("rule", "track"):
            fn = c.fn(PS + "::" + name)
            if fn is None:
                continue
            read = set(vec_field_of(x["recv"]) for x in walk(fn["body"])
                       if kind(x) == "MethodCall" and x["m"] == "len" and vec_field_of(x["recv"]))
            if read:
                n += 1
                r.instance(name, where(fn["body"]), str(sorted(read)))
                if read != {"pos_attempts", "neg_attempts"}:
                    r.violation(name, where(fn["body"]), "%s counts only %s" % (name, sorted(read)))
    if n == 0:
        r.lost("the count of recorded attempts (lengths of pos_attempts / neg_attempts)")


def inline_rule(rep):
    """An optimizer pass that replaces rule references by the referenced rules' literals removes those rules'
    attempts from the history.  That is invisible only where rules are not reportable: inside `@` rules
    (`track` returns early for Atomicity::Atomic).  `$` rules keep their inner rules reportable."""
    from . import c05
    meta = facts.facts("default").crate("pest_meta")
    r = rep.rule("C08.INLINE", 1,
                 "an optimizer pass that consults the map of rule definitions (Ident -> Expr) to replace rule "
                 "references by their bodies is enabled only for rule type Atomic, the only type in whose interior "
                 "no rule attempt is recorded")
    if meta is None:
        r.lost("pest_meta facts")
        return
    adt = meta.adt(c05.RULETYPE)
    if adt is None:
        r.lost("ast::RuleType")
        return
    guards = c05.ruletype_guards(meta, adt)
    n = 0

    def map_params(f):
        return [p for p in f["params"] if p.get("k") == "PBind" and "HashMap<" in str(p.get("ty"))
                and str(p.get("ty")).rstrip(">").endswith("pest_meta::ast::Expr")]

    def module_of(path):
        return "::".join(path.split("::")[:3])     # pest_meta::optimizer::<pass>
    cands = [f for f in meta.bodies if f["path"].startswith("pest_meta::optimizer::") and not f.get("exp")
             and "::tests::" not in f["path"] and f.get("body") is not None and map_params(f)]
    # consumers: functions that look a rule up in the map themselves
    consumers = []
    for f in cands:
        mids = set(p["id"] for p in map_params(f))
        if any(kind(x) == "MethodCall" and x["m"] in ("get", "contains_key", "get_key_value") and hirq.local_id(x["recv"]) in mids
               for x in walk(f["body"])) or any(kind(x) == "Index" and hirq.local_id(x["base"]) in mids for x in walk(f["body"])):
            consumers.append(f)
    # the entry point of a consumer: climb to the outermost map-taking caller inside the same pass module
    entries = {}
    for f in consumers:
        cur, seen = f, set()
        while cur["path"] not in seen:
            seen.add(cur["path"])
            ups = [g for g in cands if g is not cur and module_of(g["path"]) == module_of(cur["path"])
                   and (any(kind(x) in ("Call", "MethodCall") and callee(x) == cur["path"] for x in walk(g["body"]))
                        or cur["path"].startswith(g["path"] + "::"))]
            ups = [g for g in ups if g["path"] not in seen]
            if not ups:
                break
            cur = ups[0]
        entries[cur["path"]] = cur
    for fn in entries.values():
        chain = [g for g in cands if module_of(g["path"]) == module_of(fn["path"])]
        n += 1
        short = fn["path"].replace("pest_meta::optimizer::", "")
        mine = [(cnd, ts) for (f, cnd, ts) in guards
                if f is fn or f["path"].startswith(fn["path"] + "::") or any(f is g for g in chain)]
        # the guard must stand between the entry and the helper that consults the map: calls of map-taking helpers in
        # the entry point sit under it (or after its early return) - `ruletype_guards` reports where the rewrite runs
        if not mine:
            r.instance(short, where(fn["body"]), "consults the rule map without a rule-type test")
            r.violation(short + ":unguarded", where(fn["body"]),
                        "%s replaces rule references by their definitions for every rule type: the inlined rules' "
                        "attempts disappear from failure reports of non-atomic rules" % short)
            continue
        for (cnd, ts) in mine:
            key = "%s:%s" % (short, "+".join(sorted(ts)))
            r.instance(key, where(cnd), "inlining enabled for %s" % sorted(ts))
            if not ts <= {"Atomic"}:
                r.violation(key, where(cnd),
                            "rule references are replaced by their literals in rules of type %s, whose inner rules "
                            "are reportable: a non-silent rule inside `!( .. )` is no longer run through "
                            "ParserState::rule, so its 'unexpected' entry at the furthest position is lost and the "
                            "report points elsewhere" % sorted(ts - {"Atomic"}))
    if n == 0:
        r.note("no optimizer pass takes the Ident -> Expr map")
        r.floor = 0


def backends(rep):
    """Both back-ends wrap every kind of rule (ordinary and WHITESPACE/COMMENT) in the same rule()/atomic()
    nesting, hence make the same rules reportable (shared with C02.RULE)."""
    from . import c02
    from .. import synx
    f = facts.facts("default")
    gen, vm, meta = f.crate("pest_generator"), f.crate("pest_vm"), f.crate("pest_meta")
    if gen is None or vm is None or meta is None:
        r = rep.rule("C08.BACKENDS", 0, "back-end crates present")
        r.lost("generator / vm facts")
        return
    macros = synx.extract([c02.GENFILE, "generator/src/macros.rs"])
    ctx = c02.Ctx(gen, vm, meta, macros, "default")
    before = len(rep.rules)
    c02.rule_rule(rep, ctx, "")
    for rr in rep.rules[before:]:
        rr.name = "C08.BACKENDS"
        rr.desc = ("which rules are reportable is decided by the rule()/atomic() nesting around a rule body; the "
                   "nesting per modifier (ordinary and WHITESPACE/COMMENT rules) is identical in generated code "
                   "and in the VM")
