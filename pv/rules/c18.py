"""C18 — the bundled JSON grammar accepts exactly RFC 8259 JSON (DESIGN.md section 4, C18).

Decided for the grammar file, assuming pest implements its documented semantics (C01-C05):
  LEX   the atomic rules (string, number and their helpers) are regular; under LL(1)-style determinacy
        conditions (checked) the PEG reading equals the regular reading; DFA equivalence with RFC 8259 §6, §7
        and the three literal names (§3), over all Unicode scalar values
  WS    whitespace lemma: the WHITESPACE class is RFC `ws`, is disjoint from the first character of every
        token, no token can be extended by a character that may follow it, WHITESPACE is silent, COMMENT is
        undefined -> the non-atomic rules can be read at token level with optional ws between any two tokens
  SYN   token level: after factoring common literal prefixes every ordered choice / repetition is LL(1), so
        the PEG language equals the CFG language (Medeiros et al. 2014); each rule's right-hand side is then
        DFA-equivalent (over tokens and nonterminals) to the RFC's production
  TREE  one pair per value, object, member, array, string, number, literal: rule modifiers
  BUILTINS the built-in rules the grammar uses have their documented meaning in generated code (shared with C01)
"""
from .. import facts, pestgram, reglang
from ..reglang import cls_union, cls_complement, cls_intersect

LEVEL = "proof"

# "Accepts every RFC 8259 text" is a statement about a process in which no call limit is in force; the only way to get
# back there after a limit was set is set_call_limit(None), whose store-on-every-path clause (C12.SETTER) is re-run here.
DEPENDS = [
    ("C12", {"only_rules": ["SETTER"], "configs": ["default"],
             "why": "a limit that cannot be lifted makes JsonParser reject valid documents"}),
    ("C03", {"configs": ["default"],
             "why": "string bodies, digits and literals bottom out in the matching primitives (ANY = Position::skip, ranges, "
                    "strings): they must advance by whole characters and not move on failure"}),
    ("C04", {"why": "'the token tree mirrors the document, each pair with its exact span' is observed through the Pairs "
                    "views (iteration, as_span, into_inner, JSON dump), whose agreement with the token stream C04 decides"}),
]
JSON = "grammars/src/grammars/json.pest"
SCALARS = [(0, 0xD7FF), (0xE000, 0x10FFFF)]
BUILTIN_CLS = {
    "ASCII_DIGIT": [(0x30, 0x39)], "ASCII_NONZERO_DIGIT": [(0x31, 0x39)],
    "ASCII_HEX_DIGIT": [(0x30, 0x39), (0x41, 0x46), (0x61, 0x66)], "ANY": SCALARS,
    "ASCII_ALPHA": [(0x41, 0x5A), (0x61, 0x7A)], "ASCII_ALPHANUMERIC": [(0x30, 0x39), (0x41, 0x5A), (0x61, 0x7A)],
}
RFC_WS = [(0x20, 0x20), (0x09, 0x09), (0x0A, 0x0A), (0x0D, 0x0D)]

MANIFEST = {
    "technique": "grammar analysis of json.pest (independent .pest reader): LL(1)-determinacy conditions that make the "
                 "PEG reading coincide with the regular / context-free reading, then DFA equivalence (product "
                 "construction over a partition of all Unicode scalars, and over the token alphabet) against the RFC "
                 "8259 productions embedded as oracle; whitespace lemma side conditions; modifier table",
    "text": "Decides, for every string, that json.pest denotes exactly RFC 8259 JSON texts: the lexical rules are "
            "shown equivalent to the RFC's string / number / literal syntax by automata equivalence over all "
            "1,112,064 scalar values; the structural rules are shown LL(1) (so ordered choice and greedy repetition "
            "cannot hide a parse) and production-wise equivalent to the RFC grammar over the token alphabet; "
            "whitespace is shown to be skippable exactly where the RFC allows it. The tree clause is decided from "
            "the rule modifiers.",
    "note": "Assumes pest executes the documented semantics for this grammar (C01-C05, C02 for generated code). "
            "Trusted: the RFC productions as transcribed in this file, the PEG/CFG coincidence theorem for LL(1) "
            "grammars, and the common-deterministic-prefix factoring law.",
}


class Undecidable(Exception):
    pass


def chars(s):
    return [(ord(c), ord(c)) for c in s]


# ------------------------------------------------------------------ lexical layer

class Lex:
    def __init__(self, rules, rep_rule):
        self.g = rules
        self.r = rep_rule
        self.determinacy = 0

    def cls_of_single(self, e):
        """Class of a single-character expression, or None."""
        k = e[0]
        if k == "str" and len(e[1]) == 1:
            return chars(e[1])
        if k == "range":
            return [(ord(e[1]), ord(e[2]))]
        if k == "ident" and e[1] in BUILTIN_CLS:
            return BUILTIN_CLS[e[1]]
        if k == "choice":
            parts = [self.cls_of_single(x) for x in e[1]]
            if all(p is not None for p in parts):
                return cls_union(*parts)
        return None

    def regex(self, e, stack=()):
        k = e[0]
        if k == "str":
            return ("cat", [("cls", chars(c)) for c in e[1]]) if e[1] else ("eps",)
        if k == "range":
            return ("cls", [(ord(e[1]), ord(e[2]))])
        if k == "ident":
            n = e[1]
            if n in BUILTIN_CLS:
                return ("cls", BUILTIN_CLS[n])
            if n in self.g:
                if n in stack:
                    raise Undecidable("recursive reference to %s" % n)
                return self.rule_regex(n, stack)
            raise Undecidable("unknown rule %s" % n)
        if k == "seq":
            items = e[1]
            # `!C ~ ANY` -> complement class
            out = []
            i = 0
            while i < len(items):
                it = items[i]
                if it[0] == "neg" and i + 1 < len(items) and items[i + 1] == ("ident", "ANY"):
                    c = self.cls_of_single(it[1])
                    if c is None:
                        raise Undecidable("negative predicate over a non single-character expression")
                    out.append(("cls", cls_intersect(cls_complement(c), SCALARS)))
                    i += 2
                    continue
                if it[0] in ("neg", "pos"):
                    raise Undecidable("predicate outside the `!C ~ ANY` idiom")
                out.append(self.regex(it, stack))
                i += 1
            return ("cat", out)
        if k == "choice":
            return ("alt", [self.regex(x, stack) for x in e[1]])
        if k == "opt":
            return ("opt", self.regex(e[1], stack))
        if k == "rep":
            return ("star", self.regex(e[1], stack))
        if k == "rep1":
            return ("plus", self.regex(e[1], stack))
        if k == "repn":
            if e[2] != e[3]:
                inner = self.regex(e[1], stack)
                return ("cat", [("rep", inner, e[2])] + [("opt", inner)] * ((e[3] or e[2]) - e[2]))
            return ("rep", self.regex(e[1], stack), e[2])
        raise Undecidable("construct %s in an atomic rule" % k)

    def rule_regex(self, name, stack=()):
        mod, e = self.g[name]
        # right recursion  A = P ~ (Q ~ A)?   ->  P (Q P)*
        if e[0] == "seq" and e[1] and e[1][-1][0] == "opt":
            tail = e[1][-1][1]
            if tail[0] == "seq" and tail[1][-1] == ("ident", name):
                P = self.regex(("seq", e[1][:-1]), stack + (name,))
                Q = self.regex(("seq", tail[1][:-1]) if len(tail[1]) > 2 else tail[1][0], stack + (name,))
                return ("cat", [P, ("star", ("cat", [Q, P]))])
        return self.regex(e, stack + (name,))


def first_cls(r):
    k = r[0]
    if k == "eps":
        return [], True
    if k == "cls":
        return r[1], False
    if k == "cat":
        out = []
        for x in r[1]:
            f, n = first_cls(x)
            out = cls_union(out, f)
            if not n:
                return out, False
        return out, True
    if k == "alt":
        out, nul = [], False
        for x in r[1]:
            f, n = first_cls(x)
            out = cls_union(out, f)
            nul = nul or n
        return out, nul
    if k in ("star", "opt"):
        return first_cls(r[1])[0], True
    if k == "plus":
        return first_cls(r[1])
    if k == "rep":
        return ([], True) if r[2] == 0 else first_cls(r[1])
    raise ValueError(k)


def is_single(r):
    """Does r match exactly one character on every alternative?"""
    if r[0] == "cls":
        return True
    if r[0] == "alt":
        return all(is_single(x) for x in r[1])
    if r[0] == "cat":
        return len(r[1]) == 1 and is_single(r[1][0])
    return False


def determinacy(r, follow, rule, where, count, src=None):
    """LL(1)-style conditions on regex r with `follow` = class of characters that may come next.
    Every ordered choice has pairwise disjoint FIRST classes (at most one nullable alternative, whose
    FOLLOW is disjoint from the others' FIRST); every optional / repeated part has FIRST disjoint from the
    FIRST of what follows."""
    k = r[0]
    if k in ("eps", "cls"):
        return
    if k == "cat":
        items = r[1]
        for i, x in enumerate(items):
            j = i + 1
            if x[0] == "opt" and is_single(x[1]):
                # a run `C? C? C? Y` of the same single-character optional (from `C{m,n}`) is greedy-deterministic as a
                # whole: it takes min(k, run length) characters, exactly the regular reading, provided FIRST(Y) misses C
                while j < len(items) and items[j] == x:
                    j += 1
            rest = ("cat", items[j:])
            f, n = first_cls(rest)
            fol = cls_union(f, follow) if n else f
            determinacy(x, fol, rule, where, count, src)
        return
    if k == "alt":
        firsts = [first_cls(x) for x in r[1]]
        for i in range(len(firsts)):
            fi = cls_union(firsts[i][0], follow) if firsts[i][1] else firsts[i][0]
            for j in range(i + 1, len(firsts)):
                fj = cls_union(firsts[j][0], follow) if firsts[j][1] else firsts[j][0]
                count[0] += 1
                inter = cls_intersect(fi, fj)
                if inter:
                    rule.violation("determinacy:%s:choice" % where, src or JSON,
                                   "in rule %s two alternatives of an ordered choice can start with the same "
                                   "character (U+%04X): the PEG reading may differ from the regular reading, "
                                   "equivalence with the RFC cannot be concluded" % (where, inter[0][0]))
        for x in r[1]:
            determinacy(x, follow, rule, where, count, src)
        return
    if k in ("star", "opt", "plus"):
        f, n = first_cls(r[1])
        count[0] += 1
        inter = cls_intersect(f, follow)
        if inter or n:
            rule.violation("determinacy:%s:%s" % (where, k), src or JSON,
                           "in rule %s a repeated/optional part can start with a character (U+%04X) that may also "
                           "follow it: greedy matching may hide a parse" % (where, inter[0][0] if inter else 0))
        inner_follow = cls_union(f, follow) if k in ("star", "plus") else follow
        determinacy(r[1], inner_follow, rule, where, count, src)
        return
    if k == "rep":
        determinacy(r[1], cls_union(first_cls(r[1])[0], follow), rule, where, count, src)
        return


def to_atoms(r, atoms):
    k = r[0]
    if k == "eps":
        return r
    if k == "cls":
        return ("sym", atoms.atoms_of(cls_intersect(r[1], SCALARS)))
    if k in ("cat", "alt"):
        return (k, [to_atoms(x, atoms) for x in r[1]])
    if k == "rep":
        return ("rep", to_atoms(r[1], atoms), r[2])
    return (k, to_atoms(r[1], atoms))


def collect_classes(r, out):
    if r[0] == "cls":
        out.append(r[1])
    elif r[0] in ("cat", "alt"):
        for x in r[1]:
            collect_classes(x, out)
    elif r[0] != "eps":
        collect_classes(r[1], out)


def C(*ranges):
    return ("cls", [(a, b) for (a, b) in ranges])


def lit(s):
    return ("cat", [("cls", chars(c)) for c in s])


HEX = C((0x30, 0x39), (0x41, 0x46), (0x61, 0x66))
DIGIT = C((0x30, 0x39))
RFC_STRING = ("cat", [lit('"'), ("star", ("alt", [
    C((0x20, 0x21), (0x23, 0x5B), (0x5D, 0x10FFFF)),
    ("cat", [lit("\\"), ("alt", [C((0x22, 0x22), (0x5C, 0x5C), (0x2F, 0x2F), (0x62, 0x62), (0x66, 0x66), (0x6E, 0x6E),
                                    (0x72, 0x72), (0x74, 0x74)),
                                  ("cat", [lit("u"), ("rep", HEX, 4)])])])])), lit('"')])
RFC_NUMBER = ("cat", [("opt", lit("-")), ("alt", [lit("0"), ("cat", [C((0x31, 0x39)), ("star", DIGIT)])]),
                      ("opt", ("cat", [lit("."), ("plus", DIGIT)])),
                      ("opt", ("cat", [C((0x65, 0x65), (0x45, 0x45)), ("opt", C((0x2B, 0x2B), (0x2D, 0x2D))), ("plus", DIGIT)]))])


def word_text(word, atoms):
    return "".join(atoms.rep(a) for a in word)


def run(rep, tier):
    rep.explanation = (
        "obligations = determinacy conditions + DFA equivalences + whitespace side conditions + modifier checks; "
        "each is discharged by computation on the grammar file (no parser is run).")
    rep.extra["exhaustive"] = True
    rep.configs = ["grammar-file", "default", "extras"]
    path = facts.REPO + "/" + JSON
    try:
        rules = pestgram.rules_dict(pestgram.parse_file(path))
    except Exception as e:
        r = rep.rule("C18.GRAMMAR", 0, "json.pest can be read")
        r.lost("json.pest not readable: %s" % e)
        return
    lex(rep, rules)
    ws(rep, rules)
    syn(rep, rules)
    tree(rep, rules)
    builtins(rep)
    generated(rep)
    # the same parser as a build gets it when some crate in the graph turns on pest_derive/grammar-extras (cargo unifies
    # features, so pest_grammars is then expanded by the grammar-extras arms of the generator)
    generated(rep, "extras")


def generated(rep, cfg="default"):
    """The same LEX / WS / SYN / TREE analysis on the PEG decompiled from the expanded JsonParser (typed HIR of
    pest_grammars): removes the grammar reader, the optimizer and the code generator from the trusted base for
    this grammar (what remains trusted is ParserState, C03, and the decompilation table of pv/decompile.py)."""
    from .. import decompile
    before = len(rep.rules)
    tag = "@generated" if cfg == "default" else "@generated-" + cfg
    r = rep.rule("C18.GENERATED" + ("" if cfg == "default" else "@" + cfg), 16, "the derive-expanded JsonParser decompiles to a PEG (one rule per json.pest rule) "
                 "on which the lexical, whitespace, token-level and tree analyses hold as well")
    try:
        c = facts.facts(cfg).crate("pest_grammars")
        if c is None:
            r.lost("pest_grammars facts")
            return
        rt = decompile.rule_terms(c, "json::JsonParser")
        g = decompile.grammar(rt)
    except decompile.NotUnderstood as e:
        r.violation("decompile", "grammars/src/lib.rs", "the expanded JsonParser is not understood: %s" % e)
        return
    for n in sorted(g):
        r.instance("rule:" + n, "grammars/src/lib.rs", "modifier %r" % g[n][0])
    sk = rt.get("__skip__")
    want = ("if", "state.atomicity() == Atomicity::NonAtomic", ("comb", "repeat", (), ("call", ("lit", "WHITESPACE"))), ("ok",))
    r.instance("skip", "grammars/src/lib.rs")
    if sk != want:
        from ..terms import show
        r.violation("skip", "grammars/src/lib.rs", "generated implicit skip is `%s`" % show(sk))
    src_rules = set(pestgram.rules_dict(pestgram.parse_file(facts.REPO + "/" + JSON)))
    if set(g) != src_rules:
        r.violation("rule-set", "grammars/src/lib.rs", "generated parser has rules %s, json.pest has %s" % (
            sorted(set(g) - src_rules), sorted(src_rules - set(g))))
    lex(rep, g, tag)
    ws(rep, g, tag)
    syn(rep, g, tag)
    tree(rep, g, tag)


def token_follow_chars(rules):
    """Characters that may follow a lexical token: WHITESPACE, the structural characters and the closing
    delimiters (computed from the literal tokens of the non-atomic rules)."""
    out = list(RFC_WS)
    for n, (mod, e) in rules.items():
        if mod in ("@", "$", "_"):
            continue
        for x in walk_expr(e):
            if x[0] == "str" and len(x[1]) == 1:
                out.append((ord(x[1]), ord(x[1])))
    return cls_union(out)


def walk_expr(e):
    if isinstance(e, tuple):
        yield e
        for x in e[1:]:
            if isinstance(x, tuple):
                for y in walk_expr(x):
                    yield y
            elif isinstance(x, list):
                for z in x:
                    for y in walk_expr(z):
                        yield y


def lex(rep, rules, tag=""):
    r = rep.rule("C18.LEX" + tag, 6,
                 "string and number (with their helper rules) are regular, deterministic in the LL(1) sense, and "
                 "DFA-equivalent to RFC 8259 string / number over all scalar values; true/false/null are the RFC names")
    lx = Lex(rules, r)
    follow = token_follow_chars(rules)
    for name, oracle in (("string", RFC_STRING), ("number", RFC_NUMBER)):
        if name not in rules or rules[name][0] not in ("@", "$"):
            r.violation("atomic:" + name, JSON, "rule %s is missing or not atomic: implicit whitespace would be "
                        "accepted inside a %s" % (name, name))
            continue
        try:
            rx = lx.rule_regex(name)
        except Undecidable as e:
            r.violation("regular:" + name, JSON, "rule %s is outside the decidable fragment: %s" % (name, e))
            continue
        cnt = [0]
        determinacy(rx, follow, r, name, cnt)
        r.instance("determinacy:" + name, JSON, "%d conditions" % cnt[0])
        classes = []
        collect_classes(rx, classes)
        collect_classes(oracle, classes)
        atoms = reglang.Atoms(classes + [SCALARS])
        w, in_first = reglang.difference_word(to_atoms(rx, atoms), to_atoms(oracle, atoms), atoms.n)
        r.instance("equiv:" + name, JSON, "%d alphabet atoms covering all scalars" % atoms.n)
        if w is not None:
            txt = word_text(w, atoms)
            r.violation("equiv:" + name, JSON,
                        "rule %s %s %r (code points %s), RFC 8259 %s it" % (
                            name, "accepts" if in_first else "rejects", txt,
                            " ".join(atoms.describe(a) for a in w), "rejects" if in_first else "accepts"))
    # literal names
    words = set()
    for n in ("bool", "null"):
        if n not in rules:
            r.violation("literal-rule:" + n, JSON, "rule %s missing" % n)
            continue
        for a in pestgram.alternatives(rules[n][1]):
            if a[0] != "str":
                r.violation("literal:" + n, JSON, "rule %s is not a choice of literal names" % n)
            else:
                words.add(a[1])
    r.instance("literals", JSON, str(sorted(words)))
    if words != {"true", "false", "null"}:
        r.violation("literals", JSON, "literal names are %s, RFC 8259 §3 has false / null / true (lower case)" % sorted(words))
    # no literal name is a proper prefix of another token start that could be confused: first chars t f n vs others
    firsts = cls_union(*[chars(w[0]) for w in words]) if words else []
    others = cls_union(chars('"'), chars("-"), [(0x30, 0x39)], chars("{"), chars("["))
    r.instance("literal-first", JSON)
    if cls_intersect(firsts, others):
        r.violation("literal-first", JSON, "a literal name starts like another token")


def ws(rep, rules, tag=""):
    r = rep.rule("C18.WS" + tag, 5,
                 "WHITESPACE is exactly RFC ws, silent, disjoint from the first character of every token; COMMENT "
                 "is undefined; no token can be extended by a character that may follow it")
    if "WHITESPACE" not in rules:
        r.violation("defined", JSON, "WHITESPACE is not defined: no insignificant whitespace is accepted")
        return
    mod, e = rules["WHITESPACE"]
    cl = Lex(rules, r).cls_of_single(e)
    r.instance("class", JSON, str(cl))
    if cl is None or cls_union(cl) != cls_union(RFC_WS):
        r.violation("class", JSON, "WHITESPACE matches %s, RFC 8259 ws is space / tab / LF / CR" % (cl,))
    r.instance("silent", JSON, mod)
    if mod != "_":
        r.violation("silent", JSON, "WHITESPACE is not silent: whitespace pairs appear in the token tree")
    r.instance("comment", JSON)
    if "COMMENT" in rules:
        r.violation("comment", JSON, "COMMENT is defined: comments would be accepted between tokens, RFC 8259 has none")
    token_first = cls_union(chars('"'), chars("-"), [(0x30, 0x39)], chars("{"), chars("["), chars("}"), chars("]"),
                            chars(":"), chars(","), chars("t"), chars("f"), chars("n"))
    r.instance("disjoint", JSON)
    if cl and cls_intersect(cl, token_first):
        r.violation("disjoint", JSON, "a WHITESPACE character can start a token")
    # non-atomic rules contain only tokens / rule references joined by ~ | * ? : no predicates, no ranges
    for n, (mod2, ex) in rules.items():
        if mod2 in ("@", "$") or n == "WHITESPACE":
            continue
        for x in walk_expr(ex):
            if x[0] in ("neg", "pos", "range", "insens", "push", "peek"):
                r.violation("shape:" + n, JSON, "non-atomic rule %s uses %s: the token-level reading does not apply" % (n, x[0]))
    r.instance("shape", JSON)


# ------------------------------------------------------------------ token layer

def syn(rep, rules, tag=""):
    r = rep.rule("C18.SYN" + tag, 7,
                 "token level: after factoring common literal prefixes every choice and repetition of json / value / "
                 "object / pair / array is LL(1); each production is equivalent to the RFC's over tokens and "
                 "nonterminals")
    atomic = set(n for n, (m, e) in rules.items() if m in ("@", "$"))
    nonterm = [n for n, (m, e) in rules.items() if m not in ("@", "$", "_")]
    # symbols: literal tokens "x", token rules <string>/<number>, nonterminals
    def conv(e):
        k = e[0]
        if k == "str":
            return ("sym", e[1])
        if k == "ident":
            if e[1] in ("SOI", "EOI"):
                return ("eps",)
            return ("sym", "<%s>" % e[1])
        if k == "seq":
            return ("cat", [conv(x) for x in e[1]])
        if k == "choice":
            return ("alt", [conv(x) for x in e[1]])
        if k == "opt":
            return ("opt", conv(e[1]))
        if k == "rep":
            return ("star", conv(e[1]))
        if k == "rep1":
            return ("plus", conv(e[1]))
        raise Undecidable("construct %s at token level" % k)

    prods = {}
    for n in nonterm:
        try:
            prods[n] = factor(conv(rules[n][1]))
        except Undecidable as e:
            r.violation("shape:" + n, JSON, "rule %s: %s" % (n, e))
            return
    # inline bool / null (literal choices) into value for the comparison; they are also LL(1)-checked
    # FIRST / FOLLOW over the CFG
    first, nullable = {}, {}
    for n in prods:
        first[n], nullable[n] = set(), False
    changed = True

    def fst(rx):
        k = rx[0]
        if k == "eps":
            return set(), True
        if k == "sym":
            s = rx[1]
            if s.startswith("<") and s[1:-1] in prods:
                return set(first[s[1:-1]]), nullable[s[1:-1]]
            return {s}, False
        if k == "cat":
            out = set()
            for x in rx[1]:
                f, n = fst(x)
                out |= f
                if not n:
                    return out, False
            return out, True
        if k == "alt":
            out, nul = set(), False
            for x in rx[1]:
                f, n = fst(x)
                out |= f
                nul = nul or n
            return out, nul
        if k in ("star", "opt"):
            return fst(rx[1])[0], True
        if k == "plus":
            return fst(rx[1])
        raise ValueError(k)

    while changed:
        changed = False
        for n, rx in prods.items():
            f, nu = fst(rx)
            if f != first[n] or nu != nullable[n]:
                first[n], nullable[n] = f, nu
                changed = True
    follow = {n: set() for n in prods}
    start = "json" if "json" in prods else None
    if start is None:
        r.violation("start", JSON, "rule json missing")
        return
    follow[start].add("$")
    changed = True

    def walk_follow(rx, fol):
        nonlocal changed
        k = rx[0]
        if k == "sym":
            s = rx[1]
            if s.startswith("<") and s[1:-1] in prods:
                nm = s[1:-1]
                if not fol <= follow[nm]:
                    follow[nm] |= fol
                    changed = True
        elif k == "cat":
            for i, x in enumerate(rx[1]):
                f, n = fst(("cat", rx[1][i + 1:]))
                walk_follow(x, (f | fol) if n else f)
        elif k == "alt":
            for x in rx[1]:
                walk_follow(x, fol)
        elif k in ("star", "plus"):
            walk_follow(rx[1], fst(rx[1])[0] | fol)
        elif k == "opt":
            walk_follow(rx[1], fol)

    while changed:
        changed = False
        for n, rx in prods.items():
            walk_follow(rx, set(follow[n]))
    # LL(1) conditions
    cnt = [0]

    def ll1(rx, fol, where):
        k = rx[0]
        if k == "cat":
            for i, x in enumerate(rx[1]):
                f, n = fst(("cat", rx[1][i + 1:]))
                ll1(x, (f | fol) if n else f, where)
        elif k == "alt":
            fs = []
            for x in rx[1]:
                f, n = fst(x)
                fs.append((f | fol) if n else f)
            for i in range(len(fs)):
                for j in range(i + 1, len(fs)):
                    cnt[0] += 1
                    if fs[i] & fs[j]:
                        r.violation("ll1:%s:choice" % where, JSON,
                                    "in rule %s two alternatives can start with the same token %s: ordered choice may "
                                    "hide a parse, equivalence with the RFC cannot be concluded" % (where, sorted(fs[i] & fs[j])))
            for x in rx[1]:
                ll1(x, fol, where)
        elif k in ("star", "opt", "plus"):
            f, n = fst(rx[1])
            cnt[0] += 1
            if (f & fol) or n:
                r.violation("ll1:%s:%s" % (where, k), JSON, "in rule %s a repeated/optional part can start with a token "
                            "that may follow it (%s)" % (where, sorted(f & fol)))
            ll1(rx[1], (f | fol) if k != "opt" else fol, where)

    for n, rx in prods.items():
        ll1(rx, follow[n], n)
    r.instance("ll1", JSON, "%d conditions over %d productions" % (cnt[0], len(prods)))
    # production-wise equivalence with RFC 8259
    S = lambda x: ("sym", x)
    VALUE = S("<value>")
    rfc = {
        "json": VALUE,
        "value": ("alt", [S("false"), S("null"), S("true"), S("<object>"), S("<array>"), S("<number>"), S("<string>")]),
        "object": ("cat", [S("{"), ("opt", ("cat", [S("<pair>"), ("star", ("cat", [S(","), S("<pair>")]))])), S("}")]),
        "pair": ("cat", [S("<string>"), S(":"), VALUE]),
        "array": ("cat", [S("["), ("opt", ("cat", [VALUE, ("star", ("cat", [S(","), VALUE]))])), S("]")]),
    }
    # inline bool / null into value
    def inline(rx):
        k = rx[0]
        if k == "sym" and rx[1] in ("<bool>", "<null>") and rx[1][1:-1] in prods:
            return prods[rx[1][1:-1]]
        if k in ("cat", "alt"):
            return (k, [inline(x) for x in rx[1]])
        if k in ("star", "plus", "opt"):
            return (k, inline(rx[1]))
        return rx
    for n, want in rfc.items():
        if n not in prods:
            r.violation("production:" + n, JSON, "rule %s missing" % n)
            continue
        got = inline(prods[n])
        syms = sorted(set(symbols(got)) | set(symbols(want)))
        idx = {s: i for i, s in enumerate(syms)}
        w, in_first = reglang.difference_word(map_syms(got, idx), map_syms(want, idx), len(syms))
        r.instance("production:" + n, JSON, "alphabet %d symbols" % len(syms))
        if w is not None:
            seq_txt = " ".join(syms[a] for a in w)
            r.violation("production:" + n, JSON,
                        "rule %s %s the token sequence `%s`, RFC 8259's %s production %s it" % (
                            n, "derives" if in_first else "does not derive", seq_txt, n, "does not" if in_first else "does"))
    # json must be anchored
    je = rules["json"][1]
    anchored = je[0] == "seq" and je[1][0] == ("ident", "SOI") and je[1][-1] == ("ident", "EOI")
    r.instance("anchored", JSON)
    if not anchored:
        r.violation("anchored", JSON, "rule json is not SOI ~ .. ~ EOI: trailing garbage after a value is accepted")
    extra = set(prods) - set(rfc) - {"bool", "null"}
    for n in sorted(extra):
        r.note("additional non-atomic rule %s (not reachable from json is fine)" % n)


def symbols(rx):
    k = rx[0]
    if k == "sym":
        yield rx[1]
    elif k in ("cat", "alt"):
        for x in rx[1]:
            for y in symbols(x):
                yield y
    elif k != "eps":
        for y in symbols(rx[1]):
            yield y


def map_syms(rx, idx):
    k = rx[0]
    if k == "sym":
        return ("sym", frozenset([idx[rx[1]]]))
    if k in ("cat", "alt"):
        return (k, [map_syms(x, idx) for x in rx[1]])
    if k == "eps":
        return rx
    return (k, map_syms(rx[1], idx))


def factor(rx):
    """Factor a common leading literal token out of the alternatives of a choice (PEG law: a common
    deterministic prefix can be factored: A B / A C == A (B / C))."""
    k = rx[0]
    if k == "alt":
        alts = [factor(x) for x in rx[1]]
        seqs = [a[1] if a[0] == "cat" else [a] for a in alts]
        if len(seqs) > 1 and all(s and s[0][0] == "sym" and not s[0][1].startswith("<") for s in seqs) \
                and len(set(s[0][1] for s in seqs)) == 1:
            head = seqs[0][0]
            rest = [("cat", s[1:]) if len(s) > 2 else (s[1] if len(s) == 2 else ("eps",)) for s in seqs]
            return ("cat", [head, factor(("alt", rest))])
        return ("alt", alts)
    if k == "cat":
        return ("cat", [factor(x) for x in rx[1]])
    if k in ("star", "plus", "opt"):
        return (k, factor(rx[1]))
    return rx


def tree(rep, rules, tag=""):
    r = rep.rule("C18.TREE" + tag, 10,
                 "json, value, object, pair, array, bool, null are normal rules (one pair each); string and number "
                 "are atomic (@: no inner pairs); WHITESPACE is silent; helper rules are reachable only inside @ rules")
    for n in ("json", "value", "object", "pair", "array", "bool", "null"):
        m = rules.get(n, (None,))[0]
        r.instance("normal:" + n, JSON, repr(m))
        if m != "":
            r.violation("normal:" + n, JSON, "rule %s has modifier %r: the token tree no longer has one pair per %s" % (n, m, n))
    for n in ("string", "number"):
        m = rules.get(n, (None,))[0]
        r.instance("atomic:" + n, JSON, repr(m))
        if m != "@":
            r.violation("atomic:" + n, JSON, "rule %s has modifier %r (expected @): inner pairs or whitespace appear" % (n, m))
    helpers = set(rules) - {"json", "value", "object", "pair", "array", "bool", "null", "string", "number", "WHITESPACE"}
    for n, (m, e) in rules.items():
        if m in ("@",):
            continue
        used = set(pestgram.idents(e)) & helpers
        if used and n not in helpers:
            r.violation("helper-leak:" + n, JSON, "helper rule(s) %s are referenced from non-atomic rule %s: extra pairs "
                        "appear in the tree" % (sorted(used), n))
    r.instance("helpers", JSON, str(sorted(helpers)))


def builtins(rep):
    """The built-ins json.pest relies on keep their documented meaning in generated code (C01.BUILTINS)."""
    from . import c01, c02
    from .. import synx
    f = facts.facts("default")
    gen, vm, meta = f.crate("pest_generator"), f.crate("pest_vm"), f.crate("pest_meta")
    r = rep.rule("C18.BUILTINS", 6, "ASCII_DIGIT, ASCII_NONZERO_DIGIT, ASCII_HEX_DIGIT, ANY, SOI, EOI in generated code "
                 "denote the documented ranges / operations")
    if gen is None:
        r.lost("pest_generator facts")
        return
    macros = synx.extract([c02.GENFILE, "generator/src/macros.rs"])
    ctx = c02.Ctx(gen, vm, meta, macros, "default")
    gb = c02.gen_builtin_terms(ctx)
    for name in ("ASCII_DIGIT", "ASCII_NONZERO_DIGIT", "ASCII_HEX_DIGIT", "ANY", "SOI", "EOI"):
        want = c01.BUILTIN_ORACLE[name]
        if name not in gb:
            r.violation(name, c02.GENFILE, "built-in %s missing from the generator" % name)
            continue
        t, m, problems = gb[name]
        got = c01.classify(t)
        r.instance(name, "%s:%s" % (c02.GENFILE, m["line"]), c01.fmt(got))
        ok = got[0] == want[0] and (got[1] == want[1] if want[0] != "term" else c02.norm(got[1]) == c02.norm(want[1]))
        if problems or not ok:
            r.violation(name, "%s:%s" % (c02.GENFILE, m["line"]),
                        "generated code for %s is %s, documented (and assumed by json.pest) as %s: e.g. \\u escapes "
                        "accept non-hex letters" % (name, c01.fmt(got), c01.fmt(want)))
