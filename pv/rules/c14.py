"""C14 — the bootstrapped grammar parser is the parser its grammar file denotes (DESIGN.md section 4, C14).

  FRESH   a parser derived from meta/src/grammar.pest with the current tree's pest_derive (harness crate,
          compiled only, never run) has, function by function, the same combinator terms as the checked-in
          meta/src/grammar.rs compiled inside pest_meta; same Rule enum (variants and order), same rule set,
          same dispatch.  Identical terms are identical programs, which discharges "on every text" without
          running either.
  The VM half of the statement is C02 applied to the same grammar (VM == generated code for every grammar).
"""
import re
from .. import facts, hirq, terms
from ..hirq import walk, kind, callee, where, peel
from ..terms import HirFront, norm, show

LEVEL = "translation_validation"

# C14 has three parties: the checked-in grammar.rs, a fresh expansion, and the VM over the optimized grammar.pest.
# FRESH (below) decides checked-in = fresh. "fresh = VM" on the meta-grammar is an instance of C02's generator/VM
# agreement, decided for every construct (grammar.pest uses no grammar-extras construct, so the default configuration).
DEPENDS = [
    ("C02", {"skip_keys": ["NodeTag"],
             "why": "the VM run of grammar.pest agrees with the generated parser iff each construct, rule modifier, "
                    "built-in, skip case and entry dispatch is translated alike - in the default build and in a build "
                    "with grammar-extras (where `e+` reaches the back-ends as its own node); grammar.pest uses no node "
                    "tags, so the known tag divergence of C02 is not an obligation here"}),
    ("C12", {"only_rules": ["SETTER"],
             "why": "the three parsers spend different numbers of calls on one text, so they agree only while no call "
                    "limit is in force: no library code may set the process-wide limit"}),
    ("C05", {"why": "the fresh derivation and the VM run of grammar.pest both go through the optimizer: they denote the "
                    "grammar only if every pass preserves meaning (in the default build and with grammar-extras)"}),
]

MANIFEST = {
    "technique": "translation validation by regeneration: the derive macro is expanded at compile time in a harness "
                 "crate from the repository's grammar.pest, and the typed HIR of that expansion is compared, function "
                 "by function as combinator terms, with the typed HIR of the checked-in grammar.rs",
    "text": "Decides that the checked-in self-hosted parser is exactly what the current generator, optimizer and "
            "validator produce from grammar.pest: every rule function, the implicit skip, the Rule enum and the "
            "start-rule dispatch are term-identical, so the two parsers agree on acceptance, token tree and error for "
            "every text. Agreement with the VM follows from C02.",
    "note": "Regeneration is circular in one respect (the macro reads grammar.pest with the checked-in parser); a "
            "stale or hand-edited grammar.rs, or a generator/optimizer change that alters the meta-parser, is "
            "detected. The proc macro runs at compile time as in any build; no parser is executed.",
}

VIS = "::rules::visible::"
HID = "::rules::hidden::"


def run(rep, tier):
    entry(rep)
    independent(rep)
    rep.explanation = (
        "programs = rule functions of the meta-grammar parser (+ skip, enum, dispatch); each is compared between "
        "the fresh expansion and the checked-in file after reduction to combinator terms.")
    rep.configs = ["harness:fresh_meta"]
    r = rep.rule("C14.FRESH", 60,
                 "every rules::visible::* / hidden::skip function, the Rule enum and the parse dispatch of the fresh "
                 "expansion equal those of the checked-in grammar.rs")
    try:
        cs = facts.harness_crates("fresh_meta", ["fresh_meta", "pest_meta"],
                                  subst={"GRAMMAR": facts.REPO + "/meta/src/grammar.pest"})
    except facts.BuildFailed as e:
        r.violation("BUILD", "", "the harness deriving a parser from meta/src/grammar.pest does not compile: %s" % e)
        return
    fresh = cs.get("fresh_meta", [None])[0]
    metas = cs.get("pest_meta", [])
    if fresh is None or not metas:
        r.lost("facts of the harness / pest_meta")
        return
    meta = metas[0]

    def rule_fns(crate):
        out = {}
        for b in crate.bodies:
            for tag in (VIS, HID):
                if tag in b["path"] and b["dk"] == "Fn":
                    out[(tag.strip(":").split("::")[-1], b["name"])] = b
        return out

    ff, mf = rule_fns(fresh), rule_fns(meta)
    programs = 0
    dis = 0
    samples = []
    for key in sorted(set(ff) | set(mf)):
        programs += 1
        name = "%s::%s" % key
        if key not in mf:
            dis += 1
            r.violation("only-fresh:" + name, where(ff[key]["body"]), "grammar.pest yields rule function %s, which the "
                        "checked-in grammar.rs does not have (stale grammar.rs)" % name)
            continue
        if key not in ff:
            dis += 1
            r.violation("only-checked-in:" + name, where(mf[key]["body"]), "grammar.rs has rule function %s, which "
                        "grammar.pest no longer yields" % name)
            continue
        ta, pa = term_of(ff[key])
        tb, pb = term_of(mf[key])
        r.instance(name, where(mf[key]["body"]), show(tb)[:160])
        if len(samples) < 5:
            samples.append({"program": name, "checked_in": show(tb)[:300], "fresh": show(ta)[:300]})
        if pa or pb:
            r.violation("shape:" + name, where(mf[key]["body"]), "generated function not understood (%s %s)" % (pa[:2], pb[:2]))
        elif ta != tb:
            dis += 1
            r.violation("differs:" + name, where(mf[key]["body"]),
                        "rule %s: the checked-in parser executes `%s`, the parser its grammar denotes today executes "
                        "`%s`" % (name, show(tb)[:400], show(ta)[:400]))
    # Rule enum
    ea = next((a for a in fresh.adts if a["path"].endswith("::Rule")), None)
    eb = next((a for a in meta.adts if a["path"] == "pest_meta::parser::grammar::Rule"), None)
    programs += 1
    if ea is None or eb is None:
        r.lost("Rule enums")
    else:
        va = [v["name"] for v in ea["variants"]]
        vb = [v["name"] for v in eb["variants"]]
        r.instance("enum:Rule", where(eb), "%d variants" % len(vb))
        if va != vb:
            dis += 1
            r.violation("enum:Rule", where(eb), "Rule enum differs (variants or order): only fresh %s, only checked-in %s"
                        % (sorted(set(va) - set(vb)), sorted(set(vb) - set(va))))
    # dispatch
    def dispatch(crate):
        out = {}
        for b in crate.bodies:
            if b["name"] == "parse" and b.get("impl_trait") == "pest::parser::Parser":
                for m in walk(b["body"]):
                    if kind(m) == "Match":
                        for arm in m["arms"]:
                            pv = hirq.pat_variants(arm["pat"])
                            if pv and pv[0].split("::")[-2] == "Rule":
                                tgt = [callee(x) for x in walk(arm["body"]) if kind(x) == "Call" and isinstance(callee(x), str) and (VIS in callee(x) or HID in callee(x))]
                                out[pv[0].split("::")[-1]] = [t.split("::")[-1] for t in tgt]
        return out
    da, db = dispatch(fresh), dispatch(meta)
    programs += 1
    r.instance("dispatch", "", "%d start rules" % len(db))
    if not db:
        r.lost("Parser::parse dispatch of the checked-in parser")
    elif da != db:
        dis += 1
        bad = sorted(k for k in set(da) | set(db) if da.get(k) != db.get(k))
        r.violation("dispatch", "", "start-rule dispatch differs for %s" % bad[:10])
    rep.extra["programs"] = programs
    rep.extra["disagreements_checked"] = dis
    rep.extra["samples"] = samples or [{"note": "no programs"}]


def entry(rep):
    r = rep.rule("C14.ENTRY", 1,
                 "pest_meta::parser::parse(rule, text) is the checked-in parser and nothing else: on every path it returns "
                 "PestParser::parse(rule, text) with both parameters passed on unchanged (through immutable lets only)")
    meta = facts.facts("default").crate("pest_meta")
    fn = meta.fn("pest_meta::parser::parse") if meta else None
    if fn is None:
        r.lost("pest_meta::parser::parse")
        return
    params = [p["id"] for p in fn["params"] if p.get("k") == "PBind"]
    lets = hirq.lets(fn["body"])
    modes = hirq.binding_modes(fn)

    def res(n):
        n = hirq.peel(n)
        d = 0
        while d < 6 and hirq.kind(n) == "Path" and n.get("res") == "local" and n["id"] in lets and not modes.get(n["id"]):
            n = hirq.peel(lets[n["id"]][0])
            d += 1
        return n
    leaves = hirq.tail_leaves(fn["body"]) + [x["e"] for x in hirq.walk(fn["body"]) if hirq.kind(x) == "Ret" and x.get("e")]
    for leaf in leaves:
        v = res(leaf)
        r.instance("return", hirq.where(leaf))
        ok = (hirq.kind(v) == "Call" and hirq.callee(v) == "pest::parser::Parser::parse"
              and "PestParser" in " ".join(v["f"].get("targs", [])) and len(v["args"]) == 2)
        if ok:
            a = [res(x) for x in v["args"]]
            ok = all(hirq.kind(x) == "Path" and x.get("res") == "local" for x in a) and [x["id"] for x in a] == params[:2]
        if not ok:
            r.violation("return", hirq.where(leaf),
                        "parser::parse does not return PestParser::parse(rule, data) on its own parameters (%s): the "
                        "entry point then accepts or locates differently from the grammar file run any other way"
                        % hirq.expr_text(leaf)[:100])
    if not leaves:
        r.lost("return value of parser::parse")


def peg_norm(e, rules):
    """Documented normal form of the optimizer, applied to either side: e+ = e e*, e{m,n} unrolled, ~ and | flattened,
    and a reference to a rule that is only a choice of literals inlined under `!` (a predicate emits no token, so the
    reference and its definition are interchangeable there; the skip-until rewrite relies on this)."""
    def lits_only(name, seen=()):
        if name not in rules or name in seen:
            return None
        out = []
        from .. import pestgram
        for a in pestgram.alternatives(rules[name][1]):
            if a[0] == "str":
                out.append(a)
            elif a[0] == "ident":
                sub = lits_only(a[1], seen + (name,))
                if sub is None:
                    return None
                out += sub
            else:
                return None
        return out

    def N(e, under_neg=False):
        k = e[0]
        if k == "rep1":
            x = N(e[1], under_neg)
            return N(("seq", [x, ("rep", x)]), under_neg)
        if k == "repn":
            x = N(e[1], under_neg)
            lo, hi = e[2], e[3]
            items = [x] * lo
            if hi is None:
                items.append(("rep", x))
            else:
                items += [("opt", x)] * (hi - lo)
            return N(("seq", items), under_neg) if len(items) != 1 else items[0]
        if k in ("seq", "choice"):
            out = []
            for x in e[1]:
                x = N(x, under_neg)
                if x[0] == k:
                    out += x[1]
                else:
                    out.append(x)
            return (k, out) if len(out) != 1 else out[0]
        if k == "neg":
            return (k, N(e[1], True))
        if k in ("rep", "opt", "pos", "push"):
            return (k, N(e[1], under_neg))
        if k == "ident" and under_neg:
            ls = lits_only(e[1])
            if ls:
                return ("choice", ls) if len(ls) > 1 else ls[0]
        return e
    return N(e)


def independent(rep):
    """grammar.rs read back (typed HIR -> combinator terms -> PEG) against grammar.pest read by pv/pestgram.py: neither
    side passes through pest's own reader, optimizer or generator, which breaks the circularity of regeneration."""
    from .. import decompile, pestgram
    r = rep.rule("C14.INDEPENDENT", 60,
                 "every rule function of the checked-in grammar.rs decompiles to the expression grammar.pest gives that "
                 "rule (same modifier), modulo the optimizer's documented normal form; the implicit skip is the "
                 "documented WHITESPACE/COMMENT loop; the rule sets coincide")
    meta = facts.facts("default").crate("pest_meta")
    if meta is None:
        r.lost("pest_meta facts")
        return
    try:
        rt = decompile.rule_terms(meta, "PestParser")
        g = decompile.grammar(rt)
    except decompile.NotUnderstood as e:
        r.violation("decompile", "meta/src/grammar.rs", "grammar.rs is not understood: %s" % e)
        return
    try:
        s = pestgram.rules_dict(pestgram.parse_file(facts.REPO + "/meta/src/grammar.pest"))
    except Exception as e:
        r.lost("meta/src/grammar.pest not readable: %s" % e)
        return
    for n in sorted(set(g) | set(s)):
        if n not in g or n not in s:
            r.violation("rule-set:" + n, "meta/src/grammar.rs", "rule %s exists only in %s" % (
                n, "grammar.rs" if n in g else "grammar.pest"))
            continue
        a = (g[n][0], peg_norm(g[n][1], g))
        b = (s[n][0], peg_norm(s[n][1], s))
        r.instance("rule:" + n, "meta/src/grammar.rs")
        if a != b:
            r.violation("rule:" + n, "meta/src/grammar.rs",
                        "grammar.rs implements %s as `%s %s`, grammar.pest says `%s %s`" % (
                            n, a[0], pestgram.show(a[1]) if hasattr(pestgram, "show") else a[1],
                            b[0], pestgram.show(b[1]) if hasattr(pestgram, "show") else b[1]))
    ws, cm = "WHITESPACE" in s, "COMMENT" in s
    rep_ws = ("comb", "repeat", (), ("call", ("lit", "WHITESPACE")))
    rep_cm = ("comb", "repeat", (), ("call", ("lit", "COMMENT")))
    body = {(False, False): None, (True, False): rep_ws, (False, True): rep_cm,
            (True, True): ("comb", "sequence", (), ("then", (rep_ws, ("comb", "repeat", (), ("comb", "sequence", (), (
                "then", (("call", ("lit", "COMMENT")), rep_ws)))))))}[(ws, cm)]
    want = ("ok",) if body is None else ("if", "state.atomicity() == Atomicity::NonAtomic", body, ("ok",))
    r.instance("skip", "meta/src/grammar.rs")
    if rt.get("__skip__") != want:
        r.violation("skip", "meta/src/grammar.rs", "the implicit skip of grammar.rs is `%s`, grammar.pest defines "
                    "WHITESPACE=%s COMMENT=%s" % (show(rt.get("__skip__")) if rt.get("__skip__") else None, ws, cm))


def term_of(fn):
    hf = HirFront(fn, {}, rule_fn_prefix=VIS)
    t = hf.term(fn["body"])
    return canon(norm(t)), hf.problems


def canon(t):
    """Remove crate-specific prefixes from path arguments."""
    if isinstance(t, tuple):
        if len(t) == 2 and t[0] == "path":
            return ("path", t[1])
        return tuple(canon(x) for x in t)
    return t
