"""C01 — parsing conforms to the documented PEG semantics (DESIGN.md section 4, C01).

The whole property (all grammars x inputs, exact pairs) is behavioural and is NOT decided.  Three clauses
are in the shape of the code:
  BUILTINS   every documented built-in has exactly the documented term in both back-ends (oracle: the table
             in derive/src/lib.rs)
  DISPATCH   each grammar operator / rule modifier / the implicit skip is translated by the VM to the reference
             combinator term written from the documentation (modulo laws L1-L3); C02 carries it to generated code
  SKIPGUARD  implicit whitespace is skipped only when atomicity is NonAtomic, in both back-ends
"""
from .. import facts, hirq, synx, terms
from ..hirq import walk, kind, callee, where, peel
from ..terms import norm, show, ctx_erase, law_l3
from . import c02

LEVEL = "other"

# C01's statement is the composition reader -> optimizer -> {generator, VM} -> parser-state combinators. The rules of
# this module decide the middle (each backend's translation of each construct against reference terms); the contracts
# the other stages must keep for the composition to mean the documented semantics are decided by the modules below and
# re-run here, so that a change to parser_state.rs / position.rs / the optimizer / the reader is reported under C01 too.
DEPENDS = [
    ("C03", {"why": "the reference terms bottom out in the ParserState combinators: all-or-nothing sequence/look-ahead, "
                    "rule token emission, primitives that do not move on failure, memchr arms = basic search"}),
    ("C05", {"why": "both backends run the optimized rules: each pass must preserve the matched language and the stack "
                    "restoration points"}),
    ("C07", {"why": "the grammar text must be read into the AST it denotes before either backend sees it"}),
    ("C11", {"why": "PUSH / POP / PEEK / DROP and the restoration of the stack after a failed alternative are Stack's "
                    "snapshot protocol: the documented stack semantics hold only if it implements the copying model"}),
    ("C02", {"only_rules": ["RULE", "ENTRY", "BUILTINS", "SKIP"], "skip_keys": ["NodeTag"],
             "why": "the property is stated for both back-ends: each must wrap every kind of rule (ordinary and "
                    "WHITESPACE/COMMENT) in the documented token / atomicity nesting and resolve the same built-ins"}),
]

MANIFEST = {
    "technique": "table agreement between the documented built-in table and both back-ends' dispatch tables; "
                 "comparison of the VM's per-operator combinator terms (typed HIR) with reference terms written from "
                 "the documented semantics; guard-dominance of the implicit-whitespace routine",
    "text": "Decides the built-in clause exactly (each documented name denotes the documented character ranges / "
            "strings / stack operation in the VM and in generated code) and anchors every operator, modifier and the "
            "implicit skip of the VM to the documented desugaring (sequence = all-or-nothing with skip between "
            "elements; repetition = greedy, skip before every iteration but the first, each iteration "
            "all-or-nothing; predicates = look-ahead; modifiers = the documented nesting of rule() and atomic()). "
            "Together with C02 (VM == generated code) and C03 (combinator contracts) this is the structural "
            "skeleton of conformance; spans, nesting and stack contents as values are not decided.",
    "note": "DISPATCH compares against reference terms in the combinator vocabulary, so an implementation that is "
            "equivalent but shaped differently beyond laws L1-L3 would be reported; the reference is the documented "
            "semantics, not a copy of today's source.",
}

R = lambda a, b: ("range", ("lit", a), ("lit", b))
BUILTIN_ORACLE = {
    "ASCII_DIGIT": ("ranges", {("0", "9")}),
    "ASCII_NONZERO_DIGIT": ("ranges", {("1", "9")}),
    "ASCII_BIN_DIGIT": ("ranges", {("0", "1")}),
    "ASCII_OCT_DIGIT": ("ranges", {("0", "7")}),
    "ASCII_HEX_DIGIT": ("ranges", {("0", "9"), ("a", "f"), ("A", "F")}),
    "ASCII_ALPHA_LOWER": ("ranges", {("a", "z")}),
    "ASCII_ALPHA_UPPER": ("ranges", {("A", "Z")}),
    "ASCII_ALPHA": ("ranges", {("a", "z"), ("A", "Z")}),
    "ASCII_ALPHANUMERIC": ("ranges", {("a", "z"), ("A", "Z"), ("0", "9")}),
    "ASCII": ("ranges", {("\x00", "\x7f")}),
    "NEWLINE": ("strings", ["\n", "\r\n", "\r"]),
    "ANY": ("term", ("prim", "skip", (("lit", 1),))),
    "SOI": ("term", ("prim", "start_of_input", ())),
    "EOI": ("term", ("comb", "rule", (("lit", "EOI"),), ("prim", "end_of_input", ()))),
    "PEEK": ("term", ("prim", "stack_peek", ())),
    "PEEK_ALL": ("term", ("prim", "stack_match_peek", ())),
    "POP": ("term", ("prim", "stack_pop", ())),
    "POP_ALL": ("term", ("prim", "stack_match_pop", ())),
    "DROP": ("term", ("prim", "stack_drop", ())),
}

C0, C1 = ("child", 0), ("child", 1)
REC0, REC1 = ("rec", 0), ("rec", 1)
SK = ("skip",)


def seq(*xs):
    return ("then", tuple(xs))


REFERENCE = {
    "Str": ("prim", "match_string", (C0,)),
    "Insens": ("prim", "match_insensitive", (C0,)),
    "Range": ("prim", "match_range", (("range", C0, C1),)),
    "Ident": ("call", C0),
    "PeekSlice": ("prim", "stack_match_peek_slice", (C0, C1, ("path", "MatchDir::BottomToTop"))),
    "PosPred": ("comb", "lookahead", (("lit", True),), REC0),
    "NegPred": ("comb", "lookahead", (("lit", False),), REC0),
    "Seq": ("comb", "sequence", (), seq(REC0, SK, REC1)),
    "Choice": ("else", (REC0, REC1)),
    "Opt": ("comb", "optional", (), REC0),
    "Rep": ("comb", "sequence", (), ("comb", "optional", (), seq(REC0, ("comb", "repeat", (), ("comb", "sequence", (), seq(SK, REC0)))))),
    "RepOnce": ("comb", "sequence", (), seq(REC0, ("comb", "repeat", (), ("comb", "sequence", (), seq(SK, REC0))))),
    "Push": ("comb", "stack_push", (), REC0),
    "PushLiteral": ("prim", "stack_push_literal", (C0,)),
    "Skip": ("prim", "skip_until", (C0,)),
    "NodeTag": seq(REC0, ("prim", "tag_node", (C1,))),
    "RestoreOnErr": ("comb", "restore_on_err", (), REC0),
}
MODIFIERS = {
    "Normal": [("rule",)],
    "Silent": [],
    "Atomic": [("rule",), ("atomic", ("path", "Atomicity::Atomic"))],
    "CompoundAtomic": [("atomic", ("path", "Atomicity::CompoundAtomic")), ("rule",)],
    "NonAtomic": [("atomic", ("path", "Atomicity::NonAtomic")), ("rule",)],
}
WS = ("comb", "repeat", (), ("call", ("lit", "WHITESPACE")))
CM = ("call", ("lit", "COMMENT"))
SKIP_REF = {
    (False, False): ("ok",),
    (True, False): WS,
    (False, True): ("comb", "repeat", (), CM),
    (True, True): ("comb", "sequence", (), seq(WS, ("comb", "repeat", (), ("comb", "sequence", (), seq(CM, WS))))),
}
GUARD = "state.atomicity() == Atomicity::NonAtomic"


def classify(t):
    """Reduce a built-in term to ('ranges', set) / ('strings', list) / ('term', t)."""
    t = norm(t)
    items = list(t[1]) if t[0] == "else" else [t]
    if all(x[0] == "prim" and x[1] == "match_range" and len(x[2]) == 1 and x[2][0][0] == "range" for x in items):
        rs = set()
        for x in items:
            a, b = x[2][0][1], x[2][0][2]
            rs.add((a[1] if a[0] == "lit" else "?", b[1] if b[0] == "lit" else "?"))
        return ("ranges", rs)
    if all(x[0] == "prim" and x[1] == "match_string" and len(x[2]) == 1 and x[2][0][0] == "lit" for x in items):
        return ("strings", [x[2][0][1] for x in items])
    return ("term", t)


def run(rep, tier):
    rep.explanation = (
        "Reference terms are data in this file, written from the prose of derive/src/lib.rs; the VM's arms are read "
        "from typed HIR and the generator's built-ins from the insert_builtin! argument lists.")
    rep.configs = ["default", "extras"]
    for cfg in rep.configs:
        f = facts.facts(cfg)
        feat = "grammar-extras" if cfg == "extras" else None
        gen = f.crate("pest_generator", want_feature=feat)
        vm = f.crate("pest_vm", want_feature=feat)
        meta = f.crate("pest_meta", want_feature=feat)
        sfx = "" if cfg == "default" else "@" + cfg
        if gen is None or vm is None or meta is None:
            r = rep.rule("C01.ANCHOR" + sfx, 0, "crates present")
            r.lost("facts for " + cfg)
            continue
        macros = synx.extract([c02.GENFILE, "generator/src/macros.rs"])
        ctx = c02.Ctx(gen, vm, meta, macros, cfg)
        builtins(rep, ctx, sfx)
        dispatch(rep, ctx, sfx)
        skipguard(rep, ctx, sfx)


def builtins(rep, ctx, sfx):
    r = rep.rule("C01.BUILTINS" + sfx, 38,
                 "each documented built-in name denotes the documented ranges / strings / stack operation in the VM "
                 "and in generated code")
    vb, mm, fn = c02.vm_builtin_terms(ctx)
    gb = c02.gen_builtin_terms(ctx)
    if not vb or not gb:
        r.lost("built-in tables of the VM / generator")
        return
    for name, want in sorted(BUILTIN_ORACLE.items()):
        for side, table in (("vm", vb), ("generator", gb)):
            key = "%s:%s" % (side, name)
            if name not in table:
                r.violation(key, "", "documented built-in %s is missing from the %s" % (name, side))
                continue
            t, src, problems = table[name]
            got = classify(t)
            w = where(src["body"]) if side == "vm" else "%s:%s" % (c02.GENFILE, src["line"])
            r.instance(key, w, str(got[1]) if got[0] != "term" else show(got[1]))
            if problems:
                r.violation(key + ":shape", w, "built-in %s not understood: %s" % (name, problems))
                continue
            ok = got[0] == want[0] and (got[1] == want[1] if want[0] != "term" else norm(got[1]) == norm(want[1]))
            if not ok:
                r.violation(key, w, "%s in the %s is %s, documented as %s: inputs in the difference are accepted/"
                            "rejected against the documentation" % (name, side, fmt(got), fmt(want)))
    for side, table in (("vm", vb), ("generator", gb)):
        extra = sorted(set(table) - set(BUILTIN_ORACLE))
        if extra:
            r.violation("%s:undocumented" % side, "", "hard-wired built-ins %s are not in the documented table" % extra)


def fmt(c):
    if c[0] == "ranges":
        return "ranges " + ", ".join("%r..%r" % ab for ab in sorted(c[1]))
    if c[0] == "strings":
        return "strings %r (in this order)" % (c[1],)
    return show(c[1])


def dispatch(rep, ctx, sfx):
    n = 14 if not sfx else 17
    r = rep.rule("C01.DISPATCH" + sfx, n + 5 + 4,
                 "VM translation of every operator, every rule modifier and the implicit skip equals the reference "
                 "term written from the documentation (modulo L1-L3)")
    vm = c02.vm_arm_terms(ctx)
    if vm is None:
        r.lost("Vm::parse_expr arms")
        return
    for v in sorted(vm):
        t, arm, problems = vm[v]
        key = "op:" + v
        r.instance(key, where(arm["body"]), show(norm(t)))
        if v not in REFERENCE:
            r.violation(key, where(arm["body"]), "operator %s has no documented reference translation" % v)
            continue
        if problems:
            r.violation(key + ":shape", where(arm["body"]), "VM arm for %s not understood: %s" % (v, problems))
            continue
        got = ctx_erase(norm(t))
        want = ctx_erase(norm(REFERENCE[v]))
        if got != want:
            r.violation(key, where(arm["body"]),
                        "the VM translates %s as `%s`; the documented semantics is `%s` (e.g. a repetition whose "
                        "iteration is not wrapped in `sequence` keeps the whitespace it skipped before a failed "
                        "iteration)" % (v, show(got), show(want)))
    # modifiers (non WHITESPACE/COMMENT rules)
    vfn = ctx.vm.fn(c02.VM + "::parse_rule")
    seen = {}
    adt = ctx.meta.adt(c02.RTYPE)
    variants = [v["name"] for v in adt["variants"]] if adt else list(MODIFIERS)
    for (name, isws), body in sorted(c02.vm_modifier_arms(vfn, variants).items()):
        if isws:
            continue
        hf = terms.HirFront(vfn, {}, rec_callees=[c02.VM + "::parse_expr"], skip_callees=[c02.VM + "::skip"],
                            rule_callees=[c02.VM + "::parse_rule"])
        body = c02.specialise_arm(vfn, body, name, False)
        t = hf.term(body)
        ws, tbody = c02.wrappers(norm(t))
        seen[name] = True
        r.instance("modifier:" + name, where(body), str(ws))
        if hf.problems or tbody[0] != "rec":
            r.violation("modifier:%s:shape" % name, where(body), "modifier arm not understood")
        elif ws != MODIFIERS.get(name):
            r.violation("modifier:" + name, where(body),
                        "rule modifier %s wraps the body as %s, documented nesting is %s" % (name, ws, MODIFIERS.get(name)))
    for name in MODIFIERS:
        if name not in seen:
            r.violation("modifier:" + name, where(vfn["body"]), "no VM arm for rule modifier %s" % name)
    # skip
    sfn = ctx.vm.fn(c02.VM + "::skip")
    for mm in walk(sfn["body"]):
        if kind(mm) == "Match" and kind(peel(mm["scrut"])) == "Tup":
            for arm in mm["arms"]:
                p = arm["pat"]
                if p.get("k") != "PTuple":
                    continue
                flags = tuple(q.get("v") for q in p["pats"] if q.get("k") == "PLit")
                hf = terms.HirFront(sfn, {}, rule_callees=[c02.VM + "::parse_rule"])
                t = norm(hf.term(arm["body"]))
                body = t[2] if t[0] == "if" else t
                key = "skip:ws=%s,comment=%s" % flags
                r.instance(key, where(arm["body"]), show(t))
                if hf.problems:
                    r.violation(key + ":shape", where(arm["body"]), "skip case not understood: %s" % hf.problems)
                elif flags in SKIP_REF and norm(body) != norm(SKIP_REF[flags]):
                    r.violation(key, where(arm["body"]), "implicit skip is `%s`, documented as `%s` "
                                "(WHITESPACE* (COMMENT WHITESPACE*)*)" % (show(body), show(norm(SKIP_REF[flags]))))
            break


def skipguard(rep, ctx, sfx):
    r = rep.rule("C01.SKIPGUARD" + sfx, 6,
                 "every non-trivial case of Vm::skip and of generate_skip runs only under "
                 "`atomicity() == NonAtomic`")
    sfn = ctx.vm.fn(c02.VM + "::skip")
    for mm in walk(sfn["body"]):
        if kind(mm) == "Match" and kind(peel(mm["scrut"])) == "Tup":
            for arm in mm["arms"]:
                p = arm["pat"]
                if p.get("k") != "PTuple":
                    continue
                flags = tuple(q.get("v") for q in p["pats"] if q.get("k") == "PLit")
                if flags == (False, False):
                    continue
                hf = terms.HirFront(sfn, {}, rule_callees=[c02.VM + "::parse_rule"])
                t = norm(c02.hoisted_guards(sfn, arm, hf, hf.term(arm["body"])))
                key = "vm:ws=%s,comment=%s" % flags
                r.instance(key, where(arm["body"]))
                if not (t[0] == "if" and t[1] == GUARD and t[3] == ("ok",)):
                    r.violation(key, where(arm["body"]), "the VM skips implicit whitespace without testing that "
                                "atomicity is NonAtomic: atomic rules would skip WHITESPACE/COMMENT")
            break
    if not any(kind(mm) == "Match" and kind(peel(mm["scrut"])) == "Tup" for mm in walk(sfn["body"])):
        # Vm::skip written with guard clauses: evaluate it per flag combination, in atomic and non-atomic mode
        for flags in ((True, False), (False, True), (True, True)):
            hf = terms.HirFront(sfn, {}, rule_callees=[c02.VM + "::parse_rule"])
            ta = c02.vm_skip_eval(sfn, hf, flags[0], flags[1], False)
            tn = c02.vm_skip_eval(sfn, hf, flags[0], flags[1], True)
            key = "vm:ws=%s,comment=%s" % flags
            r.instance(key, where(sfn["body"]))
            if ta is None or tn is None or norm(ta) != ("ok",) or norm(tn) == ("ok",):
                r.violation(key, where(sfn["body"]), "the VM skips implicit whitespace without testing that "
                            "atomicity is NonAtomic: atomic rules would skip WHITESPACE/COMMENT")
    gmac = [m for m in ctx.macros[c02.GENFILE] if m["macro"] == "generate_rule" and m["fn"] == c02.gen_name(ctx.gen, "generate_skip")]
    for m in gmac:
        if len(m.get("args", [])) != 2:
            continue
        fr = terms.TemplateFront({})
        t = norm(fr.term(m["args"][1]))
        if t == ("ok",):
            continue
        key = "generator:line-case-%d" % [x["line"] for x in gmac].index(m["line"])
        r.instance(key, "%s:%s" % (c02.GENFILE, m["line"]))
        if not (t[0] == "if" and t[1] == GUARD and t[3] == ("ok",)):
            r.violation(key, "%s:%s" % (c02.GENFILE, m["line"]), "generated skip does not test that atomicity is NonAtomic")
