"""C17 — the debugger reports exactly the breakpoint hits under any timing (DESIGN.md section 4, C17).

Exactness of the event sequence over all interleavings is NOT decided, and `thread::park` outside a
predicate loop is not armed (std's Linux parker does not wake spuriously, so no failing schedule can be
shown).  Decided necessary conditions:
  LOCK           no MutexGuard of the breakpoint set is live across a blocking call (send / park / join)
  STOPORDER      run(): set the stop flag, then unpark, then join the previous thread; the flag is cleared
                 only after the join
  LISTENERFIRST  Vm::parse_rule offers every rule entry to the listener first and aborts on `true`; the
                 listener checks the stop flag before anything else, sends before it parks, and parks only
                 after a send
  DONEFLAG       the parser thread sets the done flag only after it delivered its final event; cont()
                 refuses once the flag is set
"""
from .. import facts, hirq
from ..hirq import walk, kind, callee, where, peel, PathEnum, exits

LEVEL = "other"
DC = "pest_debugger::DebuggerContext"
LOCKC = "std::sync::poison::mutex::Mutex::lock"
BLOCKING = {"std::sync::mpsc::SyncSender::send", "std::sync::mpsc::Sender::send", "std::thread::functions::park",
            "std::thread::join_handle::JoinHandle::join", "std::sync::mpsc::Receiver::recv"}
PARK = "std::thread::functions::park"
UNPARK = "std::thread::thread::Thread::unpark"
JOIN = "std::thread::join_handle::JoinHandle::join"
STORE = "core::sync::atomic::Atomic::store"
LOAD = "core::sync::atomic::Atomic::load"
SEND = {"std::sync::mpsc::SyncSender::send", "std::sync::mpsc::Sender::send"}

MANIFEST = {
    "technique": "lock-scope (guard liveness from block structure) vs blocking calls, ordering/dominance on "
                 "enumerated control-flow paths of run(), the listener closure and Vm::parse_rule (typed HIR)",
    "text": "Decides four schedule-independent necessary conditions of the debugger protocol: the breakpoint lock "
            "is never held across a blocking operation (otherwise add/delete-breakpoint deadlocks against a parked "
            "parser); a re-run stops the previous parser by flag, wake-up, join in that order and only then clears "
            "the flag; every rule entry is offered to the listener before any parsing and a stop request aborts at "
            "the next entry; the listener never parks without having delivered an event and never delivers after "
            "a stop request. It does not decide the exact event sequence under all interleavings.",
    "note": "Ordering rules are per thread (program order); cross-thread visibility relies on SeqCst atomics and "
            "the park/unpark token semantics of std, which are trusted.",
}


def run(rep, tier):
    rep.explanation = (
        "The debugger's three synchronisation objects (stop flag, breakpoint mutex, park token) are located by "
        "resolved callee; guard liveness is the lexical scope of the `let` binding a lock() result (temporaries "
        "die at the end of their statement).")
    rep.configs = ["default"]
    f = facts.facts("default")
    dbg = f.crate("pest_debugger", kind="Rlib")
    vm = f.crate("pest_vm")
    if dbg is None or vm is None:
        r = rep.rule("C17.ANCHOR", 0, "crates present")
        r.lost("pest_debugger / pest_vm facts")
        return
    lock(rep, dbg)
    stoporder(rep, dbg)
    listener(rep, dbg, vm)
    doneflag(rep, dbg)
    dispatch_paths(rep, vm)
    shared(rep, dbg)
    joinsend(rep, dbg)
    setops(rep, dbg)
    cli = f.crate("pest_debugger", kind="Executable")
    if cli is not None and cli is not dbg:
        recvorder(rep, cli)
        startuporder(rep, cli)
        freshchannel(rep, cli)


def spawner(dbg):
    """The private method of DebuggerContext that starts the parser thread (std::thread::spawn), whatever it is called."""
    for b in dbg.bodies:
        if b.get("impl_self") == DC and b.get("body") is not None and any(
                kind(x) == "Call" and ("thread::" in str(callee(x)) and str(callee(x)).endswith("::spawn")) for x in walk(b["body"])):
            return b
    return None


def lock(rep, dbg):
    r = rep.rule("C17.LOCK", 4, "no lock guard of the breakpoint set is live across send / park / join")
    for fn in dbg.bodies:
        if fn.get("exp"):
            continue
        for blk in walk(fn["body"]):
            if kind(blk) != "Block":
                continue
            stmts = blk.get("stmts", [])
            for i, st in enumerate(stmts):
                if st.get("k") != "Let" or st.get("init") is None:
                    continue
                locks = [x for x in walk(st["init"]) if kind(x) == "MethodCall" and x.get("path") == LOCKC]
                if not locks or "MutexGuard" not in (st["pat"].get("ty") or ""):
                    continue
                key = "%s@guard:%s" % (fn["path"].split("::")[-1], st["pat"].get("name"))
                r.instance(key, where(st))
                rest = stmts[i + 1:] + ([{"k": "Expr", "e": blk["expr"]}] if blk.get("expr") is not None else [])
                gid = st["pat"].get("id")
                for later in rest:
                    # an explicit drop(guard) ends the scope
                    dropped = any(kind(x) == "Call" and callee(x) == "core::mem::drop" and hirq.local_id(x["args"][0]) == gid
                                  for x in walk(later))
                    for x in hirq.walk_no_closures(later):
                        if kind(x) in ("Call", "MethodCall") and callee(x) in BLOCKING:
                            r.violation(key, where(x), "the breakpoint lock taken at %s is still held while calling %s: "
                                        "add/delete_breakpoint on the controller thread blocks forever against a "
                                        "parked parser" % (where(st), callee(x).split("::")[-1]))
                    if dropped:
                        break
        # temporaries: lock() inside an expression statement that also blocks
        for st in walk(fn["body"]):
            if st.get("k") in ("Semi", "Expr") and isinstance(st.get("e"), dict):
                e = st["e"]
                ls = [x for x in hirq.walk_no_closures(e) if kind(x) == "MethodCall" and x.get("path") == LOCKC]
                if ls and kind(e) not in ("Block", "If", "Match", "Loop"):
                    key = "%s@temp" % fn["path"].split("::")[-1]
                    r.instance(key, where(e))
                    for x in hirq.walk_no_closures(e):
                        if kind(x) in ("Call", "MethodCall") and callee(x) in BLOCKING:
                            r.violation(key, where(x), "a temporary lock guard lives across %s" % callee(x).split("::")[-1])


def stoporder(rep, dbg):
    r = rep.rule("C17.STOPORDER", 3,
                 "DebuggerContext::run: with a previous handle, store(is_done, true) precedes unpark precedes join; "
                 "store(is_done, false) and the spawn of the new parser happen only after the join")
    fn = dbg.fn(DC + "::run")
    if fn is None:
        r.lost("DebuggerContext::run")
        return
    pe = PathEnum(fn)
    npaths = 0
    for (ev, out) in exits(pe.paths()):
        ji = hirq.index_of(ev, lambda e: e.kind == "call" and callee(e.node) == JOIN)
        sp = spawner(dbg)
        spath = sp["path"] if sp is not None else DC + "::handle"
        spawn_i = hirq.index_of(ev, lambda e: e.kind == "call" and callee(e.node) == spath)
        clear = [i for i, e in enumerate(ev) if e.kind == "call" and callee(e.node) == STORE and hirq.lit_value(e.node["args"][0]) is False]
        if spawn_i >= 0 and not any(ci < spawn_i for ci in clear):
            r.violation("clear-missing", where(ev[spawn_i].node), "a new parser is started on a path that did not "
                        "reset is_done: after a session that ran to its end the flag stays set and the new parse "
                        "aborts at its first rule entry")
        if ji < 0:
            # no previous handle on this path: nothing to stop
            took = hirq.index_of(ev, lambda e: e.kind == "cond" and kind(e.node) == "LetExpr" and e.extra is True)
            if took >= 0 and spawn_i >= 0:
                r.violation("join-missing", where(fn["body"]), "a path takes the previous handle and starts a new "
                            "parser without joining the old one")
            continue
        npaths += 1
        ui = hirq.index_of(ev, lambda e: e.kind == "call" and callee(e.node) == UNPARK)
        si = hirq.index_of(ev, lambda e: e.kind == "call" and callee(e.node) == STORE and hirq.lit_value(e.node["args"][0]) is True)
        if ui >= 0:
            if not (0 <= si < ui < ji):
                r.violation("order", where(ev[ui].node), "stop flag / unpark / join are not in this order: a parked "
                            "parser woken before the flag is set parks again and join() never returns")
        else:
            # path where the previous run was already done: fine only if the guard was the done flag
            li = hirq.index_of(ev, lambda e: e.kind == "cond" and any(callee(x) == LOAD for x in walk(e.node)))
            if li < 0:
                r.violation("order:no-unpark", where(ev[ji].node), "join without unpark on a path that did not check "
                            "the done flag")
        for ci in clear:
            if ci < ji:
                r.violation("clear-before-join", where(ev[ci].node), "is_done is reset before the previous parser "
                            "thread was joined: that thread can miss the stop request and run on")
        if 0 <= spawn_i < ji:
            r.violation("spawn-before-join", where(ev[spawn_i].node), "a new parser is started before the old one "
                        "was joined")
    r.instance("paths-with-join", where(fn["body"]), "%d" % npaths)
    r.instance("order", where(fn["body"]))
    r.instance("clear", where(fn["body"]))
    if npaths == 0:
        r.lost("a path of run() that joins the previous handle")


def listener(rep, dbg, vm):
    r = rep.rule("C17.LISTENERFIRST", 5,
                 "Vm::parse_rule calls the listener before anything else and returns Err at once when it answers "
                 "true; the listener closure loads the stop flag first, sends before parking, parks only after a send")
    pr = vm.fn("pest_vm::Vm::parse_rule")
    if pr is None:
        r.lost("Vm::parse_rule")
    else:
        pe = PathEnum(pr)
        bad_first = False
        bad_abort = False
        abort_other_state = None
        n = 0
        for (ev, out) in exits(pe.paths()):
            li = hirq.index_of(ev, lambda e: e.kind == "call" and isinstance(callee(e.node), tuple) and callee(e.node)[2] == "listener")
            have = hirq.index_of(ev, lambda e: e.kind == "cond" and kind(e.node) == "LetExpr" and e.extra is True)
            # the test `if let Some(listener) = self.listener` must come before any parsing work
            test_i = hirq.index_of(ev, lambda e: e.kind == "cond" and kind(e.node) == "LetExpr"
                                   and "listener" in hirq.expr_text(e.node["init"]))
            if test_i < 0:
                # the test spelled with a combinator (`self.listener.as_ref().is_some_and(|listener| listener(..))`, a
                # match in the desugared view) or a `match self.listener { .. }`
                test_i = hirq.index_of(ev, lambda e: e.kind == "arm" and any(
                    kind(y) == "Field" and y["name"] == "listener" for y in walk(e.node.get("scrut") or {})))
            if test_i < 0 and li >= 0:
                test_i = li
            work = [i for i, e in enumerate(ev) if e.kind == "call" and isinstance(callee(e.node), str)
                    and callee(e.node).startswith(("pest::parser_state::ParserState::", "pest_vm::Vm::"))
                    and callee(e.node) != "pest::parser_state::ParserState::position"]
            if work and (test_i < 0 or work[0] < test_i):
                bad_first = True
            if li < 0:
                # no listener configured on this path (if let Some(listener) false)
                continue
            n += 1
            before = [e for e in ev[:li] if e.kind == "call" and isinstance(callee(e.node), str)
                      and callee(e.node).startswith(("pest::parser_state::ParserState::", "pest_vm::Vm::"))
                      and callee(e.node) != "pest::parser_state::ParserState::position"]
            if before:
                bad_first = True
            # truth of the listener's answer
            lets_pr = hirq.lets(pr["body"])

            def is_answer(nd):
                nd = peel(nd)
                if nd is ev[li].node:
                    return True
                if kind(nd) == "Path" and nd.get("res") == "local" and nd["id"] in lets_pr and lets_pr[nd["id"]][0] is not None:
                    return any(y is ev[li].node for y in walk(lets_pr[nd["id"]][0]))
                return False
            ci = hirq.index_of(ev[li:], lambda e: e.kind == "cond" and is_answer(e.node))
            if ci >= 0 and ev[li + ci].extra is True:
                after = [e for e in ev[li + ci + 1:] if e.kind == "call" and isinstance(callee(e.node), str)
                         and callee(e.node).startswith("pest::parser_state::ParserState::")
                         and callee(e.node).split("::")[-1] not in ("new", "position")]
                v = hirq.path_value(ev)
                v = peel(v) if v is not None else None
                if after or not (v is not None and kind(v) == "Call" and callee(v) == "core::result::Result::Err"):
                    bad_abort = True
                else:
                    # the state handed back on abort is the state that was handed in: every enclosing combinator of
                    # the aborted parse goes on to index / truncate the token queue of the state it gets back with
                    # values it saved from the state it passed down
                    sids = [p["id"] for p in pr["params"] if p.get("k") == "PBind" and "ParserState" in p.get("ty", "")]
                    payload = peel(v["args"][0]) if v.get("args") else None
                    lets0 = hirq.lets(pr["body"])
                    d = 0
                    while d < 6 and kind(payload) == "Path" and payload.get("res") == "local" and payload["id"] in lets0:
                        payload = peel(lets0[payload["id"]][0])
                        d += 1
                    if not (kind(payload) == "Path" and payload.get("res") == "local" and payload["id"] in sids):
                        abort_other_state = (v, payload)
        r.instance("parse_rule:listener-first", where(pr["body"]), "%d paths with a listener" % n)
        r.instance("parse_rule:abort", where(pr["body"]))
        r.instance("parse_rule:abort-state", where(pr["body"]))
        if abort_other_state is not None:
            r.violation("parse_rule:abort-state", where(abort_other_state[0]),
                        "on a stop request Vm::parse_rule returns Err(%s), not the state it was given: the enclosing "
                        "rule()/sequence() of the aborted parse then index the returned state's token queue with positions "
                        "saved from the original one; if a later alternative matches, ParserState::rule panics (index out "
                        "of bounds), the parser thread dies and DebuggerContext::run reports PreviousRunPanic instead of "
                        "starting the new run" % hirq.expr_text(abort_other_state[1])[:60])
        if n == 0:
            r.lost("listener call in Vm::parse_rule")
        if bad_first:
            r.violation("parse_rule:listener-first", where(pr["body"]), "parsing work happens before the listener is "
                        "consulted: a rule entry can be missed by the debugger")
        if bad_abort:
            r.violation("parse_rule:abort", where(pr["body"]), "a `true` answer of the listener does not abort the "
                        "rule immediately with Err: a stop request is not honoured at the next rule entry")
    h = spawner(dbg)
    if h is None:
        r.lost("DebuggerContext::handle")
        return
    clos = [x for x in walk(h["body"]) if kind(x) == "Closure" and len(x["params"]) == 2]
    if not clos:
        # the listener is built elsewhere in the crate (`SessionShared::into_listener`) and handed to the spawner: the
        # two-parameter closure that parks the thread
        for b in dbg.bodies:
            if b.get("body") is None or b.get("exp"):
                continue
            clos += [x for x in walk(b["body"]) if kind(x) == "Closure" and len(x["params"]) == 2 and any(
                kind(y) == "Call" and callee(y) == PARK for y in walk(x["body"]))]
    if not clos:
        r.lost("listener closure in DebuggerContext::handle")
        return
    clo = clos[0]
    fake = {"path": h["path"] + "::listener", "body": clo["body"], "params": clo["params"]}
    pe = PathEnum(fake)
    n = 0
    for (ev, out) in exits(pe.paths()):
        n += 1
        calls = [(i, callee(e.node)) for i, e in enumerate(ev) if e.kind == "call" and isinstance(callee(e.node), str)]
        loads = [i for i, cpath in calls if cpath == LOAD]
        sends = [i for i, cpath in calls if cpath in SEND]
        parks = [i for i, cpath in calls if cpath == PARK]
        locks = [i for i, cpath in calls if cpath == LOCKC]
        firsts = [i for i, cpath in calls if cpath in SEND or cpath == PARK or cpath == LOCKC]
        if not loads or (firsts and loads[0] > firsts[0]):
            r.violation("listener:flag-first", where(clo), "the listener does not check the stop flag before "
                        "locking/sending/parking: after a stop request it still delivers an event or parks forever")
        # stop flag true -> return true without sending
        li = hirq.index_of(ev, lambda e: e.kind == "cond" and any(callee(x) == LOAD for x in walk(e.node)))
        if li >= 0 and ev[li].extra is True and (sends or parks):
            r.violation("listener:send-after-stop", where(clo), "an event is delivered (or the thread parks) after "
                        "the stop flag was seen set")
        if parks:
            if not sends or sends[0] > parks[0]:
                r.violation("listener:park-without-send", where(clo), "the parser parks without having delivered a "
                            "breakpoint event first: the controller has nothing to continue from and waits forever")
            if len(parks) > 1 or len(sends) > 1:
                r.violation("listener:multiple", where(clo), "more than one send/park per rule entry: events are "
                            "delivered while waiting for a continue")
        elif sends:
            r.violation("listener:send-without-park", where(clo), "a breakpoint event is sent and the parser does "
                        "not wait for continue: it delivers further events while the controller is waiting")
    r.instance("listener:flag-first", where(clo), "%d paths" % n)
    r.instance("listener:send-park", where(clo))
    r.instance("listener:stop", where(clo))


def doneflag(rep, dbg):
    r = rep.rule("C17.DONEFLAG", 2,
                 "the parser thread stores is_done = true only after sending its final event; cont() returns "
                 "EofReached when the flag is set and otherwise unparks the parser")
    h = spawner(dbg)
    if h is None:
        r.lost("DebuggerContext::handle")
        return
    spawn = [x for x in walk(h["body"]) if kind(x) == "Call" and callee(x) == "std::thread::functions::spawn"]
    if not spawn or kind(spawn[0]["args"][0]) != "Closure":
        r.lost("thread::spawn closure")
        return
    body = spawn[0]["args"][0]["body"]
    fake = {"path": h["path"] + "::thread", "body": body, "params": []}
    pe = PathEnum(fake)
    n = 0
    for (ev, out) in exits(pe.paths()):
        n += 1
        st = [i for i, e in enumerate(ev) if e.kind == "call" and callee(e.node) == STORE and hirq.lit_value(e.node["args"][0]) is True]
        sends = [i for i, e in enumerate(ev) if e.kind == "call" and callee(e.node) in SEND]
        if not st:
            r.violation("thread:done-missing", where(body), "a path of the parser thread ends without setting is_done")
        elif not sends or st[0] < sends[-1]:
            r.violation("thread:done-before-final-event", where(ev[st[0]].node), "is_done is set before the final "
                        "Eof/Error event is delivered: cont() reports EofReached while the event is still pending")
        if len(sends) != 1:
            r.violation("thread:final-events", where(body), "the parser thread delivers %d final events on a path "
                        "(exactly one of Eof / Error expected)" % len(sends))
    r.instance("thread", where(body), "%d paths" % n)
    c = dbg.fn(DC + "::cont")
    if c is None:
        r.lost("DebuggerContext::cont")
        return
    pe = PathEnum(c)
    ok = True
    for (ev, out) in exits(pe.paths()):
        li = hirq.index_of(ev, lambda e: e.kind == "cond" and any(callee(x) == LOAD for x in walk(e.node)))
        ui = hirq.index_of(ev, lambda e: e.kind == "call" and callee(e.node) == UNPARK)
        if li < 0:
            ok = False
        elif ev[li].extra is True and ui >= 0:
            ok = False
        elif ui >= 0 and ui < li:
            ok = False
    r.instance("cont", where(c["body"]))
    if not ok:
        r.violation("cont", where(c["body"]), "cont() unparks without (or before) checking the done flag")


def dispatch_paths(rep, vm):
    r = rep.rule("C17.ENTRYPATHS", 1,
                 "every way of entering a rule in the VM goes through the listener: the function that looks the rule "
                 "up and runs it either consults the listener first itself or is reachable only through the function "
                 "that does")
    # dispatcher: the Vm method that looks up `self.rules.get(..)`
    disp = [b for b in vm.bodies if b.get("impl_self") == "pest_vm::Vm" and any(
        kind(x) == "MethodCall" and x["m"] == "get" and "HashMap" in x.get("rty", "") for x in walk(b["body"]))]
    if not disp:
        r.lost("the Vm method that looks up and runs a rule")
        return
    cg = hirq.CallGraph([vm])
    for d in disp:
        asks = any(kind(x) == "Call" and isinstance(callee(x), tuple) and callee(x)[2] == "listener" for x in walk(d["body"]))
        r.instance(d["path"], where(d["body"]), "consults the listener itself: %s" % asks)
        if asks:
            continue
        for (p, n) in cg.callers_of(d["path"]):
            caller = vm.fn(p)
            c_asks = caller is not None and any(kind(x) == "Call" and isinstance(callee(x), tuple) and callee(x)[2] == "listener"
                                                for x in walk(caller["body"]))
            if p == d["path"]:
                continue
            if not c_asks:
                r.violation("bypass:%s<-%s" % (d["name"], p.split("::")[-1]), where(n),
                            "%s enters a rule through %s without offering the entry to the listener: breakpoints on "
                            "rules entered this way (implicit WHITESPACE/COMMENT) are never delivered and a stop request "
                            "is not honoured there" % (p.split("::")[-1], d["name"]))


def shared(rep, dbg):
    r = rep.rule("C17.SHARED", 2,
                 "the handles shared with the parser thread (Arc fields of DebuggerContext) are never re-assigned "
                 "after construction: both threads keep looking at the same flag and the same breakpoint set")
    adt = dbg.adt(DC)
    if adt is None:
        r.lost("DebuggerContext")
        return
    arcs = [f["name"] for f in adt["variants"][0]["fields"] if f["ty"].startswith("alloc::sync::Arc<")]
    for nm in arcs:
        r.instance("field:" + nm, where(adt))
    if not arcs:
        r.lost("Arc fields of DebuggerContext")
    for fn in dbg.bodies:
        if fn.get("exp"):
            continue
        for x in walk(fn["body"]):
            if kind(x) == "Assign":
                t_ = hirq.field_write_target(x)
                if t_ and t_[1] in arcs and "DebuggerContext" in t_[0]:
                    r.violation("reassign:%s<-%s" % (t_[1], fn["path"].split("::")[-1]), where(x),
                                "%s replaces the shared handle `%s`: a running parser thread holds a clone of the old "
                                "one, so it keeps stopping at (or ignoring) breakpoints the controller no longer sees"
                                % (fn["name"], t_[1]))


# ------------------------------------------------------------------ RECVORDER (the bundled CLI)

def recvorder(rep, cli):
    r = rep.rule("C17.RECVORDER", 1,
                 "the bundled CLI keeps the previous session's receiver alive until DebuggerContext::run has returned: "
                 "run() joins the previous parser thread, whose last act is a send that panics on a closed channel, so "
                 "overwriting (dropping) the stored receiver before the call turns a re-run at a breakpoint into "
                 "PreviousRunPanic and no new session starts")
    n = 0
    for fn in cli.bodies:
        if fn.get("body") is None or fn.get("exp"):
            continue
        calls_run = [x for x in walk(fn["body"]) if kind(x) in ("Call", "MethodCall")
                     and str(callee(x)).endswith("DebuggerContext::run")]
        if not calls_run:
            continue
        n += 1
        key = fn["path"].replace("pest_debugger::", "")
        r.instance(key, where(fn["body"]))
        # the event channel handed to run() has room for one undelivered event: the parser thread that run() stops
        # finishes with one more send while the controller is inside join()
        for x in walk(fn["body"]):
            if kind(x) == "Call" and str(callee(x)).endswith("mpsc::sync_channel") and x["args"]:
                cap = hirq.lit_value(peel(x["args"][0]))
                r.instance(key + ":capacity", where(x), str(cap))
                if cap == 0:
                    r.violation(key + ":capacity", where(x), "the CLI gives the debugger a rendezvous channel (capacity 0): "
                                "the final send of the parser thread being stopped blocks until someone receives, but the "
                                "only receiver is waiting in join(): `r` while parked never returns")
        pe = PathEnum(fn)
        for (ev, out) in pe.paths():
            ri = hirq.index_of(ev, lambda e: e.kind == "call" and str(callee(e.node)).endswith("DebuggerContext::run"))
            if ri < 0:
                continue
            early = [e for e in ev[:ri] if e.kind == "assign" and hirq.field_write_target(e.node)
                     and "receiver" in str(hirq.field_write_target(e.node)[1]).lower()]
            if early:
                r.violation(key, where(early[0].node),
                            "%s stores the new receiver (dropping the previous one) before calling "
                            "DebuggerContext::run: `r`, `c`, `r` while stopped at a breakpoint fails with "
                            "PreviousRunPanic" % fn["name"])
                break
    if n == 0:
        r.lost("the CLI function that calls DebuggerContext::run")


def startuporder(rep, cli):
    r = rep.rule("C17.STARTUPORDER", 1,
                 "in the bundled CLI no function adds breakpoints after it has started a session on the same path: the "
                 "parser thread starts running inside DebuggerContext::run, so breakpoints added afterwards race with "
                 "the parse (with `-r` and `-b` given together the whole input is parsed before the first breakpoint "
                 "exists and every later `c` reports end-of-input)")
    RUN = "DebuggerContext::run"
    ADD = ("DebuggerContext::add_breakpoint", "DebuggerContext::add_all_rules_breakpoints")

    def direct(fn, names):
        return any(kind(x) in ("Call", "MethodCall") and any(str(callee(x)).endswith(n) for n in names)
                   for x in walk(fn["body"]))
    starters = set(f["path"] for f in cli.bodies if f.get("body") is not None and direct(f, (RUN,)))
    adders = set(f["path"] for f in cli.bodies if f.get("body") is not None and direct(f, ADD))
    if not starters or not adders:
        r.lost("CLI wrappers of DebuggerContext::run / add_breakpoint")
        return

    def is_start(n):
        cal = str(callee(n))
        return cal.endswith(RUN) or cal in starters

    def is_add(n):
        cal = str(callee(n))
        return any(cal.endswith(a) for a in ADD) or cal in adders
    n = 0
    for fn in cli.bodies:
        if fn.get("body") is None or fn.get("exp"):
            continue
        nodes = [x for x in walk(fn["body"]) if kind(x) in ("Call", "MethodCall")]
        if not (any(is_start(x) for x in nodes) and any(is_add(x) for x in nodes)):
            continue
        n += 1
        key = fn["path"].replace("pest_debugger::", "")
        r.instance(key, where(fn["body"]))
        try:
            paths = list(PathEnum(fn).paths())
        except hirq.TooManyPaths:
            r.note("%s: too many paths" % key)
            continue
        for (ev, out) in paths:
            si = hirq.index_of(ev, lambda e: e.kind == "call" and is_start(e.node))
            if si < 0:
                continue
            late = [e for e in ev[si + 1:] if e.kind == "call" and is_add(e.node)]
            if late:
                r.violation(key, where(late[0].node),
                            "%s adds a breakpoint after it has started the session: the parse is already running (or "
                            "finished) when the breakpoint appears, so which hits are reported depends on timing"
                            % fn["name"])
                break
    if n == 0:
        r.lost("a CLI function that both starts a session and adds breakpoints (start-up from command-line arguments)")


def setops(rep, dbg):
    r = rep.rule("C17.SETOPS", 3,
                 "the breakpoint set changes only element by element, and each operation changes it in its own direction: "
                 "functions that add breakpoints only insert, functions that delete only remove (or clear) - none assigns "
                 "a new set through the lock guard, which would silently drop the breakpoints (e.g. on built-in rules) the "
                 "controller added before")
    n = 0
    for fn in dbg.bodies:
        if fn.get("impl_self") != DC or fn.get("body") is None or fn.get("exp"):
            continue
        # locals holding the guard of the breakpoint set
        guards = set()
        for x in walk(fn["body"]):
            if x.get("k") == "Let" and x.get("init") is not None and any(
                    kind(y) == "MethodCall" and y["m"] == "lock" and (hirq.place(y["recv"]) or ("", 0, [""]))[2][-1:] == ["breakpoints"]
                    for y in walk(x["init"])):
                for (bid, nm) in hirq.pat_bindings(x["pat"]):
                    guards.add(bid)
        if not guards:
            continue
        adds = "add" in fn["name"]
        dels = any(s in fn["name"] for s in ("delete", "remove", "clear"))
        if not (adds or dels):
            continue
        n += 1
        key = fn["name"]
        r.instance(key, where(fn["body"]))
        for x in walk(fn["body"]):
            if kind(x) == "Assign":
                tgt = peel(x["l"])
                if hirq.local_id(tgt) in guards or (kind(x["l"]) == "Unary" and hirq.local_id(x["l"]["e"]) in guards):
                    r.violation(key + ":assign", where(x),
                                "%s assigns a whole new set through the lock guard: every breakpoint that is not in the new "
                                "set (for instance one on a built-in rule such as EOI) disappears" % fn["name"])
            if kind(x) == "MethodCall" and hirq.local_id(x["recv"]) in guards:
                m_ = x["m"]
                if adds and m_ in ("remove", "clear", "retain", "drain", "take"):
                    r.violation(key + ":" + m_, where(x), "%s removes breakpoints (%s)" % (fn["name"], m_))
                if dels and m_ in ("insert", "extend"):
                    r.violation(key + ":" + m_, where(x), "%s adds breakpoints (%s)" % (fn["name"], m_))
    if n == 0:
        r.lost("the add_* / delete_* operations on the breakpoint set")


def freshchannel(rep, cli):
    r = rep.rule("C17.FRESHCHANNEL", 1,
                 "every session the CLI starts reports through its own channel: the sender handed to DebuggerContext::run "
                 "comes from a channel created on the same path, not from one kept from an earlier run - the parser "
                 "thread that run() stops still sends its last event, which on a shared channel is read as the first "
                 "event of the new session (and every later `c` is one event behind)")
    n = 0
    for fn in cli.bodies:
        if fn.get("body") is None or fn.get("exp"):
            continue
        runs = [x for x in walk(fn["body"]) if kind(x) in ("Call", "MethodCall") and str(callee(x)).endswith("DebuggerContext::run")]
        if not runs:
            continue
        lets = hirq.lets(fn["body"])
        for rn in runs:
            n += 1
            key = fn["path"].replace("pest_debugger::", "")
            r.instance(key, where(rn))
            sender = peel(rn["args"][-1])
            lid = hirq.local_id(sender)
            src = hirq.binding_source(fn, lid) if lid is not None else sender
            hops = 0
            while src is not None and kind(peel(src)) == "Path" and peel(src).get("res") == "local" and hops < 3:
                src = hirq.binding_source(fn, peel(src)["id"])
                hops += 1
            fresh = src is not None and any(kind(y) == "Call" and str(callee(y)).endswith(("mpsc::sync_channel", "mpsc::channel"))
                                            for y in walk(src)) and not any(
                kind(y) == "Field" and "Cli" in str(y.get("bty", "")) for y in walk(src))
            if not fresh:
                r.violation(key, where(rn),
                            "the sender given to DebuggerContext::run (`%s`) is not created by a channel constructor in this "
                            "function: a channel that outlives one run also carries the final event of the session that "
                            "run() terminates" % hirq.expr_text(rn["args"][-1])[:40])
    if n == 0:
        r.lost("the CLI function that calls DebuggerContext::run")


def joinsend(rep, dbg):
    """run() stops the previous session by setting the flag, unparking and JOINING the parser thread.  While it waits in
    join() nobody receives.  A blocking send on the bounded event channel (SyncSender) that the parser thread performs
    after that point waits for a receiver that is waiting for the thread: run() never returns."""
    r = rep.rule("C17.JOINSEND", 2,
                 "every event the parser thread sends can be sent while the controller sits in join(): the channel type is "
                 "unbounded, or the send is non-blocking (try_send) / gives up once the stop flag is set - otherwise an "
                 "event left undelivered in the bounded channel makes the thread's next send block forever and "
                 "DebuggerContext::run deadlocks instead of terminating the previous session")
    sp = spawner(dbg)
    runf = dbg.fn(DC + "::run")
    if sp is None or runf is None:
        r.lost("the parser-thread spawner / DebuggerContext::run")
        return
    joins = any(kind(x) in ("Call", "MethodCall") and callee(x) == JOIN for x in walk(runf["body"]))
    if not joins:
        r.note("run() does not join the previous thread")
        r.floor = 0
        return
    n = 0
    for x in walk(sp["body"]):
        if kind(x) == "MethodCall" and x["m"] == "send" and "SyncSender" in str(x.get("path", "")):
            n += 1
            ctx = hirq.Ctx(sp)
            inner = any(kind(p_) == "Closure" for (p_, k_, i_) in ctx.ancestors(x))
            # which send: the listener's breakpoint event, or the final outcome (arm of the match on vm.parse)
            role = "breakpoint"
            for g in ctx.guards(x):
                if g[0] == "arm":
                    vs = [str(v).split("::")[-1] for v in hirq.pat_variants(g[1]["arms"][g[2]]["pat"])]
                    if "Ok" in vs:
                        role = "final-eof"
                    elif "Err" in vs:
                        role = "final-error"
            key = "send:" + role
            r.instance(key, where(x))
            r.violation(key, where(x),
                        "the parser thread sends its %s event with a blocking `send` on the bounded channel: with an earlier "
                        "event still undelivered (the controller called cont() / run() without receiving it) this send waits "
                        "for the controller, which waits in join() for this thread" % role.replace("-", " "))
    if n == 0:
        r.note("no blocking send on a bounded channel in the parser thread")
        r.floor = 0
