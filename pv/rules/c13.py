"""C13 — operator-precedence parsers build the precedence-correct tree (DESIGN.md section 4, C13).

That the loop applies each operator once and preserves operand order is NOT decided.  The
binding-power convention is in the shape of the code and precedences are touched only by `<`, `- 1`
and `+= PREC_STEP`:
  POWERS  slot table of PrattParserMap: expr loops while rbp < lbp; prefix recurses with prec - 1; infix with
          prec (Left) / prec - 1 (Right); postfix does not recurse
  LEVELS  both table builders add PREC_STEP once per level, levels start >= PREC_STEP, PREC_STEP >= 2
  MACRO   the expansions of prec_climber! and pratt_precedence! on a witness table (harness/climber_witness, compiled,
          never run) give `|`-joined operators one level, later lines the next level, and keep associativity
  CLIMB   PrecClimber numbers levels from 1, compares with >= / (> || Right && ==) and extends the right
          operand in a loop
"""
from .. import facts, hirq
from ..hirq import walk, kind, callee, where, peel, PathEnum, exits

LEVEL = "other"
PM = "pest::pratt_parser::PrattParserMap"
AFFIX = "pest::pratt_parser::Affix"
ASSOC = "pest::pratt_parser::Assoc"

MANIFEST = {
    "technique": "slot-table check with a small symbolic evaluator for binding-power expressions (through lets, "
                 "matches on constant affix/associativity and same-crate helper inlining), level-assignment "
                 "pairing on enumerated paths, loop-nesting structure of the climber (typed HIR)",
    "text": "Decides the binding-power convention stated in the property for every operator table: the Pratt loop "
            "continues while the right binding power is below the next operator's level; a prefix operator and a "
            "right-associative infix operator parse their right operand just below their level, a left-associative "
            "one at its level, a postfix operator takes no right operand; levels are spaced so that `level - 1` "
            "lies strictly between levels and never underflows; ConstPrattParser assigns levels the same way; the "
            "climber compares with the documented operators and keeps extending the right operand. It does not "
            "decide that each operator is applied exactly once or operand order.",
    "note": "Slots are necessary conditions: breaking any changes grouping for some table; holding them does not "
            "prove the algorithm.",
}


def run(rep, tier):
    rep.explanation = (
        "Binding-power arguments are evaluated symbolically to one of {prec, prec-1}: locals are resolved through "
        "single-assignment lets, `match assoc {..}` / `match affix {..}` are evaluated per constant variant, and "
        "calls to same-crate helper functions are inlined with their arguments bound (depth <= 3).")
    rep.configs = ["default", "pestall"]
    for cfg in rep.configs:
        c = facts.facts(cfg).crate("pest")
        sfx = "" if cfg == "default" else "@" + cfg
        powers(rep, c, sfx)
        levels(rep, c, sfx)
        climb(rep, c, sfx)
        lookup(rep, c, sfx)
        opentry(rep, c, sfx)
        duplicates(rep, c, sfx)
        chain(rep, c, sfx)
        lbp_source(rep, c, sfx)
    macros(rep)


# ------------------------------------------------------------------ symbolic binding power

def bp_eval(c, fn, n, env, depth=0):
    """Symbolic value of expression n: 'prec', 'prec-1', ('variant', path) or None."""
    n = peel(n)
    k = kind(n)
    if depth > 6 or n is None:
        return None
    if k == "Block" and n.get("expr") is not None:
        # evaluate simple lets first
        e2 = dict(env)
        for st in n.get("stmts", []):
            if st.get("k") == "Let" and st["pat"].get("k") == "PBind" and st.get("init") is not None:
                e2[st["pat"]["id"]] = bp_eval(c, fn, st["init"], e2, depth + 1)
        return bp_eval(c, fn, n["expr"], e2, depth + 1)
    if k == "Path":
        if n.get("res") == "local":
            if n["id"] in env:
                return env[n["id"]]
            lets = hirq.lets(fn["body"])
            if n["id"] in lets:
                return bp_eval(c, fn, lets[n["id"]][0], env, depth + 1)
            return None
        if n.get("res") == "def" and n.get("dk", "").startswith("Ctor"):
            return ("variant", n["path"])
        return None
    if k == "Call" and isinstance(callee(n), str) and callee(n).startswith((AFFIX + "::", ASSOC + "::")):
        inner = [bp_eval(c, fn, a, env, depth + 1) for a in n["args"]]
        return ("variant", callee(n), tuple(inner))
    if k == "Binary" and n["op"] == "-" and hirq.lit_value(n["r"]) == 1:
        if bp_eval(c, fn, n["l"], env, depth + 1) == "prec":
            return "prec-1"
        return None
    if k == "Match":
        s = bp_eval(c, fn, n["scrut"], env, depth + 1)
        if not (isinstance(s, tuple) and s[0] == "variant"):
            return None
        for arm in n["arms"]:
            if pat_matches(arm["pat"], s):
                return bp_eval(c, fn, arm["body"], env, depth + 1)
        return None
    if k == "If":
        return None
    if k in ("Call", "MethodCall") and isinstance(callee(n), str) and callee(n).startswith("pest::"):
        h = c.fn(callee(n))
        if h is None:
            return None
        args = hirq.call_args(n)
        params = [p for p in h["params"]]
        e2 = {}
        for p, a in zip(params, args):
            if p.get("k") == "PBind":
                e2[p["id"]] = bp_eval(c, fn, a, env, depth + 1)
        return bp_eval(c, h, h["body"], e2, depth + 1)
    return None


def pat_matches(p, s):
    """Does pattern p match symbolic variant value s = ('variant', path[, inner])?"""
    k = p.get("k")
    if k in ("PWild",) or (k == "PBind" and not p.get("sub")):
        return True
    if k == "POr":
        return any(pat_matches(q, s) for q in p["pats"])
    if k in ("PRef", "PBox", "PDeref"):
        return pat_matches(p["pat"], s)
    if k in ("PPath", "PStruct") and p.get("path") == s[1]:
        return True
    if k == "PTupleStruct" and p.get("path") == s[1]:
        inner = s[2] if len(s) > 2 else ()
        for q, v in zip(p["pats"], inner):
            if isinstance(v, tuple) and not pat_matches(q, v):
                return False
        return True
    return False


def arm_for(m, variant_path, inner_variant=None):
    for arm in m["arms"]:
        for p in flatten_or(arm["pat"]):
            if find_variant(p, variant_path, inner_variant):
                return arm
    return None


def flatten_or(p):
    if p.get("k") == "POr":
        out = []
        for q in p["pats"]:
            out += flatten_or(q)
        return out
    return [p]


def find_variant(p, variant_path, inner=None):
    for x in walk(p):
        if x.get("path") == variant_path and x.get("k") in ("PTupleStruct", "PPath", "PStruct"):
            return True
    return False


def prec_binding(arm_pat):
    """The binding of the precedence component: the usize/u32 PBind inside the tuple pattern."""
    for x in walk(arm_pat):
        if x.get("k") == "PBind" and x.get("ty", "").lstrip("&") in ("u32", "usize", "&u32"):
            return x["id"]
    return None


def powers(rep, c, sfx):
    r = rep.rule("C13.POWERS" + sfx, 5,
                 "PrattParserMap: expr loops while rbp < lbp; nud/prefix recurses with prec - 1; led/infix with "
                 "prec (Left) and prec - 1 (Right); postfix does not recurse")
    fns = {b["name"]: b for b in c.bodies if b.get("impl_self") == PM}
    expr = fns.get("expr")
    if expr is None:
        r.lost("PrattParserMap::expr")
        return
    # loop condition
    rbp = [p["id"] for p in expr["params"] if p.get("k") == "PBind" and p.get("ty") in ("u32", "usize")]
    loops = [n for n in walk(expr["body"]) if kind(n) == "Loop"]
    okc = False
    cond_txt = "?"
    elets = hirq.lets(expr["body"])

    def is_lbp(b):
        """b is the next operator's left binding power: a call (or inlined call) of a function of the Pratt module
        that returns a precedence, directly or through an immutable let."""
        b = peel(b)
        d = 0
        while d < 6 and kind(b) == "Path" and b.get("res") == "local" and b["id"] in elets:
            b = peel(elets[b["id"]][0])
            d += 1
        if kind(b) in ("MethodCall", "Call") and str(callee(b)).startswith("pest::pratt_parser::"):
            return True
        return kind(b) == "Block" and str(b.get("inlined", "")).startswith("pest::pratt_parser::")
    for lp in loops:
        for x in walk(lp["body"]):
            if kind(x) == "If":
                cnd = peel(x["cond"])
                cond_txt = hirq.expr_text(cnd)
                if kind(cnd) == "Binary" and cnd["op"] in ("<", ">"):
                    # `while rbp < lbp` : the loop continues under the strict comparison
                    a, b = (cnd["l"], cnd["r"]) if cnd["op"] == "<" else (cnd["r"], cnd["l"])
                    continues = not hirq.diverges(x["then"])
                    if rbp and hirq.local_id(a) == rbp[0] and is_lbp(b) and continues:
                        okc = True
                if kind(cnd) == "Binary" and cnd["op"] in (">=", "<="):
                    # `if rbp >= lbp { break }` : the same test, spelled as the exit
                    a, b = (cnd["l"], cnd["r"]) if cnd["op"] == ">=" else (cnd["r"], cnd["l"])
                    exits_loop = hirq.diverges(x["then"]) and x.get("else") is None
                    if rbp and hirq.local_id(a) == rbp[0] and is_lbp(b) and exits_loop:
                        okc = True
                break

    r.instance("expr:loop", where(expr["body"]), cond_txt)
    if not okc:
        r.violation("expr:loop", where(expr["body"]), "the Pratt loop condition is `%s`, not `rbp < lbp(next)`: with "
                    "`<=` left-associative operators group to the right" % cond_txt)
    # which fns call expr recursively with a binding power
    for fn in fns.values():
        if not any(kind(x) == "MethodCall" and x.get("path") == PM + "::expr" for x in walk(fn["body"])) \
                and fn["name"] not in ("led",):
            continue  # helpers are evaluated through their callers
        for m in [n for n in walk(fn["body"]) if kind(n) == "Match" and n.get("src") == "match"]:
            if "Affix" not in m.get("sty", ""):
                continue
            for (label, vpath, assoc, want) in (("prefix", AFFIX + "::Prefix", None, "prec-1"),
                                                ("infix-left", AFFIX + "::Infix", ASSOC + "::Left", "prec"),
                                                ("infix-right", AFFIX + "::Infix", ASSOC + "::Right", "prec-1"),
                                                ("postfix", AFFIX + "::Postfix", None, None)):
                arm = arm_for(m, vpath)
                if arm is None:
                    continue
                pid = prec_binding(arm["pat"])
                env = {pid: "prec"} if pid is not None else {}
                # the assoc binding
                if assoc:
                    for x in walk(arm["pat"]):
                        if x.get("k") == "PTupleStruct" and x.get("path") == AFFIX + "::Infix":
                            for b in walk(x["pats"][0]) if x["pats"] else []:
                                if b.get("k") == "PBind":
                                    env[b["id"]] = ("variant", assoc)
                # `name @ Affix::X(..)` bindings carry the whole affix value
                for x in walk(arm["pat"]):
                    if x.get("k") == "PBind" and x.get("sub") is not None and find_variant(x["sub"], vpath):
                        env[x["id"]] = ("variant", vpath, (("variant", assoc),)) if assoc else ("variant", vpath)
                calls = [x for x in walk(arm["body"]) if kind(x) == "MethodCall" and x.get("path") == PM + "::expr"]
                key = "%s:%s" % (fn["name"], label)
                if want is None:
                    r.instance(key, where(arm["body"]), "%d recursive calls" % len(calls))
                    if calls:
                        r.violation(key, where(calls[0]), "a postfix operator parses a right operand")
                    continue
                vals = set()
                for cl in calls:
                    v = bp_eval(c, fn, cl["args"][-1], env)
                    # a call under `match assoc` that is not selected for this assoc evaluates in its own arm
                    vals.add(v)
                # if calls sit in different arms of a match on assoc, evaluate the match as a whole
                whole = None
                for x in walk(arm["body"]):
                    if kind(x) == "Match" and "Assoc" in x.get("sty", ""):
                        whole = x
                if whole is not None and assoc:
                    sel = None
                    for a2 in whole["arms"]:
                        if pat_matches(a2["pat"], ("variant", assoc)):
                            sel = a2
                            break
                    vals = set()
                    if sel is not None:
                        for cl in [x for x in walk(sel["body"]) if kind(x) == "MethodCall" and x.get("path") == PM + "::expr"]:
                            vals.add(bp_eval(c, fn, cl["args"][-1], env))
                if not vals:
                    # the recursive calls are not inside the arm (the operator is selected first, acted on later):
                    # decide from the conditions that dominate each call, evaluated for this affix / associativity
                    vals = reachable_bps(c, fn, vpath, assoc)
                r.instance(key, where(arm["body"]), "right binding power: %s" % sorted(map(str, vals)))
                if vals != {want}:
                    r.violation(key, where(arm["body"]),
                                "%s operator parses its right operand with %s, the convention is %s: e.g. a prefix "
                                "operator sharing a level with a postfix/infix operator then groups `~a!` as `(~a)!`"
                                % (label, sorted(map(str, vals)), want))


def reachable_bps(c, fn, affix, assoc):
    """Binding powers of the recursive `expr` calls of fn that are reachable when the operator is `affix` (with
    associativity `assoc` for infix operators), judged from the conditions dominating each call."""
    ctx = hirq.Ctx(fn)
    lets = hirq.lets(fn["body"])
    modes = hirq.binding_modes(fn)

    def pat_ok(pat):
        """can the pattern match an operator of this affix / associativity? (variants it names must be ours)"""
        def ok(p):
            k = p.get("k")
            if k == "POr":
                return any(ok(q) for q in p["pats"])
            path = str(p.get("path", ""))
            if path.startswith(AFFIX + "::") and path != affix:
                return False
            if path.startswith(ASSOC + "::") and assoc and path != assoc:
                return False
            subs = p.get("pats") or []
            if p.get("sub") is not None:
                subs = list(subs) + [p["sub"]]
            if p.get("pat") is not None and isinstance(p.get("pat"), dict):
                subs = list(subs) + [p["pat"]]
            return all(ok(q) for q in subs)
        return ok(pat)

    def names_ours(pat):
        return any(str(x.get("path", "")) in (affix, assoc) for x in walk(pat))

    def names_variant(pat):
        return any(str(x.get("path", "")).startswith((AFFIX + "::", ASSOC + "::")) for x in walk(pat))

    def ev(e):
        e = peel(e)
        k = kind(e)
        if k == "Path" and e.get("res") == "local" and e.get("ty") == "bool" and e["id"] in lets and not modes.get(e["id"]):
            return ev(lets[e["id"]][0])
        if k == "Unary" and e["op"] == "!":
            v = ev(e["e"])
            return None if v is None else (not v)
        if k == "LetExpr":
            if not names_variant(e["pat"]):
                return None
            return pat_ok(e["pat"])
        if k == "Binary" and e["op"] in ("==", "!="):
            for (x, y) in ((e["l"], e["r"]), (e["r"], e["l"])):
                y = peel(y)
                if kind(y) == "Path" and y.get("res") == "def" and str(y.get("path", "")).startswith(ASSOC + "::") and assoc:
                    eq = (y["path"] == assoc)
                    return eq if e["op"] == "==" else (not eq)
            return None
        if k == "MethodCall" and e.get("path") in ("core::cmp::PartialEq::eq", "core::cmp::PartialEq::ne") and e["args"]:
            y = peel(e["args"][0])
            if kind(y) == "Path" and str(y.get("path", "")).startswith(ASSOC + "::") and assoc:
                eq = (y["path"] == assoc)
                return eq if e["path"].endswith("::eq") else (not eq)
        if k == "Call" and "matches" in " ".join(e.get("exp") or []):
            return None
        if k == "Match" and any("matches" in x for x in (e.get("exp") or [])):
            for arm in e["arms"]:
                if names_variant(arm["pat"]):
                    return pat_ok(arm["pat"])
        return None
    env = {}
    for x in walk(fn["body"]):
        if x.get("k") == "PBind" and str(x.get("ty", "")).lstrip("&") in ("u32", "usize"):
            env[x["id"]] = "prec"
    for p_ in fn["params"]:
        for x in walk(p_):
            if x.get("k") == "PBind":
                env.pop(x["id"], None)
    out = set()
    for cl in [x for x in walk(fn["body"]) if kind(x) == "MethodCall" and x.get("path") == PM + "::expr"]:
        feasible = True
        for g in ctx.guards(cl):
            if g[0] in ("if", "not", "guard"):
                v = ev(g[1])
                want_truth = g[2] if g[0] != "guard" else True
                if v is not None and v != want_truth:
                    feasible = False
            elif g[0] == "arm":
                arm = g[1]["arms"][g[2]]
                if names_variant(arm["pat"]) and not pat_ok(arm["pat"]):
                    feasible = False
                elif hirq.pat_is_catchall(arm["pat"]) and any(
                        names_variant(a["pat"]) and pat_ok(a["pat"]) and a.get("guard") is None for a in g[1]["arms"][:g[2]]):
                    feasible = False
        if feasible:
            out.add(bp_eval(c, fn, cl["args"][-1], env))
    return out


def levels(rep, c, sfx):
    r = rep.rule("C13.LEVELS" + sfx, 5,
                 "PrattParser::op and ConstPrattParser::new_const add PREC_STEP once per level before assigning, "
                 "start so the first level is >= PREC_STEP, and PREC_STEP >= 2")
    step = c.fn("pest::pratt_parser::PREC_STEP")
    val = hirq.lit_value(step["body"]) if step else None
    r.instance("PREC_STEP", where(step["body"]) if step else "", str(val))
    if not isinstance(val, int) or val < 2:
        r.violation("PREC_STEP", where(step["body"]) if step else "", "PREC_STEP is %s: `prec - 1` no longer lies "
                    "strictly between two levels" % val)

    def is_step(n):
        n = peel(n)
        return kind(n) == "Path" and n.get("path") == "pest::pratt_parser::PREC_STEP"

    op = c.fn("pest::pratt_parser::PrattParser::op")
    if op is None:
        r.lost("PrattParser::op")
    else:
        pe = PathEnum(op)
        bad = False
        n = 0
        stale_copy = [False]
        for (ev, out) in exits(pe.paths()):
            incs = [i for i, e in enumerate(ev) if e.kind == "assign" and kind(e.node) == "AssignOp" and e.node["op"] == "+="
                    and (hirq.place(e.node["l"]) or ("", 0, []))[2][-1:] == ["prec"] and is_step(e.node["r"])]
            ins = [i for i, e in enumerate(ev) if e.kind == "call" and kind(e.node) == "MethodCall" and e.node["m"] == "insert"]
            n += 1
            if len(incs) != 1 or (ins and ins[0] < incs[0]):
                bad = True
            # the level that is stored is the one read AFTER the increment: `self.prec` itself at the insert, or a local
            # bound after it - a copy taken before (`let prec = self.prec; self.prec += STEP; insert(.., prec)`)
            # numbers the levels from the constructor's initial value instead of initial + STEP
            if len(incs) == 1 and ins:
                for ii in ins:
                    for y in walk(ev[ii].node):
                        if kind(y) == "Path" and y.get("res") == "local" and str(y.get("ty", "")).lstrip("&") in ("u32", "usize"):
                            li = [j for j, e2 in enumerate(ev) if e2.kind == "let" and any(
                                b_[0] == y["id"] for b_ in hirq.pat_bindings(e2.node["pat"]))]
                            if li and li[-1] < incs[0] and any(
                                    kind(z) == "Field" and z["name"] == "prec" for z in walk(ev[li[-1]].node.get("init") or {})):
                                stale_copy[0] = True
        r.instance("op:step", where(op["body"]), "%d paths" % n)
        if bad:
            r.violation("op:step", where(op["body"]), "PrattParser::op does not add PREC_STEP exactly once before "
                        "inserting the level's operators: operators of one .op() call get different levels, or two "
                        "calls share one")
        # every constructor (every struct literal of PrattParser, `Default::default` included) starts the counter so
        # that the first level is >= PREC_STEP: with the increment before the store any initial value >= 0 will do,
        # with a stored pre-increment copy the initial value itself is the first level
        lits = []
        for b in c.bodies:
            if b.get("body") is None or b.get("exp") or "::tests::" in b["path"]:
                continue
            for x in walk(b["body"]):
                if kind(x) == "Struct" and (str(x.get("path", "")) == "pest::pratt_parser::PrattParser"
                                            or str(x.get("ty", "")).startswith("pest::pratt_parser::PrattParser<")):
                    lits.append((b, x))
        if not lits:
            r.lost("a struct literal of PrattParser (constructor)")
        for (b, x) in lits:
            init = None
            for f in x["fields"]:
                if f["name"] == "prec":
                    init = f["e"]
            key = "new:initial" if b["name"] == "new" else "ctor:%s:initial" % b["name"]
            r.instance(key, where(x))
            ok_init = init is not None and (is_step(init) or (
                isinstance(hirq.lit_value(init), int) and hirq.lit_value(init) >= 0 and not stale_copy[0]))
            if not ok_init:
                r.violation(key, where(x),
                            "%s starts the level counter at `%s`%s: the first .op() level is then below PREC_STEP, its "
                            "operators never bind (`1+2` parses to `1`) and `prec - 1` underflows for a prefix operator"
                            % (b["name"], hirq.expr_text(init)[:30] if init is not None else "?",
                               " while op() stores the value read before the increment" if stale_copy[0] else ""))
    nc = c.fn("pest::pratt_parser::ConstPrattParser::new_const")
    if nc is None:
        r.lost("ConstPrattParser::new_const")
        return
    ctx = hirq.Ctx(nc)
    incs = [x for x in walk(nc["body"]) if kind(x) == "AssignOp" and x["op"] == "+=" and is_step(x["r"])]
    r.instance("new_const:step", where(nc["body"]), "%d increments" % len(incs))
    ok = len(incs) == 1
    if ok:
        # guarded by the new_level flag (second tuple component), inside the loop, before the store
        gs = ctx.guards(incs[0])
        ok = any(g[0] == "if" and g[2] is True and kind(peel(g[1])) == "Path" and peel(g[1]).get("res") == "local"
                 and peel(g[1]).get("ty", "").lstrip("&") == "bool" for g in gs)
        loops = [p for (p, k, i) in ctx.ancestors(incs[0]) if kind(p) == "Loop"]
        ok = ok and len(loops) == 1
        stores = [x for x in walk(nc["body"]) if kind(x) == "Assign" and kind(peel(x["l"])) == "Index"]
        ok = ok and bool(stores) and all(hirq.line(s) > hirq.line(incs[0]) for s in stores)
    if not ok:
        r.violation("new_const:step", where(nc["body"]), "new_const does not add PREC_STEP once per `true` flag "
                    "before storing the operator: ConstPrattParser levels differ from PrattParser's")
    # first operator must start a level (assert on ops[0].1) so that the first level is PREC_STEP
    asserts = [x for x in walk(nc["body"]) if kind(x) == "If" and any(hirq.from_macro(y, "assert") for y in walk(x))]
    first_flag = any(kind(peel(x)) == "Field" and peel(x)["name"] == "1" and kind(peel(peel(x)["base"])) == "Index"
                     and hirq.lit_value(peel(peel(x)["base"])["idx"]) == 0 for x in walk(nc["body"]))
    r.instance("new_const:first-level", where(nc["body"]))
    if not first_flag:
        r.violation("new_const:first-level", where(nc["body"]), "new_const no longer requires the first operator to "
                    "start a level: its level would be 0 and `prec - 1` underflows")


def climb(rep, c, sfx):
    r = rep.rule("C13.CLIMB" + sfx, 4,
                 "PrecClimber::new numbers levels from 1; climb_rec continues while prec >= min_prec and extends the "
                 "right operand in a loop while new_prec > prec || (Right && new_prec == prec)")
    new = c.fn("pest::prec_climber::PrecClimber::new")
    rec = c.fn("pest::prec_climber::PrecClimber::climb_rec")
    if new is None or rec is None:
        r.lost("PrecClimber::new / climb_rec")
        return
    zips = [x for x in walk(new["body"]) if kind(x) == "MethodCall" and x["m"] == "zip"]
    start = None
    for z in zips:
        a = peel(z["args"][0])
        if kind(a) == "Struct" and a.get("path", "").endswith("RangeFrom"):
            start = hirq.lit_value(a["fields"][0]["e"])
    r.instance("new:first-level", where(new["body"]), str(start))
    if start != 1:
        r.violation("new:first-level", where(new["body"]), "levels are numbered from %s, not 1: with 0 the outer test "
                    "`prec >= min_prec` cannot distinguish the lowest level from `no minimum`" % start)
    ctx = hirq.Ctx(rec)
    calls = [x for x in walk(rec["body"]) if kind(x) == "MethodCall" and x.get("path") == rec["path"]]
    if len(calls) != 1:
        r.lost("single recursive call in climb_rec")
        return
    call = calls[0]
    loops = [p for (p, k, i) in ctx.ancestors(call) if kind(p) == "Loop"]
    r.instance("rec:loop-nesting", where(call), "%d enclosing loops" % len(loops))
    if len(loops) < 2:
        r.violation("rec:loop-nesting", where(call),
                    "the right operand is extended at most once (no inner loop around the recursive call): "
                    "`a+b^c*d` groups as ((a+(b^c))*d)")
    # conditions that dominate the recursive call, with their polarity: enclosing `if`s, arm guards, earlier
    # `if c { break }` statements (c is false afterwards), earlier `let x = match .. { P if COND => .., _ => break }`.
    # Precedences are only compared, so the conjunction is evaluated over all orderings of the u32 locals involved and
    # both associativities; the set of cases in which the recursive call is reached must be exactly
    #     prec >= min_prec   and   (new_prec > prec  or  assoc == Right and new_prec == prec)
    conds = []
    for g in ctx.guards(call):
        if g[0] == "if":
            conds.append((g[1], g[2]))
        elif g[0] == "guard":
            conds.append((g[1], True))
        elif g[0] == "not":
            conds.append((g[1], False))
        elif g[0] == "let" and g[1].get("init") is not None and kind(peel(g[1]["init"])) == "Match":
            mm = peel(g[1]["init"])
            live = [a for a in mm["arms"] if not (hirq.diverges(a["body"]) or a["body"].get("ty") == "!")]
            if live and all(a.get("guard") is not None for a in live) and len(live) == 1:
                conds.append((live[0]["guard"], True))
    lets = hirq.lets(rec["body"])
    modes = hirq.binding_modes(rec)
    texts = [("" if tr else "not ") + hirq.expr_text(peel(cn))[:60] for (cn, tr) in conds]
    r.instance("rec:conditions", where(call), str(texts))
    params_u32 = set(p["id"] for p in rec["params"] if p.get("k") == "PBind" and p.get("ty") == "u32")
    used = set()

    def canon(lid, depth=0):
        """`let prec = match self.get(..) { Some((prec, _)) if .. => prec, _ => break }`: the outer and the inner
        `prec` are one value"""
        if depth > 4 or lid not in lets or modes.get(lid):
            return lid
        init = peel(lets[lid][0]) if lets[lid][0] is not None else None
        if init is None:
            return lid
        if kind(init) == "Path" and init.get("res") == "local":
            return canon(init["id"], depth + 1)
        if kind(init) == "Match":
            live = [a for a in init["arms"] if not (hirq.diverges(a["body"]) or a["body"].get("ty") == "!")]
            ids = set()
            for a in live:
                b = peel(a["body"])
                if kind(b) == "Path" and b.get("res") == "local":
                    ids.add(b["id"])
                else:
                    return lid
            if len(ids) == 1:
                return canon(list(ids)[0], depth + 1)
        return lid

    def ev(e, env):
        e = peel(e)
        k = kind(e)
        if k == "Path" and e.get("res") == "local":
            if str(e.get("ty", "")).lstrip("&") == "u32":
                cid = canon(e["id"])
                used.add(cid)
                return env.get(cid)
            if e.get("ty") == "bool" and e["id"] in lets and not modes.get(e["id"]):
                return ev(lets[e["id"]][0], env)
            if "Assoc" in str(e.get("ty", "")):
                return env.get("assoc")
            return None
        if k == "Path" and e.get("res") == "def" and str(e.get("path", "")).endswith(("Assoc::Right", "Assoc::Left")):
            return e["path"].split("::")[-1]
        if k == "Unary" and e["op"] == "!":
            v = ev(e["e"], env)
            return None if not isinstance(v, bool) else (not v)
        if k == "Binary" and e["op"] in ("&&", "||"):
            a, b = ev(e["l"], env), ev(e["r"], env)
            if e["op"] == "&&":
                if a is False or b is False:
                    return False
                return True if (a is True and b is True) else None
            if a is True or b is True:
                return True
            return False if (a is False and b is False) else None
        if k == "Binary" and e["op"] in ("<", "<=", ">", ">=", "==", "!="):
            a, b = ev(e["l"], env), ev(e["r"], env)
            if a is None or b is None or isinstance(a, bool) or isinstance(b, bool):
                return None
            if isinstance(a, str) != isinstance(b, str):
                return None
            return {"<": a < b, "<=": a <= b, ">": a > b, ">=": a >= b, "==": a == b, "!=": a != b}[e["op"]] \
                if not isinstance(a, str) or e["op"] in ("==", "!=") else None
        if k == "MethodCall" and e.get("path") in ("core::cmp::PartialEq::eq", "core::cmp::PartialEq::ne") and e["args"]:
            a, b = ev(e["recv"], env), ev(e["args"][0], env)
            if a is None or b is None:
                return None
            return (a == b) if e["path"].endswith("::eq") else (a != b)
        return None
    # discover the u32 locals the conditions mention
    for (cn, tr) in conds:
        ev(cn, {})
    locs = sorted(used)
    ok_outer = ok_inner = False
    if 2 <= len(locs) <= 4:
        import itertools
        reach = set()
        for vals in itertools.product(range(3), repeat=len(locs)):
            for assoc in ("Left", "Right"):
                env = dict(zip(locs, vals))
                env["assoc"] = assoc
                fine = True
                for (cn, tr) in conds:
                    v = ev(cn, env)
                    if v is not None and v != tr:
                        fine = False
                        break
                if fine:
                    reach.add((vals, assoc))
        mins = [x for x in locs if x in params_u32]
        others = [x for x in locs if x not in params_u32]
        for m in mins:
            for p_ in others:
                proj = set((v[locs.index(p_)], v[locs.index(m)]) for (v, a) in reach)
                if proj == set((a, b) for a in range(3) for b in range(3) if a >= b):
                    ok_outer = True
                    for q in others:
                        if q == p_:
                            continue
                        # the inner test is independent of min_prec: look at the slice min_prec = 0
                        proj2 = set((v[locs.index(q)], v[locs.index(p_)], a) for (v, a) in reach if v[locs.index(m)] == 0)
                        want2 = set((a, b, s) for a in range(3) for b in range(3) for s in ("Left", "Right")
                                    if a > b or (s == "Right" and a == b))
                        if proj2 == want2:
                            ok_inner = True
    if not ok_outer:
        r.violation("rec:outer-test", where(call), "the operator loop is not entered exactly when `prec >= min_prec` (%s)" % texts)
    r.instance("rec:inner-test", where(call))
    if not ok_inner:
        r.violation("rec:inner-test", where(call), "the right operand is not extended exactly when `new_prec > prec || "
                    "assoc == Right && new_prec == prec` (%s)" % texts)


def lookup(rep, c, sfx):
    r = rep.rule("C13.LOOKUP" + sfx, 2,
                 "operator lookup finds every registered operator: a linear scan, or a binary search over a table that "
                 "every constructor sorts in the compared order")
    for ty in ("pest::prec_climber::PrecClimber", "pest::pratt_parser::PrattParser", "pest::pratt_parser::ConstPrattParser"):
        gets = [b for b in c.bodies if b.get("impl_self") == ty and b["name"] == "get" and not b.get("impl_trait")]
        if not gets:
            continue
        g = gets[0]
        bs = [x for x in walk(g["body"]) if kind(x) == "MethodCall" and x["m"].startswith("binary_search")]
        r.instance("get:" + ty.split("::")[-1], where(g["body"]), "binary search" if bs else "scan / map lookup")
        if not bs:
            continue
        ctors = [b for b in c.bodies if b.get("impl_self") == ty and b["dk"] == "AssocFn"
                 and any(kind(x) == "Struct" and x.get("ty", "").startswith(ty) for x in walk(b["body"]))]
        for k in ctors:
            sorts = any(kind(x) == "MethodCall" and x["m"].startswith("sort") for x in walk(k["body"]))
            r.instance("ctor:%s::%s" % (ty.split("::")[-1], k["name"]), where(k["body"]), "sorts: %s" % sorts)
            if not sorts:
                r.violation("ctor:%s::%s" % (ty.split("::")[-1], k["name"]), where(k["body"]),
                            "%s::get binary-searches the operator table, but the constructor %s stores the table as "
                            "given: operators of an unsorted table are not found and the expression is silently "
                            "truncated at them" % (ty.split("::")[-1], k["name"]))


def duplicates(rep, c, sfx):
    r = rep.rule("C13.DUPLICATES" + sfx, 2,
                 "a rule declared twice resolves alike in the two Pratt parsers: PrattParser::op registers with a map "
                 "`insert` (the later declaration replaces the earlier), so ConstPrattParser::get must prefer later table "
                 "entries - a scan that visits the table from the end, not the first match of a forward scan")
    op = c.fn("pest::pratt_parser::PrattParser::op")
    if op is None:
        r.lost("PrattParser::op")
        return
    last_wins = any(kind(x) == "MethodCall" and x["m"] == "insert" for x in walk(op["body"]))
    first_wins = any(kind(x) == "MethodCall" and x["m"] in ("or_insert", "or_insert_with", "entry") for x in walk(op["body"]))
    r.instance("map-policy", where(op["body"]), "last declaration wins" if last_wins and not first_wins else
               ("first declaration wins" if first_wins else "unknown"))
    gets = [b for b in c.bodies if b.get("impl_self") == "pest::pratt_parser::ConstPrattParser" and b["name"] == "get"
            and not b.get("impl_trait")]
    if not gets:
        # fail closed: without the function the agreement cannot be decided (this also keeps the helper-inlined view
        # from passing vacuously when `get` was merged into its caller)
        r.lost("ConstPrattParser::get")
        return
    g = gets[0]
    ms = [x["m"] for x in walk(g["body"]) if kind(x) == "MethodCall"]
    dec = any(kind(x) == "AssignOp" and x.get("op") in ("-=", "-") for x in walk(g["body"]))
    inc = any(kind(x) == "AssignOp" and x.get("op") in ("+=", "+") for x in walk(g["body"]))
    rng = any(kind(x) == "Struct" and str(x.get("path", "")).startswith("core::ops::range::Range") for x in walk(g["body"])) \
        or any(kind(x) == "Call" and "IntoIterator::into_iter" in str(callee(x)) for x in walk(g["body"]))
    if any(m in ("rev", "rfind", "rposition", "next_back", "rfold", "last") for m in ms) or (dec and not inc):
        direction = "from the end"
    elif any(m in ("find", "position", "find_map", "any", "next") for m in ms) or inc or rng:
        direction = "from the start"
    else:
        direction = "unknown"
    r.instance("const-get:direction", where(g["body"]), direction)
    if last_wins and not first_wins and direction == "from the start":
        r.violation("const-get:direction", where(g["body"]),
                    "ConstPrattParser::get returns the FIRST table entry of a rule, PrattParser keeps the LAST declaration: "
                    "for the table `plus L, times L, plus L` the two parsers build different trees from `1+2*3`")
    if direction == "unknown":
        r.note("scan direction of ConstPrattParser::get not recognised; duplicate-declaration agreement not decided")


def opentry(rep, c, sfx):
    r = rep.rule("C13.OPENTRY" + sfx, 1,
                 "PrattParser::op registers each operator of a `|` chain under its own rule with its own affix (key and "
                 "affix come from the same Op value)")
    op = c.fn("pest::pratt_parser::PrattParser::op")
    if op is None:
        r.lost("PrattParser::op")
        return
    ins = [x for x in walk(op["body"]) if kind(x) == "MethodCall" and x["m"] == "insert"]
    if not ins:
        r.lost("insert into the operator map")
        return
    for x in ins:
        keyx = peel(x["args"][0])
        val = peel(x["args"][1])
        aff = peel(val["elems"][0]) if kind(val) == "Tup" and val["elems"] else None
        def origin(e):
            e = peel(e)
            if kind(e) == "Field":
                return ("field-of", hirq.local_id(e["base"]) if hirq.local_id(e["base"]) is not None else hirq.expr_text(e["base"]))
            if kind(e) == "Path" and e.get("res") == "local":
                # a pattern binding: find the struct pattern it belongs to
                for p in walk(op["body"]):
                    if p.get("k") == "PStruct" and any(b[0] == e["id"] for f in p["fields"] for b in hirq.pat_bindings(f["pat"])):
                        return ("pattern", p.get("sp"))
                return ("local", e["id"])
            return ("?", hirq.expr_text(e))
        ko, ao = origin(keyx), origin(aff) if aff is not None else None
        r.instance("insert", where(x), "key from %s, affix from %s" % (ko, ao))
        if ao is None or ko != ao:
            r.violation("insert", where(x),
                        "the operator is registered under `%s` with the affix `%s` taken from a different Op value: in a "
                        "chain `a | b` every operator gets the first one's affix/associativity"
                        % (hirq.expr_text(keyx), hirq.expr_text(aff) if aff is not None else "?"))


# ------------------------------------------------------------------ CHAIN / LBP

def chain(rep, c, sfx):
    r = rep.rule("C13.CHAIN" + sfx, 2,
                 "`a | b | c | ..` keeps every operator of a level: the `next` link of an operator is assigned only where "
                 "that very operator's `next` is known to be empty (the else side of `if let Some(child) = op.next`), so a "
                 "chain is extended at its end and never overwritten in the middle")
    n = 0
    for b in c.bodies:
        if b.get("body") is None or b.get("exp") or not b["path"].startswith(("pest::prec_climber::", "pest::pratt_parser::", "<pest::prec_climber::", "<pest::pratt_parser::")):
            continue
        ctx = hirq.Ctx(b)
        for x in walk(b["body"]):
            if kind(x) != "Assign":
                continue
            tgt = peel(x["l"])
            if not (kind(tgt) == "Field" and tgt["name"] == "next" and any(s in tgt.get("bty", "") for s in ("Operator", "pratt_parser::Op"))):
                continue
            if kind(peel(x["r"])) == "Path" and str(peel(x["r"]).get("path", "")).endswith("Option::None"):
                continue
            n += 1
            key = b["path"].split("::")[-2] + "::" + b["name"] if "::" in b["path"] else b["name"]
            r.instance(key, where(x))
            owner = hirq.place(tgt["base"]) or hirq.place(tgt)
            ok = False
            for g in ctx.guards(x):
                cnd = peel(g[1]) if g[0] in ("if",) else None
                if cnd is not None and kind(cnd) == "LetExpr" and g[2] is False:
                    tested = peel(cnd["init"])
                    if kind(tested) == "Field" and tested["name"] == "next":
                        pt = hirq.place(tested["base"])
                        po = hirq.place(tgt["base"])
                        if pt is not None and po is not None and pt[1] == po[1] and pt[2] == po[2]:
                            ok = True
                if g[0] == "arm":
                    scr = peel(g[1]["scrut"])
                    vs = hirq.pat_variants(g[1]["arms"][g[2]]["pat"])
                    if kind(scr) == "Field" and scr["name"] == "next" and any(v.endswith("Option::None") for v in vs):
                        pt, po = hirq.place(scr["base"]), hirq.place(tgt["base"])
                        if pt is not None and po is not None and pt[1] == po[1] and pt[2] == po[2]:
                            ok = True
                if g[0] == "if" and g[2] is True and kind(peel(g[1])) == "MethodCall" and peel(g[1])["m"] == "is_none":
                    rc = peel(peel(g[1])["recv"])
                    if kind(rc) == "Field" and rc["name"] == "next":
                        pt, po = hirq.place(rc["base"]), hirq.place(tgt["base"])
                        if pt is not None and po is not None and pt[1] == po[1] and pt[2] == po[2]:
                            ok = True
            if not ok:
                r.violation(key, where(x), "`%s` is assigned where that operator's link has not been found empty: an "
                            "operator already chained there is dropped (a level written `a | b | c | d` keeps a, b and d)"
                            % hirq.expr_text(tgt))
    if n == 0:
        r.lost("assignments to the `next` link of Operator / Op")


def lbp_source(rep, c, sfx):
    r = rep.rule("C13.LBP" + sfx, 1,
                 "the left binding power the Pratt loop compares with is the level the table stores for the next operator, "
                 "whatever its affix (or 0 at the end of input): no arm of that function answers with a constant of its own")
    fns = [b for b in c.bodies if b.get("body") is not None and not b.get("exp")
           and b["path"].startswith("pest::pratt_parser::") and b.get("output") in ("u32", "usize")
           and any(kind(x) == "MethodCall" and x["m"] == "peek" for x in walk(b["body"]))
           and any(kind(x) == "MethodCall" and x["m"] == "get" for x in walk(b["body"]))]
    if not fns:
        r.lost("the function computing the next operator's left binding power")
        return
    for fn in fns:
        key = fn["name"]
        r.instance(key, where(fn["body"]))
        leaves = hirq.tail_leaves(fn["body"]) + [x["e"] for x in walk(fn["body"]) if kind(x) == "Ret" and x.get("e") is not None]
        for v in leaves:
            v0 = peel(v)
            if v0.get("ty") == "!" or (kind(v0) in ("Call", "MethodCall") and str(callee(v0)) in hirq.PANIC_CALLEES):
                continue
            if kind(v0) == "Lit" and hirq.lit_value(v0) == 0:
                continue
            if kind(v0) == "Path" and v0.get("res") == "local":
                src = hirq.binding_source(fn, v0["id"])
                if src is not None and any(kind(y) == "MethodCall" and y["m"] == "get" for y in walk(src)):
                    continue
            r.violation(key, where(v), "%s answers `%s` for some operator instead of the level stored in the table: e.g. a "
                        "postfix operator declared below a prefix one then binds only the last operand (`!a?` groups as "
                        "!(a?))" % (key, hirq.expr_text(v0)[:40]))


# ------------------------------------------------------------------ MACRO (table-building macros)

WITNESS_LEVELS = [["a1", "a2"], ["b1", "b2", "b3"], ["c1"], ["d1", "d2"]]
WITNESS_ASSOC = {"a1": "Left", "a2": "Left", "b1": "Right", "b2": "Right", "b3": "Right", "c1": "Left", "d1": "Left",
                 "d2": "Left"}


def fold_int(c, n, depth=0):
    """Value of a closed integer constant expression (literals, + - *, paths to other constants of the crate)."""
    n = peel(n)
    k = kind(n)
    if depth > 12 or n is None:
        return None
    if k == "Lit" and isinstance(n.get("v"), int) and not isinstance(n.get("v"), bool):
        return n["v"]
    if k == "Binary" and n["op"] in ("+", "-", "*"):
        a, b = fold_int(c, n["l"], depth + 1), fold_int(c, n["r"], depth + 1)
        if a is None or b is None:
            return None
        return a + b if n["op"] == "+" else (a - b if n["op"] == "-" else a * b)
    if k == "Path" and n.get("res") == "def" and str(n.get("dk", "")).startswith("Const"):
        for b in c.bodies:
            if b["path"] == n["path"] and b.get("body") is not None:
                return fold_int(c, b["body"], depth + 1)
    if k == "Block" and not n.get("stmts") and n.get("expr") is not None:
        return fold_int(c, n["expr"], depth + 1)
    if k == "Cast":
        return fold_int(c, n["e"], depth + 1)
    return None


def macros(rep):
    r = rep.rule("C13.MACRO", 16,
                 "on the witness table `L a1|a2, R b1|b2|b3, L c1, L d1|d2` the expansion of prec_climber! gives the "
                 "operators of one line the same precedence, each later line a strictly larger one, and each operator "
                 "the associativity written on its line; pratt_precedence! marks exactly the first operator of each "
                 "line as starting a new level and keeps the operators in order")
    try:
        cs = facts.harness_crates("climber_witness", ["climber_witness"])
    except facts.BuildFailed as e:
        r.lost("witness crate harness/climber_witness (uses pest::prec_climber! and pest::pratt_precedence!): %s" % e)
        return
    c = (cs.get("climber_witness") or [None])[0]
    if c is None:
        r.lost("facts of the witness crate")
        return
    level_of = {op: i for i, grp in enumerate(WITNESS_LEVELS) for op in grp}
    order = [op for grp in WITNESS_LEVELS for op in grp]
    # ---- prec_climber!
    w = [b for b in c.bodies if b["path"].endswith("::WITNESS") and b.get("body") is not None]
    arr = None
    if w:
        for x in walk(w[0]["body"]):
            if kind(x) == "Call" and str(callee(x)).endswith("PrecClimber::new_const"):
                for y in walk(x["args"][0]):
                    if kind(y) == "Array":
                        arr = y
                        break
    if arr is None:
        r.lost("PrecClimber::new_const(&[..]) in the expansion of prec_climber!")
    else:
        got = []
        for el in arr["elems"]:
            el = peel(el)
            parts = el.get("elems", []) if kind(el) == "Tup" else []
            if len(parts) != 3:
                r.lost("(rule, precedence, assoc) triples in the expansion of prec_climber!")
                return
            name = str(peel(parts[0]).get("path", "")).split("::")[-1]
            prec = fold_int(c, parts[1])
            assoc = str(peel(parts[2]).get("path", "")).split("::")[-1]
            got.append((name, prec, assoc))
        names = [g[0] for g in got]
        r.instance("climber:order", where(arr), ",".join(names))
        if names != order:
            r.violation("climber:order", where(arr), "prec_climber! lists the operators as %s, the table says %s"
                        % (names, order))
        precs = {g[0]: g[1] for g in got}
        for (name, prec, assoc) in got:
            if name not in level_of:
                continue
            r.instance("climber:%s" % name, where(arr), "precedence %s, %s" % (prec, assoc))
            if prec is None:
                r.violation("climber:%s" % name, where(arr), "the precedence of %s is not a constant this rule can fold" % name)
                continue
            if assoc != WITNESS_ASSOC[name]:
                r.violation("climber:%s:assoc" % name, where(arr), "prec_climber! gives %s associativity %s; its line says %s"
                            % (name, assoc, WITNESS_ASSOC[name]))
            for (other, p2, _a) in got:
                if other == name or p2 is None or other not in level_of:
                    continue
                want = (level_of[name] > level_of[other]) - (level_of[name] < level_of[other])
                have = (prec > p2) - (prec < p2)
                if want != have and name < other:
                    rel = {0: "the same level as", 1: "a higher level than", -1: "a lower level than"}
                    r.violation("climber:%s~%s" % (name, other), where(arr),
                                "prec_climber! puts %s on %s %s (precedences %d and %d); in the table it is on %s: "
                                "operators joined by `|` no longer share a level / lines no longer ascend, so the "
                                "macro-built climber groups differently from PrecClimber::new on the same table"
                                % (name, rel[have], other, prec, p2, rel[want]))
        if precs and min(v for v in precs.values() if v is not None) < 1:
            r.violation("climber:min", where(arr), "a level below 1: the climb starts with minimum precedence 0 and "
                        "compares with >=, level 0 operators are indistinguishable from 'no operator'")
    # ---- pratt_precedence!
    w = [b for b in c.bodies if b["path"].endswith("::PRATT_WITNESS") and b.get("body") is not None]
    arr = None
    if w:
        for x in walk(w[0]["body"]):
            if kind(x) == "Call" and str(callee(x)).endswith("ConstPrattParser::new_const"):
                for y in walk(x["args"][0]):
                    if kind(y) == "Array":
                        arr = y
                        break
    if arr is None:
        r.lost("ConstPrattParser::new_const([..]) in the expansion of pratt_precedence!")
        return
    got = []
    for el in arr["elems"]:
        el = peel(el)
        parts = el.get("elems", []) if kind(el) == "Tup" else []
        if len(parts) != 2:
            r.lost("(op, starts_level) pairs in the expansion of pratt_precedence!")
            return
        opc = peel(parts[0])
        name = None
        for y in walk(opc):
            if kind(y) == "Path" and "::Rule::" in str(y.get("path", "")):
                name = y["path"].split("::")[-1]
        flag = hirq.lit_value(parts[1])
        got.append((name, flag, str(callee(opc)).split("::")[-1]))
    names = [g[0] for g in got]
    r.instance("pratt:order", where(arr), ",".join(str(n) for n in names))
    if names != order:
        r.violation("pratt:order", where(arr), "pratt_precedence! lists the operators as %s, the table says %s" % (names, order))
    firsts = set(grp[0] for grp in WITNESS_LEVELS)
    for (name, flag, ctor) in got:
        r.instance("pratt:%s" % name, where(arr), "%s, starts a level: %s" % (ctor, flag))
        if name in level_of and flag is not (name in firsts):
            r.violation("pratt:%s" % name, where(arr),
                        "pratt_precedence! marks %s as %s a new level; in the table it is %s of its line" %
                        (name, "starting" if flag else "not starting", "the first" if name in firsts else "not the first"))
