"""C15 — detailed error tracking is observationally transparent (DESIGN.md section 4, C15).

Decided as non-interference (an effect analysis).  Panic-freedom of the index bookkeeping is
arithmetic and is NOT decided, except for the erase/high-water coupling below.
  CONFINE  every mutation of ParserState.parse_attempts happens in a region guarded by
           `parse_attempts.enabled`; such regions write no other field of ParserState, contain no exit
           from the enclosing combinator, and call only confined functions
  NOFLOW   values read from parse_attempts are used only inside confined regions (or to pick the error
           constructor in pest::state, whose two variants differ only in the attached attempts)
  RESET    erasing the recorded call stacks implies moving max_position forward on the same path (rule()
           detects erasure only through max_position growth and otherwise splices at remembered indices)
"""
from .. import facts, hirq
from ..hirq import walk, kind, callee, where, peel, PathEnum, exits

LEVEL = "other"
PS = "pest::parser_state::ParserState"
PA = "pest::parser_state::ParseAttempts"

MANIFEST = {
    "technique": "effect / non-interference analysis: guard-context confinement of all writes to the bookkeeping "
                 "field, field-effect summaries of confined helpers, use-site analysis of values read from the "
                 "bookkeeping, erase=>advance coupling on enumerated paths (typed HIR)",
    "text": "Decides for every grammar and input that the error-detail bookkeeping cannot influence parsing: all "
            "writes to parse_attempts sit under `parse_attempts.enabled` guards, those regions touch nothing else "
            "in ParserState and cannot leave the combinator early, and nothing read from the bookkeeping flows "
            "into a condition or value outside those regions; the error carrying attempts is the plain error "
            "plus an attached field. It also decides the erase=>advance protocol that rule()'s index "
            "bookkeeping relies on. It does not decide panic-freedom of the splice/truncate arithmetic in "
            "general.",
    "note": "Non-interference is with respect to the fields of ParserState and the control flow of the "
            "combinators; panics inside the confined helpers are only excluded for the erase/advance protocol.",
}


def run(rep, tier):
    rep.explanation = (
        "Guarded regions are the then-branches of `if <state>.parse_attempts.enabled`; confined callees are the "
        "methods of impl ParseAttempts, ParserState methods whose every call site is inside a guarded region "
        "(derived: handle_token_parse_result) and local closures called only inside guarded regions.")
    rep.configs = ["default"] + (["nomemchr", "pestall"] if tier == "thorough" else [])
    for cfg in rep.configs:
        c = facts.facts(cfg).crate("pest")
        sfx = "" if cfg == "default" else "@" + cfg
        confine(rep, c, sfx)
        reset(rep, c, sfx)
        errctor(rep, c, sfx)
        position(rep, c, sfx)
        maxpos(rep, c, sfx)
        monotone(rep, c, sfx)
        nopanic(rep, c, sfx)


def is_enabled_cond(cond):
    c = peel(cond)
    return kind(c) == "Field" and c["name"] == "enabled" and "ParseAttempts" in c.get("bty", "")


def is_disabled_cond(cond):
    c = peel(cond)
    return kind(c) == "Unary" and c["op"] == "!" and is_enabled_cond(c["e"])


def in_guarded_region(ctx, n):
    for g in ctx.guards(n):
        if g[0] == "if" and g[2] is True and any(is_enabled_cond(cj) for cj in conj(g[1])):
            return True
        # after `if !<state>.parse_attempts.enabled { return; }` (or the else branch of that test)
        if g[0] == "not" and is_disabled_cond(g[1]):
            return True
        if g[0] == "if" and g[2] is False and is_disabled_cond(g[1]):
            return True
    return False


def early_exit_regions(body):
    """(if-node, region) for every `if !enabled { return / break }` statement of a block: the region is the rest of
    that block."""
    out = []
    for blk in walk(body):
        if kind(blk) != "Block":
            continue
        sts = blk.get("stmts", [])
        for i, st in enumerate(sts):
            e = st.get("e") if st.get("k") in ("Expr", "Semi") else None
            if e is not None and kind(e) == "If" and e.get("else") is None and is_disabled_cond(e["cond"]) \
                    and hirq.diverges(e["then"]):
                out.append((e, {"k": "Block", "stmts": sts[i + 1:], "expr": blk.get("expr"), "sp": e.get("sp"),
                                "ty": blk.get("ty")}))
    return out


def conj(n):
    n = peel(n)
    if kind(n) == "Binary" and n["op"] == "&&":
        return conj(n["l"]) + conj(n["r"])
    return [n]


def pa_access(n):
    """Is n an expression rooted at `<state>.parse_attempts`?"""
    n = peel(n)
    while isinstance(n, dict):
        k = kind(n)
        if k == "Field":
            if n["name"] == "parse_attempts" and "ParserState" in n.get("bty", ""):
                return True
            n = peel(n["base"])
        elif k == "Index":
            n = peel(n["base"])
        elif k == "MethodCall" and n.get("path") in hirq.PURE_ID_METHODS:
            n = peel(n["recv"])
        else:
            return False
    return False


def confine(rep, c, sfx):
    r = rep.rule("C15.CONFINE" + sfx, 6,
                 "all writes to ParserState.parse_attempts are under `parse_attempts.enabled`; guarded regions "
                 "write nothing else, cannot exit the combinator, and call only confined functions")
    r2 = rep.rule("C15.NOFLOW" + sfx, 3,
                  "values read from parse_attempts are used only inside confined regions")
    psfns = [b for b in c.bodies if b.get("impl_self") == PS and not b.get("exp") and not b.get("impl_trait")]
    pa_methods = set(b["path"] for b in c.bodies if b.get("impl_self") == PA)
    cg = hirq.CallGraph([c])
    # confined ParserState helpers: every call site guarded, fixpoint
    confined = set()
    changed = True
    ctxs = {b["path"]: hirq.Ctx(b) for b in psfns + [x for x in c.bodies if x["path"] == "pest::parser_state::state"]}
    while changed:
        changed = False
        for b in psfns:
            if b["path"] in confined or b.get("vis") == "pub":
                continue
            sites = cg.callers_of(b["path"])
            if not sites:
                continue
            ok = True
            for (p, n) in sites:
                if p in confined:
                    continue
                cx = ctxs.get(p)
                if cx is None or not in_guarded_region(cx, n):
                    ok = False
            # only helpers that actually touch parse_attempts are interesting
            touches = any(pa_access(x) for x in walk(b["body"]) if kind(x) == "Field")
            if ok and touches:
                confined.add(b["path"])
                changed = True
    # helpers that guard themselves: the first statement is `if !enabled { return }`, the rest of the body is a region
    self_guarding = set()
    for b in psfns:
        body = b["body"]
        sts = body.get("stmts", []) if kind(body) == "Block" else []
        if sts and sts[0].get("k") in ("Expr", "Semi") and kind(sts[0].get("e")) == "If" \
                and is_disabled_cond(sts[0]["e"]["cond"]) and hirq.diverges(sts[0]["e"]["then"]) and sts[0]["e"].get("else") is None \
                and not b.get("exported"):
            self_guarding.add(b["path"])
    r.note("confined ParserState helpers: %s; self-guarding helpers: %s" % (sorted(confined), sorted(self_guarding)))
    for b in psfns + ([c.fn("pest::parser_state::state")] if c.fn("pest::parser_state::state") else []):
        ctx = ctxs[b["path"]]
        lets = hirq.lets(b["body"])
        is_conf = b["path"] in confined
        # local closures: guarded iff all their call sites are guarded
        closure_ids = {lid: init for lid, (init, st) in lets.items() if kind(init) == "Closure"}
        guarded_closures = set()
        for lid, clo in closure_ids.items():
            calls = [n for n in walk(b["body"]) if kind(n) == "Call" and isinstance(callee(n), tuple) and callee(n)[1] == lid]
            if calls and all(in_guarded_region(ctx, n) for n in calls):
                guarded_closures.add(id(clo))

        def region_ok(n):
            if is_conf or in_guarded_region(ctx, n):
                return True
            for (p, k, i) in ctx.ancestors(n):
                if id(p) in guarded_closures:
                    return True
                # handed to a helper that tests the flag itself before it does anything (`if !enabled { return }`)
                if kind(p) in ("MethodCall", "Call") and k == "args" and callee(p) in self_guarding:
                    return True
            return False

        # (1) writes to parse_attempts must be in a guarded region
        for x in walk(b["body"]):
            k = kind(x)
            wr = None
            if k in ("Assign", "AssignOp") and pa_access(x["l"]):
                wr = "assignment"
            elif k == "MethodCall" and pa_access(x["recv"]) and x.get("path") in pa_methods:
                m = c.fn(x["path"])
                if m is not None and m["inputs"] and m["inputs"][0].startswith("&mut"):
                    wr = "call " + x["m"]
            elif k == "MethodCall" and pa_access(x["recv"]) and x.get("path") not in pa_methods \
                    and x.get("path") not in hirq.READONLY_METHODS and x.get("path") not in hirq.PURE_ID_METHODS:
                wr = "method " + str(x.get("path"))
            elif k == "AddrOf" and x.get("mut") and pa_access(x["e"]):
                wr = "&mut borrow"
            if wr:
                key = "write:%s:%s" % (b["path"].split("::")[-1], wr.split("::")[-1])
                r.instance(key, where(x), wr)
                if not region_ok(x) and b["name"] != "new":
                    r.violation(key, where(x), "parse_attempts is mutated (%s) outside an `enabled` guard: the "
                                "bookkeeping runs (and can panic) even with error detail off" % wr)
        # (2) guarded regions: no other field writes, no exits, only confined calls
        for x in walk(b["body"]):
            if kind(x) == "If" and any(is_enabled_cond(cj) for cj in conj(x["cond"])):
                region = x["then"]
                key = "region:%s@%s" % (b["path"].split("::")[-1], region_tag(ctx, x))
                r.instance(key, where(x))
                check_region(r, key, region, b, pa_methods, confined, closure_ids, c)
        for (ifn, region) in early_exit_regions(b["body"]):
            key = "region:%s@early-exit" % b["path"].split("::")[-1]
            r.instance(key, where(ifn))
            check_region(r, key, region, b, pa_methods, confined, closure_ids, c)
        for lid, clo in closure_ids.items():
            if id(clo) in guarded_closures:
                key = "closure:%s" % b["path"].split("::")[-1]
                r.instance(key, where(clo))
                check_region(r, key, clo["body"], b, pa_methods, confined, closure_ids, c)
        # (3) NOFLOW: reads of parse_attempts outside regions
        if b["path"] in confined:
            continue
        for x in walk(b["body"]):
            if kind(x) == "Field" and x["name"] == "parse_attempts" and "ParserState" in x.get("bty", ""):
                if region_ok(x):
                    continue
                use = classify_read(ctx, x, b, lets, region_ok)
                key = "read:%s:%s" % (b["path"].split("::")[-1], use[0])
                r2.instance(key, where(x), use[1])
                if use[0] == "leak":
                    r2.violation(key, where(x), "a value read from parse_attempts is used outside the guarded "
                                 "regions (%s): parsing can depend on the error-detail bookkeeping" % use[1])
    for p in sorted(confined):
        fn = c.fn(p)
        key = "helper:%s" % p.split("::")[-1]
        r.instance(key, where(fn["body"]))
        check_region(r, key, fn["body"], fn, pa_methods, confined, {}, c, helper=True)


def region_tag(ctx, n):
    for g in reversed(ctx.guards(n)):
        if g[0] == "arm":
            pv = hirq.pat_variants(g[1]["arms"][g[2]]["pat"])
            if pv:
                return pv[0].split("::")[-1]
    return "top"


def benign_closure_param(c, fn, lid):
    """lid is a closure-typed parameter of the crate-private function fn, and at every call site of fn the argument is a
    closure literal that only builds a value: it mentions no parser state, calls no closure and no ParserState method."""
    if fn.get("exported"):
        return False
    idx = [i for i, p in enumerate(fn["params"]) if p.get("k") == "PBind" and p["id"] == lid]
    if not idx:
        return False
    cg = hirq.CallGraph([c])
    sites = cg.callers_of(fn["path"])
    if not sites:
        return False
    for (p, n) in sites:
        args = hirq.call_args(n)
        if idx[0] >= len(args):
            return False
        a = peel(args[idx[0]])
        if kind(a) != "Closure" or a.get("params"):
            return False
        for y in walk(a["body"]):
            if kind(y) in ("Path", "Field") and "ParserState" in str(y.get("ty", "")) + str(y.get("bty", "")):
                return False
            if kind(y) in ("Call", "MethodCall"):
                cy = callee(y)
                if isinstance(cy, tuple) or (isinstance(cy, str) and cy.startswith("pest::parser_state::ParserState::")):
                    return False
    return True


def check_region(r, key, region, fn, pa_methods, confined, closure_ids, c, helper=False):
    for x in hirq.walk_no_closures(region):
        k = kind(x)
        if k in ("Assign", "AssignOp"):
            t = peel(x["l"])
            if pa_access(t):
                continue
            pl = hirq.place(t)
            # writes to locals declared inside the region are fine; writes to state fields are not
            if kind(t) == "Field" and "ParserState" in t.get("bty", ""):
                r.violation(key + ":field-write", where(x), "the error-detail region writes ParserState.%s: turning "
                            "error detail on changes parser state" % t["name"])
            elif pl and pl[2]:
                base_ty = ""
                r.note("%s: write to %s.%s" % (key, pl[0], ".".join(pl[2])))
        elif k in ("Ret", "Break", "Continue") and not helper:
            r.violation(key + ":exit", where(x), "the error-detail region leaves the enclosing combinator (%s): the "
                        "parse result depends on the flag" % k)
        elif k == "Match" and x.get("src") == "try" and not helper:
            r.violation(key + ":exit", where(x), "`?` inside the error-detail region can leave the combinator")
        elif k in ("Call", "MethodCall"):
            cal = callee(x)
            if isinstance(cal, tuple):
                if cal[1] not in closure_ids and not benign_closure_param(c, fn, cal[1]):
                    r.violation(key + ":call-param", where(x), "the error-detail region calls a user closure")
                continue
            if not isinstance(cal, str):
                continue
            if cal.startswith("pest::parser_state::"):
                if cal in pa_methods or cal in confined:
                    continue
                callee_fn = c.fn(cal)
                if callee_fn is not None and callee_fn.get("impl_self") == PS:
                    # a ParserState method: allowed only if it takes &self (read-only)
                    if callee_fn["inputs"] and callee_fn["inputs"][0].startswith("&") and not callee_fn["inputs"][0].startswith("&mut"):
                        continue
                    r.violation(key + ":call:" + cal.split("::")[-1], where(x), "the error-detail region calls "
                                "ParserState::%s, which can change parser state" % cal.split("::")[-1])


def classify_read(ctx, x, fn, lets, region_ok):
    """How a read of parse_attempts outside a region is used."""
    # climb to the full place expression / call
    cur = x
    while True:
        p, k, i = ctx.parent.get(id(cur), (None, None, None))
        if p is None:
            break
        if kind(p) in ("Field", "AddrOf") or (kind(p) == "MethodCall" and k == "recv"):
            cur = p
            continue
        break
    p, k, i = ctx.parent.get(id(cur), (None, None, None))
    if p is not None and kind(p) == "If" and k == "cond" and is_enabled_cond(cur):
        return ("flag", "the enabled flag guarding a region")
    if p is not None and kind(p) == "Unary" and p.get("op") == "!" and is_enabled_cond(cur):
        pp = ctx.parent.get(id(p), (None, None, None))
        if pp[0] is not None and kind(pp[0]) == "If" and pp[1] == "cond":
            return ("flag", "the enabled flag guarding a region (negated, early exit)")
    if p is not None and kind(p) == "Binary" and p["op"] == "&&":
        pp = ctx.parent.get(id(p), (None, None, None))
        if is_enabled_cond(cur):
            return ("flag", "the enabled flag inside a guard conjunction")
    if p is not None and p.get("k") == "Let" and k == "init" and p["pat"].get("k") == "PBind":
        lid = p["pat"]["id"]
        uses = [u for u in walk(fn["body"]) if kind(u) == "Path" and u.get("res") == "local" and u["id"] == lid]
        bad = [u for u in uses if not region_ok(u)]
        if not bad:
            return ("saved", "saved in `%s`, used only in confined regions" % p["pat"]["name"])
        return ("leak", "local `%s` is read at %s" % (p["pat"]["name"], hirq.where(bad[0])))
    if fn["path"] == "pest::parser_state::state" and p is not None and kind(p) == "Call":
        return ("error-arg", "passed to the error constructor")
    if fn["name"] in ("get_parse_attempts",):
        return ("accessor", "public read accessor")
    return ("leak", "used in %s" % (kind(p) if p else "?"))


def reset(rep, c, sfx):
    r = rep.rule("C15.RESET" + sfx, 2,
                 "in impl ParseAttempts every path that erases call_stacks (clear) also assigns max_position on "
                 "that path; rule() drops its remembered stack count when max_position grew")
    for fn in c.bodies:
        if fn.get("impl_self") != PA:
            continue
        clears = [n for n in walk(fn["body"]) if kind(n) == "MethodCall" and n["m"] in ("clear", "drain")
                  and (hirq.place(n["recv"]) or ("", 0, []))[2][-1:] == ["call_stacks"]]
        if not clears:
            continue
        pe = PathEnum(fn)
        bad = 0
        npaths = 0
        for (ev, out) in exits(pe.paths()):
            ci = [i for i, e in enumerate(ev) if e.kind == "call" and e.node in clears]
            if not ci:
                continue
            npaths += 1
            assigned = any(e.kind == "assign" and (hirq.place(e.node["l"]) or ("", 0, []))[2][-1:] == ["max_position"] for e in ev)
            if not assigned:
                bad += 1
        r.instance(fn["path"].split("::")[-1], where(clears[0]), "%d erasing paths" % npaths)
        if bad:
            r.violation(fn["path"].split("::")[-1], where(clears[0]),
                        "%d path(s) of %s erase call_stacks without moving max_position: an enclosing rule() still "
                        "trusts its remembered stack count and splices past the end of the vector (panic only with "
                        "error detail on)" % (bad, fn["name"]))
    rule = c.fn(PS + "::rule")
    ok = False
    if rule is not None:
        # rule() itself, or a private helper of the parser state it hands the remembered values to
        hosts = [rule]
        for (cal, n0) in hirq.call_sites(rule["body"]):
            h = c.fn(cal) if isinstance(cal, str) else None
            if h is not None and h is not rule and h.get("impl_self") == PS and not h.get("exported") and h.get("body") is not None:
                hosts.append(h)
        for h in hosts:
            for n in walk(h["body"]):
                if kind(n) != "If":
                    continue
                cnd = peel(n["cond"])
                if kind(cnd) != "Binary" or cnd["op"] not in (">", "<"):
                    continue
                big = peel(cnd["l"]) if cnd["op"] == ">" else peel(cnd["r"])
                if not (kind(big) == "Field" and big["name"] == "max_position"):
                    continue
                zero_assigned = any(kind(x) == "Assign" and hirq.lit_value(x["r"]) == 0 for x in walk(n["then"]))
                zero_value = any(hirq.lit_value(peel(v)) == 0 for v in hirq.tail_leaves(n["then"]))
                if zero_assigned or zero_value:
                    ok = True
                    r.instance("rule:reader", where(n))
    if not ok:
        r.violation("rule:reader", where(rule["body"]) if rule else "", "rule() no longer resets its remembered "
                    "stack count when max_position grew")


def errctor(rep, c, sfx):
    r = rep.rule("C15.ERRCTOR" + sfx, 2,
                 "pest::state picks the constructor on the flag only, and the attempts-carrying constructor is the "
                 "plain one plus an attached field (same variant, location, line/col)")
    w = c.fn("pest::error::Error::new_from_pos_with_parsing_attempts")
    if w is None:
        r.lost("Error::new_from_pos_with_parsing_attempts")
        return
    calls = [callee(n) for n in walk(w["body"]) if kind(n) == "Call"]
    assigns = [n for n in walk(w["body"]) if kind(n) == "Assign"]
    r.instance("wrapper", where(w["body"]), "calls %s, %d assignments" % ([x.split("::")[-1] for x in calls if isinstance(x, str)], len(assigns)))
    if "pest::error::Error::new_from_pos" not in calls:
        r.violation("wrapper:base", where(w["body"]), "the attempts-carrying error is not built by new_from_pos")
    for a in assigns:
        t = peel(a["l"])
        if not (kind(t) == "Field" and t["name"] == "parse_attempts"):
            r.violation("wrapper:extra-write", where(a), "the attempts-carrying constructor changes `%s` of the "
                        "error" % hirq.expr_text(a["l"]))
    st = c.fn("pest::parser_state::state")
    if st is None:
        r.lost("pest::state")
        return
    # pest::state, or the helper of the parser-state module it delegates the failure report to
    sel_nodes = []
    for b in [st] + [b for b in c.bodies if b is not st and b.get("body") is not None and not b.get("exp")
                     and b["path"].startswith("pest::parser_state::") and "::tests::" not in b["path"]]:
        for n in walk(b["body"]):
            if kind(n) == "If" and any(is_enabled_cond(cj) for cj in conj(n["cond"])) and any(
                    kind(x) == "Call" and isinstance(callee(x), str) and callee(x).startswith("pest::error::Error::")
                    for x in walk(n["then"])):
                sel_nodes.append(n)
    for n in sel_nodes:
        if True:
            tcalls = [x for x in walk(n["then"]) if kind(x) == "Call" and isinstance(callee(x), str) and callee(x).startswith("pest::error::Error::")]
            ecalls = [x for x in walk(n["else"]) if kind(x) == "Call" and isinstance(callee(x), str) and callee(x).startswith("pest::error::Error::")] if n.get("else") else []
            r.instance("state:select", where(n))
            if len(tcalls) != 1 or len(ecalls) != 1:
                r.violation("state:select", where(n), "error construction differs in more than the constructor")
                continue
            a, b = tcalls[0], ecalls[0]
            if hirq.expr_text(a["args"][0]) != hirq.expr_text(b["args"][0]) or hirq.expr_text(a["args"][1]) != hirq.expr_text(b["args"][1]):
                r.violation("state:select", where(n), "the two error constructions get different variant/position "
                            "arguments: the error depends on the flag")


def position(rep, c, sfx):
    """The position recorded by the bookkeeping and the one the help message is rendered at are offsets taken
    unchanged from an existing position / max_position (shared with C03.BOUNDARY: unchecked constructors only
    get offsets that are known UTF-8 boundaries)."""
    from . import c03
    before = len(rep.rules)
    c03.boundary(rep, c, sfx)
    for rr in rep.rules[before:]:
        rr.name = "C15.POSITION" + sfx
        rr.desc = ("offsets handed to the unchecked Position/Span constructors (including the help-message position "
                   "in Error::parse_attempts_error) are taken unchanged from an existing position, span, token or "
                   "max_position / attempt_pos - never computed")


def maxpos(rep, c, sfx):
    """Inter-procedural provenance of ParseAttempts.max_position (the offset the help message is rendered at)."""
    from . import c03
    r = rep.rule("C15.MAXPOS" + sfx, 2,
                 "every value stored in ParseAttempts.max_position is an offset read from a Position (pos()), from "
                 "max_position itself, or 0 - directly, through immutable lets, or through a parameter all of whose call "
                 "sites pass such a value; never the result of arithmetic (a computed offset may fall inside a "
                 "multi-byte character, and rendering the help message then panics)")
    cg = hirq.CallGraph([c])

    def ok_source(e, fn, depth, trail):
        e0 = peel(e)
        if kind(e0) == "Lit" and hirq.lit_value(e0) == 0:
            return "0"
        lets = hirq.lets(fn["body"])
        s = c03.offset_source(e, lets, fn)
        if s:
            return s
        # resolve through lets to a parameter
        d = 0
        while d < 6 and kind(e0) == "Path" and e0.get("res") == "local" and e0["id"] in lets:
            e0 = peel(lets[e0["id"]][0])
            d += 1
        if kind(e0) == "Path" and e0.get("res") == "local" and depth < 4:
            # a component of a pair of offsets handed around as one value (`(start, pos): (usize, usize)` as a parameter,
            # `let (_, pos) = positions`): each expression the component can come from must itself be such an offset
            comps = tuple_component_sources(e0["id"], fn, depth, trail)
            if comps is not None:
                out = []
                for (ce, cfn) in comps:
                    s2 = ok_source(ce, cfn, depth + 1, trail)
                    if not s2:
                        return None
                    out.append(s2)
                if out:
                    return "component(%s)" % ",".join(sorted(set(out)))
        if kind(e0) == "Path" and e0.get("res") == "local":
            idx = [i for i, p in enumerate(fn["params"]) if p.get("k") == "PBind" and p["id"] == e0["id"]]
            if idx and depth < 4 and fn["path"] not in trail:
                sites = cg.callers_of(fn["path"])
                if not sites:
                    return None
                out = []
                for (p, n) in sites:
                    caller = c.fn(p)
                    args = hirq.call_args(n)
                    if caller is None or idx[0] >= len(args):
                        return None
                    s2 = ok_source(args[idx[0]], caller, depth + 1, trail + (fn["path"],))
                    if not s2:
                        bad_sites.append((p, n, args[idx[0]]))
                        return None
                    out.append(s2)
                return "param(%s)" % ",".join(sorted(set(out)))
        return None

    def slot_of(pat, lid):
        q = pat
        while q.get("k") in ("PRef", "PBox", "PDeref"):
            q = q["pat"]
        if q.get("k") == "PTuple":
            for j, sub in enumerate(q.get("pats", [])):
                if any(b[0] == lid for b in hirq.pat_bindings(sub)):
                    return j
        return None

    def comp_of(expr, j, fn, depth, trail):
        """expressions the j-th component of the tuple-valued expr can be: [(expr, fn)] or None when not traceable"""
        e = peel(expr)
        if depth > 5:
            return None
        if kind(e) == "Tup" and j < len(e["elems"]):
            return [(e["elems"][j], fn)]
        if kind(e) == "Path" and e.get("res") == "local":
            lets = hirq.lets(fn["body"])
            if e["id"] in lets and lets[e["id"]][0] is not None:
                return comp_of(lets[e["id"]][0], j, fn, depth + 1, trail)
            idx = [i for i, p in enumerate(fn["params"]) if p.get("k") == "PBind" and p["id"] == e["id"]]
            if idx and fn["path"] not in trail:
                sites = cg.callers_of(fn["path"])
                out = []
                for (p, n) in sites:
                    caller = c.fn(p)
                    args = hirq.call_args(n)
                    if caller is None or idx[0] >= len(args):
                        return None
                    sub = comp_of(args[idx[0]], j, caller, depth + 1, trail + (fn["path"],))
                    if sub is None:
                        return None
                    out += sub
                return out or None
        return None

    def tuple_component_sources(lid, fn, depth, trail):
        for i, p in enumerate(fn["params"]):
            j = slot_of(p, lid)
            if j is not None and fn["path"] not in trail:
                out = []
                for (cp, n) in cg.callers_of(fn["path"]):
                    caller = c.fn(cp)
                    args = hirq.call_args(n)
                    if caller is None or i >= len(args):
                        return None
                    sub = comp_of(args[i], j, caller, depth + 1, trail + (fn["path"],))
                    if sub is None:
                        return None
                    out += sub
                return out or None
        for st in walk(fn["body"]):
            if st.get("k") == "Let" and st.get("init") is not None:
                j = slot_of(st["pat"], lid)
                if j is not None:
                    return comp_of(st["init"], j, fn, depth + 1, trail)
        return None

    n = 0
    for fn in c.bodies:
        if fn.get("body") is None or "::tests::" in fn["path"] or fn.get("exp"):
            continue
        for x in walk(fn["body"]):
            if kind(x) == "Assign" and kind(peel(x["l"])) == "Field" and peel(x["l"])["name"] == "max_position":
                n += 1
                bad_sites = []
                key = "write:%s" % fn["path"].replace("pest::parser_state::", "")
                s = ok_source(x["r"], fn, 0, ())
                r.instance(key, where(x), s or "?")
                if not s:
                    if bad_sites:
                        (p, cn, a) = bad_sites[0]
                        r.violation(key, where(cn), "max_position receives `%s` from %s, which is not an offset read from a "
                                    "position" % (hirq.expr_text(a)[:80], p))
                    else:
                        r.violation(key, where(x), "max_position is assigned `%s`, which is not an offset read from a "
                                    "position" % hirq.expr_text(x["r"])[:80])
    if n == 0:
        r.lost("assignments to ParseAttempts.max_position")


ATTEMPT_TYPES = ("pest::parser_state::ParseAttempts", "pest::parser_state::RulesCallStack",
                 "pest::parser_state::ParsingToken", "pest::parser_state::ParseAttempt")


def panic_sites(node):
    out = []
    for x in walk(node):
        cal = callee(x) if kind(x) in ("Call", "MethodCall") else None
        if isinstance(cal, str) and (cal in hirq.PANIC_CALLEES or cal in (
                "core::option::Option::unwrap", "core::option::Option::expect", "core::result::Result::unwrap",
                "core::result::Result::expect", "core::result::Result::unwrap_err", "core::result::Result::expect_err")):
            exp = " ".join(x.get("exp") or [])
            what = "assert!" if "assert" in exp else ("unreachable!" if "unreachable" in exp else (
                "panic!" if "panic" in exp else cal.split("::")[-1] + "()"))
            out.append((what, x))
        if kind(x) == "Index":
            bty = str(peel(x["base"]).get("ty", "")).replace("&", "").replace("mut ", "").strip()
            if bty in ("str", "alloc::string::String") or bty.endswith(" str"):
                # `&text[a..b]` on a string panics when an offset is not a character boundary; token texts come from
                # the grammar and (through PUSH/POP/PEEK) from the input, so any byte offset can be inside a character
                out.append(("string slice by byte offsets `%s`" % hirq.expr_text(x)[:40], x))
    return out


def nopanic(rep, c, sfx):
    r = rep.rule("C15.NOPANIC" + sfx, 10,
                 "code that runs only when error detail is on - the methods of ParseAttempts / RulesCallStack / "
                 "ParsingToken, the error-module functions that read them, and every block guarded by "
                 "`parse_attempts.enabled` - contains no explicit panic site (panic!, assert!, unreachable!, unwrap, expect)")
    fam = [b for b in c.bodies if b.get("impl_self") in ATTEMPT_TYPES and not b.get("exp") and b.get("body") is not None]
    fam_paths = set(b["path"] for b in fam)
    readers = []
    for b in c.bodies:
        if b.get("body") is None or "::tests::" in b["path"] or b["path"] in fam_paths or b.get("exp"):
            continue
        if any(kind(x) in ("Call", "MethodCall") and callee(x) in fam_paths for x in walk(b["body"])) \
                and b["path"].startswith("pest::error::"):
            readers.append(b)
    for b in fam + readers:
        key = "fn:" + b["path"].replace("pest::", "")
        r.instance(key, where(b["body"]))
        for (what, x) in panic_sites(b["body"]):
            r.violation(key, where(x), "%s in %s: with error detail on this can panic where the plain parse returns a "
                        "result (e.g. a failure at a position where no token was recorded)" % (what, b["path"]))
    nblocks = 0
    helpers = {}
    guarded_nodes = set()
    for b in c.bodies:
        if b.get("body") is None or "::tests::" in b["path"] or b.get("exp"):
            continue
        for x in walk(b["body"]):
            if kind(x) == "If" and any(kind(y) == "Field" and y["name"] == "enabled" and "ParseAttempts" in y.get("bty", "")
                                       for y in walk(x["cond"])):
                nblocks += 1
                key = "guarded:" + b["path"].replace("pest::", "")
                r.instance(key, where(x))
                for (what, y) in panic_sites(x["then"]):
                    r.violation(key, where(y), "%s inside an `enabled` block of %s" % (what, b["path"]))
                for y in walk(x["then"]):
                    guarded_nodes.add(id(y))
                # crate-private functions called only from such blocks run under the same condition
                for y in walk(x["then"]):
                    cal = callee(y) if kind(y) in ("Call", "MethodCall") else None
                    h = c.fn(cal) if isinstance(cal, str) and cal.startswith("pest::") else None
                    if h is not None and not h.get("exported") and h["path"] not in fam_paths and h["path"] not in helpers:
                        helpers[h["path"]] = h
    cg = hirq.CallGraph([c])
    exclusive = {}
    for hp, h in sorted(helpers.items()):
        sites = cg.callers_of(hp)
        if sites and all(id(n) in guarded_nodes or p in fam_paths or p in helpers for (p, n) in sites):
            exclusive[hp] = h
    for hp, h in sorted(exclusive.items()):
        key = "helper:" + hp.replace("pest::", "")
        r.instance(key, where(h["body"]))
        for (what, y) in panic_sites(h["body"]):
            r.violation(key, where(y), "%s in %s, which runs only when error detail is on" % (what, hp))
    if nblocks == 0:
        r.lost("blocks guarded by parse_attempts.enabled")


def monotone(rep, c, sfx):
    """max_position only moves forward: rule() trusts `max_position > remembered` as the only sign that its remembered
    call-stack index went stale."""
    r = rep.rule("C15.MONOTONE" + sfx, 2,
                 "every assignment of ParseAttempts.max_position is dominated by a test that the new value is greater than "
                 "the current one - in the assigning function, or, when the value is a parameter, at every call site: the "
                 "call stacks are cleared whenever max_position is set, and rule() notices that only through a strict "
                 "increase (otherwise it splices at a stale index and panics)")
    cg = hirq.CallGraph([c])

    def greater_guard(ctx, node, value_id=None, value_expr=None):
        for g in ctx.guards(node):
            if g[0] == "arm":
                # `match position.cmp(&self.max_position) { Ordering::Greater => .. }`
                scr = peel(g[1]["scrut"])
                vs = [str(v).split("::")[-1] for v in hirq.pat_variants(g[1]["arms"][g[2]]["pat"])]
                if kind(scr) == "MethodCall" and scr["m"] == "cmp" and scr["args"] and len(vs) == 1:
                    a, b2 = peel(scr["recv"]), peel(scr["args"][0])

                    def is_max(e):
                        return kind(e) == "Field" and e["name"] == "max_position"

                    def is_val(e):
                        return (value_id is not None and hirq.local_id(e) == value_id) or (
                            value_expr is not None and hirq.expr_text(e) == hirq.expr_text(value_expr))
                    if (vs[0] == "Greater" and is_val(a) and is_max(b2)) or (vs[0] == "Less" and is_max(a) and is_val(b2)):
                        return True
                continue
            if g[0] not in ("if", "guard") or (g[0] == "if" and g[2] is not True):
                continue
            stack = [peel(g[1])]
            while stack:
                cnd = peel(stack.pop())
                if kind(cnd) == "Binary" and cnd["op"] == "&&":
                    stack += [cnd["l"], cnd["r"]]
                    continue
                if kind(cnd) == "Binary" and cnd["op"] in (">", "<"):
                    big, small = (cnd["l"], cnd["r"]) if cnd["op"] == ">" else (cnd["r"], cnd["l"])
                    sm = peel(small)
                    if kind(sm) == "Field" and sm["name"] == "max_position":
                        if value_id is not None and hirq.local_id(big) == value_id:
                            return True
                        if value_expr is not None and hirq.expr_text(big) == hirq.expr_text(value_expr):
                            return True
        return False
    n = 0
    for fn in c.bodies:
        if fn.get("body") is None or "::tests::" in fn["path"] or fn.get("exp"):
            continue
        ctx = hirq.Ctx(fn)
        for x in walk(fn["body"]):
            if not (kind(x) == "Assign" and kind(peel(x["l"])) == "Field" and peel(x["l"])["name"] == "max_position"):
                continue
            n += 1
            key = "assign:%s" % fn["path"].replace("pest::parser_state::", "")
            vid = hirq.local_id(x["r"])
            r.instance(key, where(x))
            if greater_guard(ctx, x, value_id=vid, value_expr=x["r"]):
                continue
            pidx = [i for i, p in enumerate(fn["params"]) if p.get("k") == "PBind" and p["id"] == vid]
            sites = cg.callers_of(fn["path"]) if pidx else []
            if not sites:
                r.violation(key, where(x), "max_position is assigned without a test that the new value is greater")
                continue
            for (p, cn) in sites:
                caller = c.fn(p)
                args = hirq.call_args(cn)
                if caller is None or pidx[0] >= len(args):
                    continue
                cctx = hirq.Ctx(caller)
                r.instance("call:%s->%s" % (p.replace("pest::parser_state::", ""), fn["name"]), where(cn))
                if not greater_guard(cctx, cn, value_id=hirq.local_id(args[pidx[0]]), value_expr=args[pidx[0]]):
                    r.violation("call:%s->%s" % (p.replace("pest::parser_state::", ""), fn["name"]), where(cn),
                                "%s sets max_position (through %s) to `%s` without testing that it is greater than the current "
                                "one: the call stacks are cleared while max_position stays or moves back, and the enclosing "
                                "rule() then uses its remembered index on the shorter list" % (
                                    p.split("::")[-1], fn["name"], hirq.expr_text(args[pidx[0]])[:50]))
    if n == 0:
        r.lost("assignments to ParseAttempts.max_position")
