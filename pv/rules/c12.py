"""C12 — a call limit never changes a result silently (DESIGN.md section 4, C12)."""
from .. import facts, hirq
from ..hirq import walk, kind, callee, where, peel, PathEnum, exits

LEVEL = "other"

TRACKER = "pest::parser_state::CallLimitTracker"
PSTATE = "pest::parser_state::ParserState"
STATE_FN = "pest::parser_state::state"


def tracker_fns(c):
    return [b for b in c.bodies if b.get("impl_self") == TRACKER]


def run(rep, tier):
    rep.explanation = (
        "A refused call is an Err indistinguishable from a match failure, so soundness needs: (STICKY) the "
        "tracker only counts up and 'reached' is counter >= limit, hence once a call was refused it stays "
        "reached; (EXITS) every path of the entry point pest::state from the return of the user closure to a "
        "function result consults the tracker, on the Ok arm as well as the Err arm, and a reached tracker "
        "never yields Ok. Together: either no call was refused (then no combinator behaved differently from "
        "the unlimited run, because the only reader of the tracker is the refusal test), or the result is the "
        "call-limit error. Decided for all grammars, inputs and limits; nothing is executed.")
    configs = ["default"] + (["nomemchr", "pestall"] if tier == "thorough" else [])
    configs = rep.cfgs(configs)
    rep.configs = configs
    for cfg in configs:
        c = facts.facts(cfg).crate("pest")
        check(rep, c, cfg)


def check(rep, c, cfg):
    sfx = "" if cfg == "default" else "@" + cfg
    # ---------------------------------------------------------------- STICKY
    r = rep.rule("C12.STICKY" + sfx, 5,
                 "the call counter is written only by the constructor and by a +1 increment; 'reached' is "
                 "counter >= limit; the refusal test is the only reader")
    adt = c.adt(TRACKER)
    if adt is None or len(adt["variants"]) != 1 or len(adt["variants"][0]["fields"]) != 1:
        r.lost("struct CallLimitTracker with one field")
        return
    field = adt["variants"][0]["fields"][0]["name"]
    muts = {}
    ctors = {}
    for b in c.bodies:
        for (x, how, p) in hirq.mutating_field_accesses(b["body"], field, "CallLimitTracker"):
            muts.setdefault(b["path"], []).append((x, how, p))
        for n in walk(b["body"]):
            if kind(n) == "Struct" and n.get("ty") == TRACKER:
                ctors.setdefault(b["path"], []).append(n)
    # constructor: only in an impl of CallLimitTracker (Default)
    for p, ns in ctors.items():
        fn = c.fn(p)
        r.instance("ctor:" + p, where(ns[0]), "constructs the tracker")
        if fn.get("impl_self") != TRACKER:
            r.violation("ctor:" + p, where(ns[0]), "CallLimitTracker constructed outside its own impl: a second "
                        "constructor can reset the counter")
    if not ctors:
        r.lost("constructor of CallLimitTracker")
    # containers of the tracker (ParserState.call_tracker): replacing the whole tracker rewinds or
    # resets the count just like a write to the counter would
    holders = []
    for a in c.adts:
        for v in a["variants"]:
            for f in v["fields"]:
                if "CallLimitTracker" in f["ty"] and a["path"] != TRACKER:
                    holders.append((a["path"], f["name"]))
    # the increment in its functional spelling: a `&self` method of the tracker that answers the counter's next value,
    # `Some((current + 1, limit))` (None when calls are not counted), stored back by `t.field = t.next()` - that one
    # assignment, of that method's result on the same tracker, is the increment wherever it is written
    func_incs = {}
    for b in tracker_fns(c):
        if b.get("body") is None or (b.get("inputs") and str(b["inputs"][0]).startswith("&mut")) or \
                "Option<(usize, usize)>" not in str(b.get("output", "")):
            continue
        firsts = first_component_bindings(b)
        comps = all_tuple_components(b)
        leaves = [peel(v) for v in hirq.tail_leaves(b["body"])]
        good, some = bool(leaves), False
        for v in leaves:
            if kind(v) == "Path" and str(v.get("path", "")).endswith("Option::None"):
                continue
            tup = peel(v["args"][0]) if kind(v) == "Call" and str(callee(v)).endswith("Option::Some") and v["args"] else None
            if tup is not None and kind(tup) == "Tup" and len(tup["elems"]) == 2:
                a, bb = peel(tup["elems"][0]), peel(tup["elems"][1])
                if kind(a) == "Binary" and a["op"] == "+" and hirq.local_id(a["l"]) in firsts and hirq.lit_value(a["r"]) == 1 \
                        and (hirq.local_id(a["l"]), hirq.local_id(bb)) in comps:
                    some = True
                    continue
            good = False
        if good and some:
            func_incs[b["path"]] = b

    def functional_increment(assign):
        """assign is `<t>.field = <t>.next()` with next a functional increment of the tracker"""
        if kind(assign) != "Assign":
            return None
        rhs = peel(assign["r"])
        lhs = peel(assign["l"])
        if kind(rhs) == "MethodCall" and rhs.get("path") in func_incs and kind(lhs) == "Field" and lhs["name"] == field \
                and hirq.place(lhs["base"]) is not None and hirq.place(lhs["base"]) == hirq.place(rhs["recv"]):
            return rhs["path"]
        return None
    for (apath, fname) in holders:
        short = apath.split("::")[-1]
        for b in c.bodies:
            for (x, how, pn) in hirq.mutating_field_accesses(b["body"], fname, short):
                if how.startswith("method:") and how[7:] in [f["path"] for f in tracker_fns(c)]:
                    continue  # the tracker's own methods are checked above
                if how == "assign" and functional_increment(pn):
                    continue  # `state.tracker.field = state.tracker.next()`: judged below as the increment
                if how == "borrow_mut" and any(y.get("k") == "Field" and y.get("name") == field for (y, k_, i_) in [
                        (a_, None, None) for a_ in walk(pn)]):
                    continue  # `&mut state.tracker.counter`: a borrow of the counter itself, judged below with the mutators
                r.instance("holder:%s.%s<-%s" % (short, fname, b["path"]), where(x), how)
                r.violation("holder:%s.%s<-%s" % (short, fname, b["path"]), where(x),
                            "%s.%s is overwritten/borrowed mutably (%s) outside the tracker's own methods: the "
                            "call count can be rewound, so a refusal is forgotten before pest::state looks"
                            % (short, fname, how))
        # copies of the tracker taken out of the state (to be written back later)
    r.instance("holders", "", str(holders))
    if not holders:
        r.lost("a struct holding the CallLimitTracker")
    # mutators: exactly the increment
    inc_fns = []
    inline_incs = {}
    func_inc_hosts = set()
    for p, ms in muts.items():
        fn = c.fn(p)
        r.instance("mut:" + p, where(ms[0][0]), "mutable access to the counter field (%s)" % ms[0][1])
        if fn.get("impl_self") != TRACKER:
            fi = [functional_increment(pn) for (x, how, pn) in ms]
            if all(fi) and len(set(fi)) == 1 and len(ms) == 1:
                inc_fns.append(fi[0])
                func_inc_hosts.add(p)
                continue
            # the increment written in place (`if let Some((current, _)) = &mut self.call_tracker.current_call_limit {
            # *current += 1 }` in the one function that counts a call): the only mutable access is the borrow that binds
            # the first component, and the only write through it is `+= 1` - the tracker stays monotone
            if len(ms) == 1 and ms[0][1] == "borrow_mut":
                firsts = first_component_bindings(fn)
                bound = set(bid for n2 in walk(fn["body"]) if n2.get("k") in ("LetExpr", "Let", "Match")
                            for bid in ([b_[0] for b_ in hirq.pat_bindings(n2["pat"])] if n2.get("pat") else
                                        [b_[0] for a_ in n2.get("arms", []) for b_ in hirq.pat_bindings(a_["pat"])])
                            if any(y is ms[0][0] for y in walk(n2.get("init") or n2.get("scrut") or {})))
                ws = [n2 for n2 in walk(fn["body"]) if kind(n2) in ("Assign", "AssignOp") and hirq.local_id(n2["l"]) in bound]
                if ws and all(kind(w) == "AssignOp" and w.get("op") == "+=" and hirq.lit_value(w["r"]) == 1
                              and hirq.local_id(w["l"]) in firsts for w in ws) and len(ws) == 1:
                    inline_incs[p] = ws[0]
                    inc_fns.append(p)
                    continue
            r.violation("mut:" + p, where(ms[0][0]), "the call counter is mutated outside impl CallLimitTracker")
            continue
        # all writes in this fn must be `<first tuple component> += 1`
        ok = True
        writes = [n for n in walk(fn["body"]) if kind(n) in ("Assign", "AssignOp")]
        def functional_step(w):
            """`self.counter = self.counter.map(|(current, limit)| (current + 1, limit))`"""
            if kind(w) != "Assign":
                return None
            lhs, rhs = peel(w["l"]), peel(w["r"])
            if not (kind(lhs) == "Field" and lhs["name"] == field and kind(rhs) == "MethodCall" and rhs["m"] == "map"
                    and hirq.place(rhs["recv"]) == hirq.place(lhs) and rhs["args"] and kind(peel(rhs["args"][0])) == "Closure"):
                return None
            clo = peel(rhs["args"][0])
            comps = all_tuple_components({"k": "X", "p": clo["params"]})
            body = peel(clo["body"])
            if len(comps) == 1 and kind(body) == "Tup" and len(body["elems"]) == 2:
                a, b2 = peel(body["elems"][0]), peel(body["elems"][1])
                if kind(a) == "Binary" and a["op"] == "+" and hirq.local_id(a["l"]) == comps[0][0] and hirq.lit_value(a["r"]) == 1 \
                        and hirq.local_id(b2) == comps[0][1]:
                    return comps[0][0]
            return None
        fsteps = [w for w in writes if functional_step(w) is not None]
        if writes and len(fsteps) == len(writes) == 1:
            inc_fns.append(p)
            continue
        for w in writes:
            if not (kind(w) == "AssignOp" and w.get("op") == "+=" and hirq.lit_value(w["r"]) == 1):
                ok = False
                r.violation("mut:%s:write" % p, where(w), "counter write is not `+= 1`: the tracker is no longer "
                            "monotone, so a refusal can be forgotten before pest::state looks")
        if ok and writes:
            # the incremented binding must be the first tuple component
            firsts = first_component_bindings(fn)
            tgt = hirq.local_id(writes[0]["l"])
            if not firsts or tgt not in firsts:
                r.violation("mut:%s:component" % p, where(writes[0]), "the incremented component is not the "
                            "counter (first) component of (current, limit)")
            inc_fns.append(p)
        for (x, how, pn) in ms:
            if how.startswith("method:"):
                r.violation("mut:%s:%s" % (p, how), where(x), "counter field handed to a method that may "
                            "mutate it (%s)" % how)
    if len(inc_fns) != 1:
        r.lost("exactly one increment function of the tracker (found %d)" % len(inc_fns))
        return
    inc_fn = inc_fns[0]
    # reached predicate: fn of the tracker returning bool
    reached = [b for b in tracker_fns(c) if b.get("output") == "bool"
               and not (b.get("inputs") and str(b["inputs"][0]).startswith("&mut"))]
    if len(reached) != 1:
        r.lost("exactly one bool predicate on the tracker")
        return
    reached = reached[0]
    cmpn = [n for n in walk(reached["body"]) if kind(n) == "Binary" and n["op"] in (">=", ">", "<=", "<", "==", "!=")]
    comp = tuple_components(reached)
    if len(cmpn) != 1 or comp is None:
        r.lost("single comparison (current ? limit) in " + reached["path"])
    else:
        n = cmpn[0]
        l, rr = hirq.local_id(n["l"]), hirq.local_id(n["r"])
        good = (n["op"] == ">=" and (l, rr) == comp) or (n["op"] == "<=" and (rr, l) == comp)
        r.instance("reached:" + reached["path"], where(n), "%s" % hirq.expr_text(n))
        if not good:
            r.violation("reached:cmp", where(n), "limit test is `%s`, not `current >= limit`: with `>`/`==` a "
                        "counter can pass the limit (or step over it) and the tracker stops reporting reached"
                        % hirq.expr_text(n))
    # readers of the counter itself: the limit predicate, the increment and the constructor - nothing else.  A second
    # reader (`remaining()`, a budget test in a combinator) lets a decision other than "refuse" depend on the count: the
    # parse then differs from the unlimited one without the tracker ever saying `reached`
    allowed_readers = set([reached["path"], inc_fn]) | set(ctors) | set(func_incs) | func_inc_hosts
    for b in c.bodies:
        if b.get("body") is None or b.get("exp") or "::tests::" in str(b.get("path", "")) or b["path"] in allowed_readers:
            continue
        reads = [x for x in walk(b["body"]) if kind(x) == "Field" and x["name"] == field and "CallLimitTracker" in str(x.get("bty", ""))]
        if reads:
            r.instance("counter-reader:" + b["path"], where(reads[0]))
            r.violation("counter-reader:" + b["path"], where(reads[0]),
                        "%s reads the call counter: only the limit predicate, the increment and the constructor may - a "
                        "decision taken on the remaining budget (other than refusing the call) changes the result while the "
                        "tracker does not report the limit as reached" % b["path"].split("::")[-1])
    # readers: who calls reached / increment
    cg = hirq.CallGraph([c])
    callers_reached = sorted(set(p for (p, n) in cg.callers_of(reached["path"])))
    callers_inc = sorted(set(p for (p, n) in cg.callers_of(inc_fn)))
    if inc_fn in inline_incs:
        callers_inc = [inc_fn]      # the function that counts in place is its own "caller of the increment"
    # the increment may carry its own refusal test (`try_count(&mut self) -> bool`: an earlier arm / branch compares
    # current >= limit and does not count); its callers must then turn a `false` answer into Err
    incf = c.fn(inc_fn)
    self_guarded = False
    if incf is not None and incf.get("output") == "bool":
        comps = all_tuple_components(incf)
        ictx = hirq.Ctx(incf)
        for w in [n for n in walk(incf["body"]) if kind(n) == "AssignOp"]:
            for g in ictx.guards(w):
                tests = []
                if g[0] == "arm":
                    tests = [(a.get("guard"), False) for a in g[1]["arms"][:g[2]] if a.get("guard") is not None]
                elif g[0] in ("if", "not"):
                    tests = [(g[1], g[2])]
                for (cnd, truth) in tests:
                    for x in walk(cnd):
                        if kind(x) == "Binary" and x["op"] in (">=", "<="):
                            l, rr = hirq.local_id(hirq.strip_deref(x["l"]) if hasattr(hirq, "strip_deref") else x["l"]), \
                                hirq.local_id(hirq.strip_deref(x["r"]) if hasattr(hirq, "strip_deref") else x["r"])
                            pair = (l, rr) if x["op"] == ">=" else (rr, l)
                            if pair in comps and truth is False:
                                self_guarded = True
    for p in callers_inc:
        r.instance("inc-caller:" + p, "", "calls the increment")
        fn = c.fn(p)
        pe = PathEnum(fn)
        if self_guarded:
            for (ev, out) in exits(pe.paths()):
                refused = False
                for e in ev:
                    if e.kind != "cond":
                        continue
                    cnd, truth = peel(e.node), e.extra
                    while kind(cnd) == "Unary" and cnd["op"] == "!":
                        cnd, truth = peel(cnd["e"]), (not truth)
                    if kind(cnd) in ("Call", "MethodCall") and callee(cnd) == inc_fn and truth is False:
                        refused = True
                if not refused:
                    continue
                v = hirq.path_value(ev)
                if v is None or not (kind(peel(v)) == "Call" and str(callee(peel(v))).endswith("Result::Err")):
                    r.violation("inc-caller:%s:refusal" % p, where(fn["body"]), "a call the tracker refused (the counting "
                                "function answered false) does not end in Err: the combinator carries on uncounted")
            continue
        # the increment must be dominated by the refusal test returning Err
        for (ev, out) in pe.paths():
            ii = hirq.index_of(ev, lambda e: (e.kind == "call" and callee(e.node) == inc_fn) or (
                e.kind == "assign" and e.node is inline_incs.get(inc_fn)))
            if ii < 0:
                continue
            ci = hirq.index_of(ev[:ii], lambda e: e.kind == "cond" and any(
                callee(x) == reached["path"] for x in walk(e.node)))
            if ci < 0 or ev[ci].extra is not False:
                r.violation("inc-caller:%s:unguarded" % p, where(ev[ii].node), "increment not dominated by a "
                            "failed limit test: calls are counted without being refusable")
    for p in callers_reached:
        r.instance("reader:" + p, "", "reads the limit predicate")

    # the limit itself is fixed per parse: the process-wide setting is read only when a tracker is built
    glob_reads = []
    for b in c.bodies:
        for n in walk(b["body"]):
            if kind(n) == "Path" and n.get("res") == "def" and n.get("path") == "pest::parser_state::CALL_LIMIT":
                glob_reads.append((b, n))
    for (b, n) in glob_reads:
        is_ctor = b["path"] in ctors
        is_setter = b.get("vis") == "pub" and b["dk"] == "Fn" and not any(
            kind(x) == "MethodCall" and x["m"] == "load" for x in walk(b["body"]))
        r.instance("global:%s" % b["path"], where(n), "constructor" if is_ctor else ("setter" if is_setter else "other"))
        if not is_ctor and not is_setter:
            r.violation("global:%s" % b["path"], where(n),
                        "the process-wide call limit is read in %s, i.e. during a parse: if another thread changes or "
                        "clears the limit after a call was refused, `reached` turns false again and the absorbed "
                        "refusal is returned as a success (the tracker must copy the limit when it is created)" % b["name"])

    setter(rep, c, sfx, ctors)
    width(rep, c, sfx, ctors, adt)

    # ---------------------------------------------------------------- EXITS
    r2 = rep.rule("C12.EXITS" + sfx, 2,
                  "in pest::state every path from the return of the user closure to a result consults the "
                  "limit predicate, and a path on which it is true does not return Ok")
    st = c.fn(STATE_FN)
    if st is None:
        r2.lost("pest::state")
        return
    fparam = [p["id"] for p in st["params"] if p.get("k") == "PBind" and p.get("ty") == "F"]
    if len(fparam) != 1:
        r2.lost("closure parameter of pest::state")
        return
    # wrappers of the predicate on ParserState (fns whose body calls it and return bool)
    wrappers = set([reached["path"]])
    for b in c.bodies:
        if b.get("output") == "bool" and any(callee(n) == reached["path"] for n in walk(b["body"])):
            wrappers.add(b["path"])
    pe = PathEnum(st)
    paths = exits(pe.paths())
    absorbed = False
    arms_seen = {}
    for (ev, out) in paths:
        fi = hirq.index_of(ev, lambda e: e.kind == "call" and isinstance(callee(e.node), tuple)
                           and callee(e.node)[1] == fparam[0])
        if fi < 0:
            r2.violation("noentry", where(st["body"]), "a path of pest::state returns without running the closure")
            continue
        after = ev[fi + 1:]
        arm = next((e for e in after if e.kind == "arm"), None)
        armname = "?"
        if arm is not None:
            pv = hirq.pat_variants(arm.node["arms"][arm.extra]["pat"])
            armname = "|".join(v.split("::")[-1] for v in pv) if pv else "_"
        lets_st = hirq.lets(st["body"])

        def tests_reached(node, d=0):
            """+1 if the condition is true exactly when the limit is reached, -1 if it is its negation, 0 otherwise."""
            n0 = peel(node)
            if d > 4:
                return 0
            if kind(n0) == "Unary" and n0["op"] == "!":
                return -tests_reached(n0["e"], d + 1)
            if kind(n0) in ("MethodCall", "Call") and callee(n0) in wrappers:
                return 1
            if kind(n0) == "Path" and n0.get("res") == "local" and n0["id"] in lets_st:
                return tests_reached(lets_st[n0["id"]][0], d + 1)   # `let reached = state.reached_call_limit();`
            return 0
        conds = [e for e in after if e.kind == "cond" and tests_reached(e.node) != 0]
        key = "arm:" + armname
        arms_seen.setdefault(key, 0)
        arms_seen[key] += 1
        if not conds:
            # the failure report delegated to a helper of the parser-state module that asks the tracker itself
            # (`Err(state.failure_error(input))`): acceptable on a path that does not return Ok
            def consults(path, d=0):
                h = c.fn(path) if isinstance(path, str) else None
                if h is None or h.get("body") is None or d > 3 or not path.startswith("pest::parser_state::"):
                    return False
                for x in walk(h["body"]):
                    if kind(x) in ("MethodCall", "Call") and isinstance(callee(x), str):
                        if callee(x) in wrappers or consults(callee(x), d + 1):
                            return True
                return False
            delegated = any(e.kind == "call" and consults(callee(e.node)) for e in after)
            returns_ok = any(e.kind == "call" and callee(e.node) == "core::result::Result::Ok" for e in after)
            if delegated and not returns_ok:
                continue
        if not conds:
            absorbed = True
            r2.violation(key, where(arm.node["arms"][arm.extra]["body"]) if arm else where(st["body"]),
                         "the %s arm of pest::state returns without consulting the call-limit tracker: a "
                         "refusal absorbed by repeat/optional/negative lookahead yields a silently different "
                         "Ok result" % armname)
            continue
        if bool(conds[0].extra) == (tests_reached(conds[0].node) > 0):
            oks = [e for e in after if e.kind == "call" and callee(e.node) == "core::result::Result::Ok"]
            if oks:
                r2.violation(key + ":ok-when-reached", where(oks[0].node),
                             "a path on which the limit is reached still returns Ok")
    for k, n in sorted(arms_seen.items()):
        r2.instance(k, where(st["body"]), "%d exit paths" % n)

    # ---------------------------------------------------------------- ABSORB / ENTRY (evidence)
    r3 = rep.rule("C12.ABSORB" + sfx, 0,
                  "sites of impl ParserState where an Err of the user closure becomes Ok (repeat, optional, "
                  "negative lookahead); obligations only if EXITS fails")
    for b in c.bodies:
        if b.get("impl_self") != PSTATE:
            continue
        fps = [p["id"] for p in b["params"] if p.get("k") == "PBind" and p.get("ty") == "F"]
        if not fps:
            continue
        sites = absorbing_sites(b, fps[0])
        for (n, how) in sites:
            r3.instance("absorb:%s" % b["path"], where(n), how)
            if absorbed:
                r3.violation("absorb:%s" % b["path"], where(n), "absorbs a refusal (%s) and pest::state does "
                             "not look at the tracker on success" % how)
    refusefirst(rep, c, sfx, callers_inc, inc_fns)
    panicafter(rep, c, sfx, wrappers_reached(c, reached))
    r4 = rep.rule("C12.ENTRY" + sfx, 0, "combinators that count a call (evidence only)")
    for p in callers_inc:
        for (q, n) in cg.callers_of(p):
            r4.instance("counts:" + q, where(n), "")


def first_component_binding(fn):
    """binding id of the first component of the (current, limit) tuple pattern in fn."""
    for n in walk(fn):
        if n.get("k") == "PTuple" and len(n["pats"]) == 2:
            p0 = n["pats"][0]
            for x in walk(p0):
                if x.get("k") == "PBind":
                    return x["id"]
    return None


def first_component_bindings(fn):
    """binding ids of the first component of every (current, limit) tuple pattern in fn."""
    out = set()
    for n in walk(fn):
        if n.get("k") == "PTuple" and len(n["pats"]) == 2:
            for x in walk(n["pats"][0]):
                if x.get("k") == "PBind":
                    out.add(x["id"])
    return out


def all_tuple_components(fn):
    """every (first, second) pair of bindings of a two-component tuple pattern in fn."""
    out = []
    for n in walk(fn):
        if n.get("k") == "PTuple" and len(n["pats"]) == 2:
            ids = []
            for p in n["pats"]:
                b = [x["id"] for x in walk(p) if x.get("k") == "PBind"]
                ids.append(b[0] if len(b) == 1 else None)
            if None not in ids:
                out.append(tuple(ids))
    return out


def tuple_components(fn):
    for n in walk(fn):
        if n.get("k") == "PTuple" and len(n["pats"]) == 2:
            ids = []
            for p in n["pats"]:
                b = [x["id"] for x in walk(p) if x.get("k") == "PBind"]
                if len(b) != 1:
                    return None
                ids.append(b[0])
            return tuple(ids)
    return None


def absorbing_sites(fn, fparam):
    """Match arms / swaps that turn the closure's Err into Ok."""
    out = []
    for n in walk(fn["body"]):
        if kind(n) != "Match" or n.get("src") != "match":
            continue
        for arm in n["arms"]:
            pv = hirq.pat_variants(arm["pat"])
            if "core::result::Result::Err" not in pv:
                continue
            # value of the arm body: Ok(..) directly or `return Ok(..)`
            body = arm["body"]
            for x in hirq.walk_no_closures(body):
                if kind(x) == "Call" and callee(x) == "core::result::Result::Ok":
                    out.append((x, "Err arm of `match` yields Ok"))
                    break
    return out

MANIFEST = {
    "technique": "must-pass-through analysis over enumerated control-flow paths of pest::state + "
                 "who-may-write analysis of the call counter (typed HIR)",
    "text": "Decides the property for all grammars, inputs and limits by two structural facts: the tracker "
            "is monotone (only a +1 write, reached = counter >= limit) and every path of pest::state from "
            "the user closure's return to a result consults it, never returning Ok once reached. A refusal "
            "therefore cannot be absorbed silently wherever in the combinator tree it trips.",
    "note": "Assumes the path enumerator's model of structured control flow (no unwinding); trusted base is "
            "rustc's HIR/type resolution and the rule library. A parse that used exactly `limit` calls is "
            "reported as limit reached, which the property allows.",
}


# ---------------------------------------------------------------- SETTER

GLOBAL = "pest::parser_state::CALL_LIMIT"


def setter(rep, c, sfx, ctors):
    r = rep.rule("C12.SETTER" + sfx, 1,
                 "the public setter stores into the process-wide limit on every path (Some(n) and None alike), and the "
                 "value it stores for None is the one the tracker constructor reads as 'no limit': otherwise "
                 "set_call_limit(None) leaves an earlier limit in force and 'the result with no limit' is not what an "
                 "unlimited parse returns")
    setters = []
    for b in c.bodies:
        if b["dk"] != "Fn" or b.get("vis") != "pub":
            continue
        if any(kind(n) == "MethodCall" and n["m"] == "store" and any(
                kind(x) == "Path" and x.get("path") == GLOBAL for x in walk(n["recv"])) for n in walk(b["body"])):
            setters.append(b)
    if not setters:
        r.lost("a public function storing into CALL_LIMIT")
        return
    # who may call it: the limit is process-wide, so it is the application's to set - no library crate of the workspace
    # (meta, vm, generator, derive, debugger library) calls the setter; one that did would bound every later parse in
    # the process (and the VM, which spends more calls per input than generated code, would start to disagree with it)
    f_all = facts.facts("default")
    setter_paths = set(b["path"] for b in setters)
    for cname in ("pest", "pest_meta", "pest_vm", "pest_generator", "pest_derive", "pest_debugger", "pest_grammars"):
        try:
            cr = f_all.crate(cname)
        except Exception:
            cr = None
        if cr is None:
            continue
        r.instance("callers:" + cname, "", "scanned")
        for b2 in cr.bodies:
            if b2.get("body") is None or "::tests::" in b2["path"] or b2.get("exp") or b2.get("test"):
                continue
            for x in walk(b2["body"]):
                if kind(x) in ("Call", "MethodCall") and callee(x) in setter_paths:
                    r.violation("callers:%s" % b2["path"], where(x),
                                "%s sets the process-wide call limit: every later parse in the process is bounded by it "
                                "(a library must not change what `no limit` means for its callers)" % b2["path"])
    for b in setters:
        key = b["name"]
        pe = PathEnum(b, inline_closures=False)
        n = 0
        bad = None
        for (ev, out) in exits(pe.paths()):
            n += 1
            st = [e for e in ev if e.kind == "call" and kind(e.node) == "MethodCall" and e.node["m"] == "store"
                  and any(kind(x) == "Path" and x.get("path") == GLOBAL for x in walk(e.node["recv"]))]
            if not st:
                bad = ev
        r.instance("store-on-every-path:" + key, where(b["body"]), "%d paths" % n)
        if bad is not None:
            conds = [("%s is %s" % (hirq.expr_text(e.node)[:60], e.extra)) for e in bad if e.kind == "cond"]
            r.violation("store-on-every-path:" + key, where(b["body"]),
                        "a path of %s returns without storing the limit (%s): an earlier limit stays in force"
                        % (key, "; ".join(conds) or "unconditional"))
        # sentinel agreement: integer literals of the stored value vs the constructor's threshold
        lits = set()
        for x in walk(b["body"]):
            if kind(x) == "Lit" and isinstance(hirq.lit_value(x), int):
                lits.add(hirq.lit_value(x))
        thr = set()
        for cp in ctors:
            fn = c.fn(cp)
            if fn is None:
                continue
            for x in walk(fn["body"]):
                if kind(x) == "Binary" and x["op"] in (">", "!=", "==", ">=", "<") and any(
                        kind(peel(y)) == "Lit" for y in (x["l"], x["r"])):
                    for y in (x["l"], x["r"]):
                        if kind(peel(y)) == "Lit" and isinstance(hirq.lit_value(peel(y)), int):
                            thr.add(hirq.lit_value(peel(y)))
        if len(thr) == 1 and lits:
            r.instance("sentinel:" + key, where(b["body"]), "setter literal(s) %s, constructor threshold %s" % (sorted(lits), sorted(thr)))
            if not (thr <= lits):
                r.violation("sentinel:" + key, where(b["body"]),
                            "the setter's value for `None` (%s) is not the value the tracker constructor treats as "
                            "unlimited (%s)" % (sorted(lits), sorted(thr)))
        else:
            r.note("sentinel comparison skipped for %s: literals %s, thresholds %s" % (key, sorted(lits), sorted(thr)))


# ---------------------------------------------------------------- WIDTH

INTS = ("u8", "u16", "u32", "u64", "u128", "usize", "i8", "i16", "i32", "i64", "i128", "isize")


def width(rep, c, sfx, ctors, adt):
    import re
    r = rep.rule("C12.WIDTH" + sfx, 2,
                 "the limit keeps its integer type from the setter's argument to the comparison: the tracker stores it "
                 "in the width of the process-wide setting and no function that touches the setting or the tracker "
                 "casts between integer types (a narrowed limit L behaves like L mod 2^k: a parse that completes "
                 "under n calls is refused under 2^k + n)")
    gty = None
    for it in c.bodies:
        if it["path"] == GLOBAL:
            gty = it.get("output") or ""
    want = "usize" if "AtomicUsize" in (gty or "AtomicUsize") else None
    fty = adt["variants"][0]["fields"][0]["ty"]
    ints = set(re.findall(r"\b(%s)\b" % "|".join(INTS), fty))
    r.instance("field-type", where(adt) if isinstance(adt, dict) and adt.get("sp") else "", fty)
    if want and ints and ints != {want}:
        r.violation("field-type", adt.get("sp", ""), "the tracker stores the limit as %s, the process-wide setting is %s: "
                    "limits above the narrower range wrap around" % (sorted(ints), want))
    scan = []
    for b in c.bodies:
        if b.get("body") is None or "::tests::" in b["path"]:
            continue
        if b["path"] in ctors or b.get("impl_self") == TRACKER or any(
                kind(n) == "Path" and n.get("path") == GLOBAL for n in walk(b["body"])):
            scan.append(b)
    # ... nor computes with it: the value the tracker compares against is the value the setter stored (what `limit + 1`
    # means at usize::MAX is an overflow panic, or 0 = every call refused)
    for b in scan:
        if b["path"] not in ctors:
            continue
        for st in [b]:
            for f in [{"e": b["body"]}]:
                for tup in [x for x in walk(f["e"]) if kind(x) == "Tup" and len(x.get("elems", [])) == 2]:
                    for el in tup["elems"]:
                        ar = [y for y in walk(el) if kind(y) == "Binary" and y["op"] in ("+", "-", "*", "/", "<<", ">>")
                              or (kind(y) == "MethodCall" and str(y.get("m", "")).split("_")[0] in ("wrapping", "saturating", "checked", "overflowing"))]
                        for y in ar:
                            r.violation("no-arith:" + b["path"].replace("pest::parser_state::", ""), where(y),
                                        "the tracker is built with a computed limit (`%s`): the threshold is no longer the "
                                        "value that was set (overflow at usize::MAX; off by the added amount everywhere "
                                        "else)" % hirq.expr_text(y)[:40])
    for b in scan:
        r.instance("no-cast:" + b["path"].replace("pest::parser_state::", ""), where(b["body"]))
        for n in walk(b["body"]):
            if kind(n) == "Cast" and n.get("ty") in INTS and (n["e"].get("ty") in INTS) and n.get("ty") != n["e"].get("ty"):
                r.violation("no-cast:" + b["path"].replace("pest::parser_state::", ""), where(n),
                            "`%s as %s` in %s changes the width of the call limit / counter" % (
                                hirq.expr_text(n["e"])[:60], n.get("ty"), b["name"]))


STD_MUT = ("push", "pop", "truncate", "clear", "insert", "extend", "drain", "set", "replace", "take", "swap",
           "remove", "append", "retain", "resize", "get_mut", "last_mut", "iter_mut", "as_mut")


def refusefirst(rep, c, sfx, callers_inc, inc_fns=None):
    """A refused call must be indistinguishable from the call never having been made: the state handed back in the
    Err is the caller's state.  So a combinator asks the tracker BEFORE it changes anything."""
    r = rep.rule("C12.REFUSEFIRST" + sfx, 6,
                 "in every combinator that counts a call, the limit check precedes, on every path, every write to a "
                 "field of the parser state (assignment, &mut borrow, mutating method): the `?` on the check returns "
                 "the state as it is, so anything changed before it leaks into the caller (atomicity, look-ahead "
                 "mode, stack snapshots)")
    adt = c.adt(PSTATE)
    if adt is None:
        r.lost("struct ParserState")
        return
    fields = [f["name"] for v in adt["variants"] for f in v["fields"]]
    # the check: a call of the tracker's counting function, or of a closure-free wrapper of it (inc_call_check_limit)
    def has_closure_param(b):
        return any(p.get("k") == "PBind" and p.get("ty") == "F" for p in b["params"])
    wrappers = set(p for p in callers_inc if c.fn(p) is not None and c.fn(p).get("impl_self") == PSTATE
                   and not has_closure_param(c.fn(p)))
    check_callees = set(wrappers) | (set(inc_fns) if inc_fns else set())
    callers_inc = check_callees
    fns = []
    for b in c.bodies:
        if b.get("impl_self") != PSTATE or b.get("body") is None or b["path"] in wrappers:
            continue
        if any(kind(x) in ("Call", "MethodCall") and callee(x) in check_callees for x in walk(b["body"])):
            fns.append(b)
    if not fns:
        r.lost("combinators calling the limit check")
        return
    for b in fns:
        muts = {}
        for f in fields:
            for (x, how, p) in hirq.mutating_field_accesses(b["body"], f, "ParserState"):
                if how.startswith("method:"):
                    path = how[len("method:"):]
                    h = c.fn(path)
                    if h is not None:
                        if not (h.get("inputs") and str(h["inputs"][0]).startswith("&mut")):
                            continue
                    elif path.split("::")[-1] not in STD_MUT:
                        continue
                muts[id(p)] = (f, how, p)
        pe = PathEnum(b, inline_closures=False)
        bad = None
        try:
            paths = list(exits(pe.paths()))
        except hirq.TooManyPaths:
            r.note("%s: too many paths; order taken from source order" % b["name"])
            paths = []
        for (ev, out) in paths:
            idx = hirq.index_of(ev, lambda e: e.kind == "call" and callee(e.node) in callers_inc)
            if idx < 0:
                continue
            for e in ev[:idx]:
                if e.kind == "assign" and id(e.node) in muts:
                    bad = muts[id(e.node)]
                elif e.kind == "call":
                    for y in hirq.walk_no_closures(e.node):
                        if id(y) in muts:
                            bad = muts[id(y)]
                if bad:
                    break
            if bad:
                break
        # ... and a refused call leaves at once: on the path on which the check says no, nothing else of the parser
        # state is called or written before the function returns (a refused `sequence` that still runs its failure
        # clean-up restores a stack snapshot it never took)
        late = None
        try:
            import copy as _copy
            from .. import inline as _inline
            b2 = dict(b)
            b2["body"] = _inline.Desugar(9000).run(_copy.deepcopy(b["body"]))
            paths2 = list(exits(PathEnum(b2, inline_closures=True).paths()))
        except hirq.TooManyPaths:
            paths2 = []
        for (ev, out) in paths2:
            idx = hirq.index_of(ev, lambda e: e.kind == "call" and callee(e.node) in callers_inc)
            if idx < 0:
                continue
            chk = ev[idx].node
            refused = False
            for e in ev[idx + 1:]:
                if e.kind == "arm" and any(y is chk for y in walk(e.node.get("scrut") or {})):
                    vs = [str(v).split("::")[-1] for v in hirq.pat_variants(e.node["arms"][e.extra]["pat"])]
                    if "Err" in vs or "Break" in vs:
                        refused = True
                    break
                if e.kind == "cond" and any(y is chk for y in walk(e.node)):
                    cnd, truth = peel(e.node), e.extra
                    while kind(cnd) == "Unary" and cnd["op"] == "!":
                        cnd, truth = peel(cnd["e"]), (not truth)
                    if truth is False:
                        refused = True
                    break
            if not refused:
                continue
            for e in ev[idx + 1:]:
                if e.kind == "assign" and hirq.field_write_target(e.node) and "ParserState" in str(hirq.field_write_target(e.node)[0]):
                    late = (e.node, "assignment to " + str(hirq.field_write_target(e.node)[1]))
                elif e.kind == "call" and isinstance(callee(e.node), str) and callee(e.node).startswith(PSTATE + "::") \
                        and callee(e.node) not in callers_inc and "from_residual" not in callee(e.node):
                    h = c.fn(callee(e.node))
                    if h is not None and h.get("inputs") and not str(h["inputs"][0]).startswith("&pest") \
                            and not (str(h["inputs"][0]).startswith("&") and not str(h["inputs"][0]).startswith("&mut")):
                        late = (e.node, "call of " + callee(e.node).split("::")[-1])
                if late:
                    break
            if late:
                break
        r.instance(b["name"], where(b["body"]), "%d state writes, %d paths" % (len(muts), len(paths)))
        if late:
            r.violation(b["name"] + ":after-refusal", where(late[0]),
                        "ParserState::%s goes on after the limit check refused the call (%s): the state handed back is not "
                        "the caller's - e.g. a refused `sequence` that runs its failure clean-up pops a stack snapshot "
                        "that the enclosing sequence took" % (b["name"], late[1]))
        if bad:
            r.violation(b["name"] + ":" + bad[0], where(bad[2]),
                        "ParserState::%s changes `%s` (%s) before it asks the call-limit tracker: when the call is "
                        "refused the early return hands back a state that is not the caller's, and a combinator that "
                        "absorbs the refusal (optional, repeat, negative look-ahead) carries on with it"
                        % (b["name"], bad[0], bad[1].split("::")[-1]))


def wrappers_reached(c, reached):
    ws = set([reached["path"]])
    for b in c.bodies:
        if b.get("output") == "bool" and b.get("body") is not None and any(callee(n) == reached["path"] for n in walk(b["body"])):
            ws.add(b["path"])
    return ws


def panicafter(rep, c, sfx, reached_fns):
    """After a refused call the parse goes on (the refusal is an Err that optional / repeat / look-ahead / choice
    absorb) on a state the grammar did not establish: a PUSH may have been skipped.  A primitive that asserts something
    about that state (`expect("pop was called on empty stack")`) then panics - neither the unlimited result nor the
    call-limit error."""
    r = rep.rule("C12.PANICAFTER" + sfx, 2,
                 "every explicit panic site (expect / unwrap / panic!) in a public ParserState operation is preceded, on "
                 "every path, by an early exit taken when the call limit has been reached: an assertion about state that "
                 "a refused call may have skipped must not fire once the tracker says `reached`")
    PANICS = ("core::option::Option::expect", "core::option::Option::unwrap", "core::result::Result::expect",
              "core::result::Result::unwrap")
    n = 0
    for b in c.bodies:
        if b.get("impl_self") != PSTATE or b.get("body") is None or not b.get("exported") or b.get("exp"):
            continue
        sites = [x for x in walk(b["body"]) if kind(x) in ("Call", "MethodCall") and (
            callee(x) in PANICS or callee(x) in hirq.PANIC_CALLEES) and not any(
                s in " ".join(x.get("exp") or []) for s in ("debug_assert", "unreachable"))]
        if not sites:
            continue
        ctx = hirq.Ctx(b)
        for x in sites:
            n += 1
            key = "%s:%s" % (b["name"], str(callee(x)).split("::")[-1])
            r.instance(key, where(x))
            ok = False
            for g in ctx.guards(x):
                if g[0] in ("not", "if"):
                    truth = False if g[0] == "not" else g[2]
                    # the panic site runs only where `... && reached` is false / `!reached` is true
                    for y in walk(g[1]):
                        if kind(y) in ("Call", "MethodCall") and callee(y) in reached_fns:
                            ok = True
            if not ok:
                # the same early exit written as nested ifs (`if empty { if reached { return Err(self) } }`): decided on
                # the paths that reach the panic site - none of them has seen `reached` answer true, one has seen it false
                try:
                    reach = [ev for (ev, o) in PathEnum(b).paths() if any(e.node is x for e in ev)]
                except hirq.TooManyPaths:
                    reach = []
                saw_false = saw_true = False
                for ev in reach:
                    for e in ev:
                        if e.kind == "cond":
                            cnd, truth = peel(e.node), bool(e.extra)
                            while kind(cnd) == "Unary" and cnd.get("op") == "!":
                                cnd, truth = peel(cnd["e"]), not truth
                            if kind(cnd) in ("Call", "MethodCall") and callee(cnd) in reached_fns:
                                if any(e2.node is x for e2 in ev[ev.index(e):]):
                                    saw_true = saw_true or truth
                                    saw_false = saw_false or not truth
                ok = saw_false and not saw_true
            if not ok:
                r.violation(key, where(x),
                            "ParserState::%s can panic (%s) and does not look at the call-limit tracker first: after a "
                            "refused call absorbed by optional / repeat / look-ahead / choice (e.g. a skipped PUSH in "
                            "`PUSH(\"a\")? ~ POP`) the limit turns a valid parse into a panic" %
                            (b["name"], str(callee(x)).split("::")[-1]))
    if n == 0:
        r.note("no explicit panic site in a public ParserState operation")
        r.floor = 0
