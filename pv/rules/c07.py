"""C07 — the grammar reader reconstructs exactly the grammar that was written (DESIGN.md section 4, C07).

Round-trip equality over all spellings is NOT decided.  Decided clauses:
  PRATT     choice is registered before (looser than) sequence and both are left-associative
  UNARY     stacked prefix operators apply outermost-first; the postfix fold runs over the remaining pairs
            in source order
  ARMS      for each silent alternation of the meta-grammar the consumer dispatches on, the set of
            alternatives equals the set of `Rule::x` arms; all other arms are unreachable!()
  INFIXMAP  the infix closure maps `~` to Seq and `|` to Choice with operands in source order
  ESCAPES   unescape's single-character table and the digit counts of \\x / \\u{..} agree with the
            meta-grammar's `escape`, `code`, `unicode` rules
  SLICE     a consumer arm that cuts the matched text by fixed offsets belongs to a rule that admits no
            implicit whitespace between its elements
  LEADING   every expression pair reaches the Pratt parser with its optional leading `|` removed
  RULEENUM  the Rule enum is exactly the rule set of grammar.pest (+ EOI)
"""
from .. import facts, hirq, pestgram
from ..hirq import walk, kind, callee, where, peel

LEVEL = "other"
RULE = "pest_meta::parser::grammar::Rule"
PE = "pest_meta::parser::ParserExpr"
GRAMMAR = "meta/src/grammar.pest"

MANIFEST = {
    "technique": "production-vs-consumer agreement: alternatives of the meta-grammar (read by an independent .pest "
                 "reader) against the resolved `Rule::x` match arms of the consumer; table checks of the operator "
                 "table and of the escape decoder; offset-slicing vs whitespace admissibility; call-site agreement on "
                 "the optional leading choice operator (typed HIR + grammar file)",
    "text": "Decides structural necessary conditions of faithful reading: the operator table encodes `|` looser than "
            "`~`, both left-associative; prefix operators nest in source order outside the postfix fold; every "
            "terminal / prefix / postfix / infix / modifier production has exactly one consumer arm; `~`/`|` map to "
            "Seq/Choice with operands in order; the escape decoder accepts exactly the escape forms and digit counts "
            "the grammar accepts; text is never cut by fixed offsets where the grammar allows whitespace inside the "
            "matched text; the optional leading `|` of every (nested) expression is consumed before operator-"
            "precedence parsing. It does not decide that every literal, count and index is transported unchanged.",
    "note": "Relies on C13 for the precedence algorithm and on C14 for grammar.rs being the parser of grammar.pest.",
}


def run(rep, tier):
    rep.explanation = (
        "The meta-grammar is read from meta/src/grammar.pest by pv/pestgram.py (independent of pest_meta); the "
        "consumer is read from the typed HIR of pest_meta::parser.")
    rep.configs = rep.cfgs(["default", "extras"])
    try:
        g = pestgram.rules_dict(pestgram.parse_file(facts.REPO + "/" + GRAMMAR))
    except Exception as e:  # fail closed
        r = rep.rule("C07.GRAMMAR", 0, "the meta-grammar can be read")
        r.lost("meta/src/grammar.pest not readable: %s" % e)
        return
    for cfg in rep.configs:
        f = facts.facts(cfg)
        meta = f.crate("pest_meta", want_feature="grammar-extras" if cfg == "extras" else None)
        sfx = "" if cfg == "default" else "@" + cfg
        pratt(rep, meta, sfx)
        unary(rep, meta, sfx)
        arms(rep, meta, g, sfx)
        infixmap(rep, meta, sfx)
        escapes(rep, meta, g, sfx)
        slices(rep, meta, g, sfx)
        leading(rep, meta, g, sfx)
        ruleenum(rep, meta, g, sfx)
        unescaped(rep, meta, sfx)
        rejects(rep, meta, sfx)
        if cfg == "extras":
            tagwrap(rep, meta, sfx)
    lexicon(rep, g)
    tokens(rep, g, "")
    tokens_generated(rep)


def rule_of(n):
    n = peel(n)
    if kind(n) == "Path" and n.get("path", "").startswith(RULE + "::"):
        return n["path"].split("::")[-1]
    return None


def pratt(rep, meta, sfx):
    r = rep.rule("C07.PRATT" + sfx, 2, "choice_operator is registered in an earlier .op() than sequence_operator, both Assoc::Left")
    fn = meta.fn("pest_meta::parser::consume_rules_with_spans")
    if fn is None:
        r.lost("consume_rules_with_spans")
        return
    ops = []
    for n in walk(fn["body"]):
        if kind(n) == "MethodCall" and n.get("path") == "pest::pratt_parser::PrattParser::op":
            a = peel(n["args"][0])
            level = []
            for c in walk(a):
                if kind(c) == "Call" and callee(c) in ("pest::pratt_parser::Op::infix", "pest::pratt_parser::Op::prefix", "pest::pratt_parser::Op::postfix"):
                    rl = rule_of(c["args"][0])
                    assoc = peel(c["args"][1]).get("path", "").split("::")[-1] if len(c["args"]) > 1 else None
                    level.append((callee(c).split("::")[-1], rl, assoc))
            ops.append((hirq.line(n), n, level))
    # receiver nesting: the innermost .op() is applied first; order by position in the chain
    chain = []
    top = [n for (_, n, _) in ops]
    def depth(n):
        d = 0
        cur = n
        while kind(cur) == "MethodCall" and cur.get("path") == "pest::pratt_parser::PrattParser::op":
            d += 1
            cur = cur["recv"]
        return d
    ops.sort(key=lambda x: depth(x[1]))
    flat = [lv for (_, _, lv) in ops]
    pos = {}
    for i, lv in enumerate(flat):
        for (k, rl, assoc) in lv:
            pos[rl] = (i, k, assoc)
            r.instance("op:%s" % rl, where(fn["body"]), "level %d %s %s" % (i, k, assoc))
    ch, sq = pos.get("choice_operator"), pos.get("sequence_operator")
    if not ch or not sq:
        r.lost("choice_operator / sequence_operator in the operator table")
        return
    if not (ch[0] < sq[0]):
        r.violation("order", where(fn["body"]), "choice is not registered before sequence: `a ~ b | c` reads as a ~ (b | c)")
    for nm, p in (("choice_operator", ch), ("sequence_operator", sq)):
        if p[1] != "infix" or p[2] != "Left":
            r.violation("assoc:" + nm, where(fn["body"]), "%s is %s/%s, documented as left-associative infix" % (nm, p[1], p[2]))


def unary(rep, meta, sfx):
    r = rep.rule("C07.UNARY" + sfx, 3,
                 "prefix operator arms wrap the result of the recursion over the remaining pairs (outermost-first); "
                 "the postfix fold consumes the remaining pairs front to back")
    fn = meta.fn("pest_meta::parser::consume_expr::unaries")
    if fn is None:
        r.lost("consume_expr::unaries")
        return
    lets = hirq.lets(fn["body"])
    ctx = hirq.Ctx(fn)
    for v in ("PosPred", "NegPred"):
        sites = [n for n in walk(fn["body"]) if kind(n) == "Call" and callee(n) == PE + "::" + v]
        if not sites:
            r.violation("prefix:%s" % v, where(fn["body"]), "no construction of %s in unaries" % v)
            continue
        for n in sites:
            r.instance("prefix:%s" % v, where(n))
            # operand: Box::new(<local>) with local = unaries(..)? (recursive idiom)
            arg = peel(n["args"][0])
            inner = peel(arg["args"][0]) if kind(arg) == "Call" and arg.get("args") else arg
            lid = hirq.local_id(inner)
            ok = False
            if lid in lets:
                init = lets[lid][0]
                if any(kind(x) == "Call" and callee(x) == fn["path"] for x in walk(init)):
                    ok = True
            if not ok:
                # iterative idiom: inside a closure of fold over collected prefixes -> needs .rev()/rfold
                encl = [p for (p, k, i) in ctx.ancestors(n) if kind(p) == "Closure"]
                folds = [x for x in walk(fn["body"]) if kind(x) == "MethodCall" and x["m"] in ("fold", "rfold", "try_fold")
                         and any(c is x["args"][-1] for c in encl)]
                for fo in folds:
                    chain = []
                    cur = fo["recv"]
                    while kind(cur) == "MethodCall":
                        chain.append(cur["m"])
                        cur = cur["recv"]
                    if fo["m"] == "rfold" or "rev" in chain:
                        ok = True
            if not ok:
                r.violation("prefix:%s" % v, where(n),
                            "%s does not wrap the result of the recursion over the rest of the term (nor a reversed "
                            "fold): stacked predicates are applied innermost-first, `!&x` reads as PosPred(NegPred(x))" % v)
    folds = [x for x in walk(fn["body"]) if kind(x) == "MethodCall" and x["m"] in ("try_fold", "fold")
             and "Peekable" in x.get("rty", "")]
    r.instance("postfix-fold", where(folds[0]) if folds else "")
    if not folds:
        r.violation("postfix-fold", where(fn["body"]), "postfix operators are not folded over the remaining pairs")
    else:
        chain = []
        cur = folds[0]["recv"]
        while kind(cur) == "MethodCall":
            chain.append(cur["m"])
            cur = cur["recv"]
        if "rev" in chain:
            r.violation("postfix-fold", where(folds[0]), "postfix operators are applied in reverse source order")


def rule_matches(fn):
    """Matches whose arms are `Rule::x` patterns: (match node, {rule names}, catch-all arms)."""
    out = []
    for n in walk(fn["body"]):
        if kind(n) != "Match" or n.get("src") != "match":
            continue
        if n.get("ty") == "bool" or hirq.from_macro(n, "matches"):
            continue  # a test (`matches!`), not a dispatch
        names = set()
        catch = []
        for arm in n["arms"]:
            pv = [v for v in hirq.pat_variants(arm["pat"]) if v.startswith(RULE + "::")]
            if pv:
                names |= set(v.split("::")[-1] for v in pv)
            elif hirq.pat_is_catchall(arm["pat"]):
                catch.append(arm)
        if names:
            out.append((n, names, catch))
    return out


STRUCTURAL = {"opening_paren", "closing_paren", "expression"}
DISPATCH = ["terminal", "prefix_operator", "postfix_operator", "infix_operator", "modifier"]


def arms(rep, meta, g, sfx):
    r = rep.rule("C07.ARMS" + sfx, 22,
                 "alternatives of terminal / prefix_operator / postfix_operator / infix_operator / modifier == the "
                 "`Rule::x` arms of the consumer's dispatch; other arms are unreachable!()")
    fns = [b for b in meta.bodies if b["path"].startswith("pest_meta::parser::consume_") and not b.get("exp")]
    allm = []
    for fn in fns:
        for (n, names, catch) in rule_matches(fn):
            allm.append((fn, n, names, catch))
    for prod in DISPATCH:
        if prod not in g:
            r.lost("production %s in grammar.pest" % prod)
            continue
        alts = set(x[1] for x in pestgram.alternatives(g[prod][1]) if x[0] == "ident")
        best = None
        for (fn, n, names, catch) in allm:
            ov = len(alts & names)
            if ov and (best is None or ov > best[0]):
                best = (ov, fn, n, names, catch)
        if best is None:
            r.violation("dispatch:" + prod, "", "no consumer match dispatches on the alternatives of %s" % prod)
            continue
        _, fn, n, names, catch = best
        for a in sorted(alts):
            r.instance("%s:%s" % (prod, a), where(n))
            if a not in names:
                r.violation("%s:%s" % (prod, a), where(n),
                            "production %s has alternative %s but the consumer has no arm for it: a valid grammar "
                            "using it reaches unreachable!()" % (prod, a))
        extra = names - alts - STRUCTURAL
        # arms of other dispatch productions may share the match (prefix operators + terminals)
        others = set()
        for p2 in DISPATCH:
            if p2 != prod and p2 in g:
                others |= set(x[1] for x in pestgram.alternatives(g[p2][1]) if x[0] == "ident")
        extra -= others
        for a in sorted(extra):
            r.violation("%s:dead:%s" % (prod, a), where(n), "the consumer has an arm for %s, which is not an alternative of %s" % (a, prod))
        for arm in catch:
            continues = any(kind(x) == "Match" and any(v.startswith(RULE + "::") for a2 in x["arms"] for v in hirq.pat_variants(a2["pat"]))
                            for x in walk(arm["body"]))
            if continues:
                continue  # `other => match other { Rule::.. }`: the dispatch goes on in a nested match
            if not hirq.diverges(arm["body"]) and arm["body"].get("ty") != "!":
                r.violation("%s:catch-all" % prod, where(arm["body"]), "the catch-all arm of the %s dispatch does not "
                            "diverge: an unknown pair is silently mis-read" % prod)


def infixmap(rep, meta, sfx):
    r = rep.rule("C07.INFIXMAP" + sfx, 2, "sequence_operator -> Seq(lhs, rhs), choice_operator -> Choice(lhs, rhs)")
    fn = meta.fn("pest_meta::parser::consume_expr")
    if fn is None:
        r.lost("consume_expr")
        return
    want = {"sequence_operator": "Seq", "choice_operator": "Choice"}
    found = set()
    # the infix mapping may live in consume_expr itself (a closure) or in a function nested in it
    hosts = [fn] + [b for b in meta.bodies if b["path"].startswith(fn["path"] + "::") and b.get("body") is not None
                    and b.get("dk") in ("Fn", "AssocFn")]
    for host in hosts:
        hlets = hirq.lets(host["body"])
        for (n, names, catch) in rule_matches(host):
            if not (names & set(want)):
                continue
            # `let combine = match op.as_rule() { seq => ParserExpr::Seq, .. }; .. combine(Box::new(lhs), Box::new(rhs))`
            via_local = None
            for lid, (init, st) in hlets.items():
                if peel(init) is n:
                    calls = [x for x in walk(host["body"]) if kind(x) == "Call" and isinstance(callee(x), tuple) and callee(x)[1] == lid]
                    if len(calls) == 1:
                        via_local = calls[0]
            for arm in n["arms"]:
                for v in hirq.pat_variants(arm["pat"]):
                    nm = v.split("::")[-1]
                    if nm not in want:
                        continue
                    found.add(nm)
                    ctors = [x for x in walk(arm["body"]) if kind(x) == "Call" and isinstance(callee(x), str) and callee(x).startswith(PE + "::")]
                    values = [x for x in walk(arm["body"]) if kind(x) == "Path" and x.get("res") == "def"
                              and str(x.get("path", "")).startswith(PE + "::") and not any(x is peel(cx["f"]) for cx in ctors)]
                    r.instance(nm, where(arm["body"]), str([callee(x).split("::")[-1] for x in ctors] + [x["path"].split("::")[-1] for x in values]))
                    ok = False
                    if len(ctors) == 1 and not values and callee(ctors[0]) == PE + "::" + want[nm]:
                        # operand order: first Box::new(..) mentions lhs, second rhs
                        a0 = hirq.expr_text(ctors[0]["args"][0])
                        a1 = hirq.expr_text(ctors[0]["args"][1])
                        ok = "lhs" in a0 and "rhs" in a1
                    elif not ctors and len(values) == 1 and values[0]["path"] == PE + "::" + want[nm] and via_local is not None \
                            and len(via_local["args"]) == 2:
                        a0 = hirq.expr_text(via_local["args"][0])
                        a1 = hirq.expr_text(via_local["args"][1])
                        ok = "lhs" in a0 and "rhs" in a1
                    if not ok:
                        r.violation(nm, where(arm["body"]), "%s is not mapped to %s(lhs, rhs)" % (nm, want[nm]))
    for nm in want:
        if nm not in found:
            r.violation(nm, where(fn["body"]), "no infix arm for %s" % nm)


def match_value_is_pushed(fn, m):
    """Is the value of match expression m handed to a `push` (directly, or through the local it initialises)?"""
    ctx = hirq.Ctx(fn)
    par = ctx.parent.get(id(m))
    hops = 0
    while par is not None and hops < 4:
        pn, pk, pi = par
        if kind(pn) == "MethodCall" and pn["m"] == "push" and pk == "args":
            return True
        if pn.get("k") == "Let" and pk == "init" and pn["pat"].get("k") == "PBind":
            lid = pn["pat"]["id"]
            return any(kind(x) == "MethodCall" and x["m"] == "push" and x["args"] and hirq.local_id(x["args"][0]) == lid
                       for x in walk(fn["body"]))
        par = ctx.parent.get(id(pn))
        hops += 1
    return False


def eval_len_cond(c, n, lenvar_pred):
    """Truth of condition c when the inspected string has length n."""
    c = peel(c)
    k = kind(c)
    if k == "Binary" and c["op"] in ("||", "&&"):
        a, b = eval_len_cond(c["l"], n, lenvar_pred), eval_len_cond(c["r"], n, lenvar_pred)
        if a is None or b is None:
            return None
        return (a or b) if c["op"] == "||" else (a and b)
    if k == "Unary" and c["op"] == "!":
        a = eval_len_cond(c["e"], n, lenvar_pred)
        return None if a is None else (not a)
    if k == "Binary" and c["op"] in ("<", "<=", ">", ">=", "==", "!="):
        def val(x):
            x = peel(x)
            if hirq.lit_value(x) is not None:
                return hirq.lit_value(x)
            if kind(x) == "MethodCall" and x["m"] == "len":
                return n
            return None
        a, b = val(c["l"]), val(c["r"])
        if a is None or b is None:
            return None
        return {"<": a < b, "<=": a <= b, ">": a > b, ">=": a >= b, "==": a == b, "!=": a != b}[c["op"]]
    if k == "MethodCall" and c["m"] == "contains":
        rng = peel(c["recv"])
        if kind(rng) == "Struct":
            f = {x["name"]: hirq.lit_value(x["e"]) for x in rng["fields"]}
            lo, hi = f.get("start"), f.get("end")
            incl = "RangeInclusive" in rng.get("path", "")
            if lo is not None and hi is not None:
                return lo <= n <= hi if incl else lo <= n < hi
        if kind(rng) == "Call" and "RangeInclusive" in str(callee(rng)):
            lo, hi = hirq.lit_value(rng["args"][0]), hirq.lit_value(rng["args"][1])
            if lo is not None and hi is not None:
                return lo <= n <= hi
    return None


RUST_ESC = {'"': '"', "\\": "\\", "r": "\r", "n": "\n", "t": "\t", "0": "\0", "'": "'"}


def escapes(rep, meta, g, sfx):
    r = rep.rule("C07.ESCAPES" + sfx, 9,
                 "unescape: each single-character escape of the grammar's `escape` rule decodes to its Rust meaning; "
                 "\\x takes exactly the grammar's digit count, \\u{..} accepts exactly the grammar's digit range")
    fn = meta.fn("pest_meta::parser::unescape")
    if fn is None or "escape" not in g:
        r.lost("unescape / escape rule")
        return
    esc = g["escape"][1]
    alts = []
    for x in walk_expr(esc):
        if x[0] == "choice":
            alts = x[1]
    singles = [a[1] for a in alts if a[0] == "str"]
    named = [a[1] for a in alts if a[0] == "ident"]
    # consumer: match on chars.next()? with char literal arms
    ms = [n for n in walk(fn["body"]) if kind(n) == "Match" and n.get("sty") == "char"]
    if not ms:
        r.lost("escape character match in unescape")
        return
    m = max(ms, key=lambda x: len(x["arms"]))
    table = {}
    armof = {}
    for arm in m["arms"]:
        p = arm["pat"]
        if p.get("k") == "PLit" and p.get("lk") == "char":
            pushed = [hirq.lit_value(x["args"][0]) for x in walk(arm["body"]) if kind(x) == "MethodCall" and x["m"] == "push"
                      and hirq.lit_value(x["args"][0]) is not None]
            if not pushed and not any(kind(x) == "MethodCall" and x["m"] == "push" for x in walk(arm["body"])):
                # the arm yields the decoded character as the value of the match; it is pushed once, after the match
                vals = [hirq.lit_value(peel(v)) for v in hirq.tail_leaves(arm["body"])]
                if vals and all(isinstance(v, str) for v in vals) and match_value_is_pushed(fn, m):
                    pushed = vals
            table[p["v"]] = pushed
            armof[p["v"]] = arm
    for ch in singles:
        r.instance("single:" + repr(ch), where(m))
        if ch not in table:
            r.violation("single:" + repr(ch), where(m), "the grammar accepts the escape \\%s but unescape has no arm for it (returns None -> panic)" % ch)
        elif table[ch] != [RUST_ESC.get(ch)]:
            r.violation("single:" + repr(ch), where(armof[ch]["body"]), "escape \\%s decodes to %r, expected %r" % (ch, table[ch], RUST_ESC.get(ch)))
    for ch in table:
        if ch not in singles and ch not in ("x", "u"):
            r.violation("extra:" + repr(ch), where(armof[ch]["body"]), "unescape decodes \\%s, which the grammar does not accept" % ch)
    # \u{..}: accepted digit counts
    def repn_of(name):
        for x in walk_expr(g[name][1]):
            if x[0] == "repn":
                return (x[2], x[3])
        return None
    if "unicode" in g and "u" in armof:
        lo, hi = repn_of("unicode")
        conds = [x for x in walk(armof["u"]["body"]) if kind(x) == "If" and hirq.diverges(x["then"])
                 and any(kind(y) == "MethodCall" and y["m"] == "len" for y in walk(x["cond"]))]
        r.instance("unicode-digits", where(armof["u"]["body"]), "grammar {%s,%s}" % (lo, hi))
        if not conds:
            r.violation("unicode-digits", where(armof["u"]["body"]), "digit-count check of \\u{..} not found")
        else:
            acc = set()
            und = False
            for n in range(0, 12):
                t = eval_len_cond(conds[0]["cond"], n, None)
                if t is None:
                    und = True
                elif not t:
                    acc.add(n)
            want = set(range(lo, hi + 1))
            if und:
                r.violation("unicode-digits:shape", where(conds[0]), "digit-count condition not understood")
            elif acc != want:
                r.violation("unicode-digits", where(conds[0]),
                            "unescape accepts \\u{..} with %s hex digits, the grammar accepts %s: %s"
                            % (sorted(acc), sorted(want),
                               "escapes with %s digits are accepted by the reader's grammar and then refused by unescape"
                               % sorted(want - acc) if want - acc else "unescape accepts more than the grammar"))
    if "code" in g and "x" in armof:
        lo, hi = repn_of("code")
        takes = [hirq.lit_value(x["args"][0]) for x in walk(armof["x"]["body"]) if kind(x) == "MethodCall" and x["m"] == "take"]
        r.instance("hex-digits", where(armof["x"]["body"]), "grammar {%s}" % lo)
        if takes != [lo] or lo != hi:
            r.violation("hex-digits", where(armof["x"]["body"]), "\\x takes %s digits, grammar says %s" % (takes, lo))


def walk_expr(e):
    if isinstance(e, tuple):
        yield e
        for x in e[1:]:
            if isinstance(x, tuple):
                for y in walk_expr(x):
                    yield y
            elif isinstance(x, list):
                for z in x:
                    for y in walk_expr(z):
                        yield y


def admits_whitespace(g, name):
    """Can implicit WHITESPACE/COMMENT occur inside the text matched by rule `name` itself (not in sub-rules)?"""
    mod, e = g[name]
    if mod in ("@", "$"):
        return False
    def multi(x):
        if x[0] == "seq" and len(x[1]) > 1:
            return True
        if x[0] in ("rep", "rep1"):
            return True
        if x[0] == "repn":
            return True
        if x[0] == "choice":
            return any(multi(y) for y in x[1])
        if x[0] in ("opt", "pos", "neg", "push", "tag"):
            return multi(x[-1])
        return False
    return multi(e)


def slices(rep, meta, g, sfx):
    r = rep.rule("C07.SLICE" + sfx, 3,
                 "consumer arms that cut the matched text by constant offsets (s[a..len-b]) belong to rules that admit "
                 "no implicit whitespace inside their own text")
    fn = meta.fn("pest_meta::parser::consume_expr::unaries")
    if fn is None:
        r.lost("consume_expr::unaries")
        return
    ctx = hirq.Ctx(fn)
    lets = hirq.lets(fn["body"])
    for n in walk(fn["body"]):
        if kind(n) != "Index":
            continue
        idx = peel(n["idx"])
        if kind(idx) != "Struct" or "Range" not in idx.get("path", ""):
            continue
        f = {x["name"]: x["e"] for x in idx["fields"]}
        lo = hirq.lit_value(f.get("start", {})) if "start" in f else None
        if lo is None:
            continue
        # which Rule arm are we in, and which pair's text is sliced?
        arm_rule = None
        for g_ in reversed(ctx.guards(n)):
            if g_[0] == "arm":
                pv = [v for v in hirq.pat_variants(g_[1]["arms"][g_[2]]["pat"]) if v.startswith(RULE + "::")]
                if pv:
                    arm_rule = pv[0].split("::")[-1]
                    break
        base = hirq.local_id(n["base"])
        key = "%s:[%s..]" % (arm_rule, lo)
        if arm_rule is None or arm_rule not in g:
            continue
        target = slice_source_rule(fn, ctx, lets, g, arm_rule, base, n)
        r.instance(key, where(n), "text of rule %s" % target)
        if admits_whitespace(g, target):
            r.violation(key, where(n),
                        "the arm for %s cuts the matched text at offset %s, but rule %s is not atomic: whitespace or a "
                        "comment between its elements shifts the cut (`^ \"x\"` reads as Insens(\"\\\"x\"))"
                        % (arm_rule, lo, target))


def pair_elements(g, name, depth=0):
    """Rule names of the pairs produced, in order, by one match of rule `name`'s own sequence (silent rules
    expanded, literals skipped); None when the shape is not a plain sequence."""
    mod, e = g[name]
    items = e[1] if e[0] == "seq" else [e]
    out = []
    for it in items:
        if it[0] == "str" or it[0] == "insens":
            continue
        if it[0] == "ident":
            if it[1] in g and g[it[1]][0] == "_" and depth < 3:
                sub = pair_elements(g, it[1], depth + 1)
                if sub is None:
                    return None
                out += sub
            else:
                out.append(it[1])
        else:
            return None
    return out


def slice_source_rule(fn, ctx, lets, g, arm_rule, base, node):
    """Which grammar rule's text is being cut: the arm's own pair, or the k-th inner pair."""
    if base not in lets:
        return arm_rule
    init = lets[base][0]
    pair_locals = [x for x in walk(init) if kind(x) == "Path" and x.get("res") == "local" and "Pair<" in x.get("ty", "")]
    if not pair_locals:
        return arm_rule
    pid = pair_locals[0]["id"]
    if pid not in lets:
        return arm_rule  # the pair matched by the arm (a pattern / parameter binding)
    pinit = lets[pid][0]
    nexts = [x for x in walk(pinit) if kind(x) == "MethodCall" and x["m"] == "next"]
    if not nexts:
        return arm_rule
    it = hirq.local_id(nexts[0]["recv"])
    # count earlier next() calls on the same iterator inside the same arm
    arm_body = None
    for g_ in reversed(ctx.guards(node)):
        if g_[0] == "arm":
            arm_body = g_[1]["arms"][g_[2]]["body"]
            break
    k = 0
    if arm_body is not None:
        for x in walk(arm_body):
            if kind(x) == "MethodCall" and x["m"] == "next" and hirq.local_id(x["recv"]) == it:
                if x is nexts[0]:
                    break
                k += 1
    elems = pair_elements(g, arm_rule)
    if elems is not None and k < len(elems):
        return elems[k]
    return arm_rule


def leading(rep, meta, g, sfx):
    r = rep.rule("C07.LEADING" + sfx, 3,
                 "`expression = choice_operator? ~ term ~ ..`: every call of consume_expr on the pairs of an "
                 "expression removes the optional leading choice_operator first (or consume_expr does so itself)")
    ce = meta.fn("pest_meta::parser::consume_expr")
    if ce is None or "expression" not in g:
        r.lost("consume_expr / expression production")
        return
    first = pestgram.alternatives(g["expression"][1])[0]
    opt_lead = first[0] == "seq" and first[1][0] == ("opt", ("ident", "choice_operator"))
    if not opt_lead:
        r.note("expression no longer starts with an optional choice_operator")
        r.instance("grammar", "", "no optional leading operator")
        return

    def strips(body, before_line=None):
        for x in walk(body):
            if kind(x) == "If" or kind(x) == "Match":
                txt = hirq.expr_text(x.get("cond") or x.get("scrut"))
                names = [rule_of(y) for y in walk(x.get("cond") or x.get("scrut")) if rule_of(y)]
                if "choice_operator" in names and (before_line is None or hirq.line(x) < before_line):
                    if any(kind(y) == "MethodCall" and y["m"] == "next" for y in walk(x)):
                        return True
        return False

    # does consume_expr strip it itself (before handing pairs to the pratt parser)?
    own = [x for x in ce["body"].get("stmts", []) if x.get("k") in ("Semi", "Expr")]
    self_strips = any(strips(s) for s in own)
    r.instance("consume_expr:self", where(ce["body"]), "strips itself: %s" % self_strips)
    cg = hirq.CallGraph([meta])
    for (p, n) in cg.callers_of(ce["path"]):
        if kind(n) != "Call":
            continue
        fn = meta.fn(p)
        key = "call:%s@%s" % (p.split("::")[-1], site_arm(fn, n))
        ok = self_strips
        if not ok:
            # a strip on the same iterator before this call, in the enclosing closure/block
            ctx = hirq.Ctx(fn)
            scope = fn["body"]
            for (anc, k, i) in ctx.ancestors(n):
                if kind(anc) == "Closure":
                    scope = anc["body"]
                    break
            arg = hirq.local_id(n["args"][0])
            ok = arg is not None and strips(scope, hirq.line(n)) and any(
                kind(x) == "MethodCall" and x["m"] == "next" and hirq.local_id(x["recv"]) == arg
                for y in walk(scope) if kind(y) == "If" for x in walk(y))
        if not ok:
            # the pairs come out of a helper of the reader that opens the expression and drops the operator itself
            a0 = peel(n["args"][0])
            lets0 = hirq.lets(fn["body"])
            hops = 0
            while kind(a0) == "Path" and a0.get("res") == "local" and a0["id"] in lets0 and hops < 3:
                a0 = peel(lets0[a0["id"]][0])
                hops += 1
            if kind(a0) in ("Call", "MethodCall") and isinstance(callee(a0), str) and callee(a0).startswith("pest_meta::parser::"):
                h = meta.fn(callee(a0))
                if h is not None and h is not ce and h.get("body") is not None and strips(h["body"]):
                    ok = True
        r.instance(key, where(n))
        if not ok:
            r.violation(key, where(n),
                        "this call hands the pairs of an `expression` to the operator-precedence parser without "
                        "removing the optional leading `|`: `( | a | b )` and `PUSH( | a )` are accepted by the "
                        "meta-grammar and then panic in PrattParser (sibling call site for the rule body does strip it)")


def site_arm(fn, node):
    ctx = hirq.Ctx(fn)
    for g_ in reversed(ctx.guards(node)):
        if g_[0] == "arm":
            pv = [v for v in hirq.pat_variants(g_[1]["arms"][g_[2]]["pat"]) if v.startswith(RULE + "::")]
            if pv:
                return pv[0].split("::")[-1]
    return "top"


def ruleenum(rep, meta, g, sfx):
    r = rep.rule("C07.RULEENUM" + sfx, 60, "variants of parser::Rule == rules of grammar.pest (+ EOI)")
    adt = meta.adt(RULE)
    if adt is None:
        r.lost("parser::grammar::Rule")
        return
    vs = set(v["name"] for v in adt["variants"])
    names = set(g)
    for n in sorted(names):
        r.instance(n, "")
        if n not in vs:
            r.violation("missing-variant:" + n, "", "grammar.pest defines rule %s but the checked-in parser's Rule enum has no such variant (stale grammar.rs)" % n)
    for v in sorted(vs - names - {"EOI"}):
        r.violation("extra-variant:" + v, "", "Rule::%s has no rule in grammar.pest (stale grammar.rs)" % v)


def unescaped(rep, meta, sfx):
    r = rep.rule("C07.UNESCAPED" + sfx, 4,
                 "every literal stored in the AST (Str, Insens, Range bounds, PushLiteral) is the result of the escape "
                 "decoder, not rewritten afterwards (no case mapping, replacement or trimming between the decoder and "
                 "the AST): sibling terminal arms agree on decoding")
    # the decoder family: fns of the parser module that (transitively) reach the fn with the escape table
    cg = hirq.CallGraph([meta])
    base = [b["path"] for b in meta.bodies if b["path"].startswith("pest_meta::parser::") and b.get("output", "").startswith("core::option::Option<alloc::string::String")
            and any(kind(x) == "Match" and x.get("sty") == "char" for x in walk(b["body"]))]
    if not base:
        r.lost("the escape decoder")
        return
    family = set(base)
    changed = True
    while changed:
        changed = False
        for b in meta.bodies:
            if b["path"] in family or not b["path"].startswith("pest_meta::parser::"):
                continue
            if any(c in family for c in cg.edges.get(b["path"], ())) and "String" in b.get("output", ""):
                family.add(b["path"])
                changed = True
    want = {"Str": [0], "Insens": [0], "Range": [0, 1], "PushLiteral": [0]}
    for fn in meta.bodies:
        if not fn["path"].startswith("pest_meta::parser::consume_") or fn.get("exp"):
            continue
        lets = hirq.lets(fn["body"])
        for x in walk(fn["body"]):
            if kind(x) == "Call" and isinstance(callee(x), str) and callee(x).startswith(PE + "::"):
                v = callee(x).split("::")[-1]
                if v not in want:
                    continue
                for ai in want[v]:
                    ok = decoded(x["args"][ai], lets, family)
                    key = "%s#%d" % (v, ai)
                    r.instance(key, where(x))
                    if not ok:
                        r.violation(key, where(x),
                                    "the %s literal stored in the AST (`%s`) is not exactly the output of the escape "
                                    "decoder (not decoded at all, or rewritten after decoding): what is read back differs "
                                    "from the literal that was written"
                                    % (v, hirq.expr_text(x["args"][ai])))


ALTERS_TEXT = {"to_lowercase", "to_uppercase", "to_ascii_lowercase", "to_ascii_uppercase", "replace", "replacen", "trim",
               "trim_start", "trim_end", "repeat", "escape_default", "escape_debug", "escape_unicode", "to_lower",
               "to_upper"}


def decoded(a, lets, family, depth=0):
    a = peel(a)
    k = kind(a)
    if depth > 8:
        return False
    if k in ("Call", "MethodCall") and callee(a) in family:
        return True
    if k == "Match" and a.get("src") == "try":
        return decoded(a["scrut"]["args"][0], lets, family, depth + 1) if kind(a["scrut"]) == "Call" else False
    if k == "MethodCall":
        if a["m"] in ALTERS_TEXT:
            return False        # decoded, then rewritten: what is stored is no longer the literal that was written
        return decoded(a["recv"], lets, family, depth + 1)
    if k == "Index":
        return decoded(a["base"], lets, family, depth + 1)
    if k == "Call" and a["args"]:
        return decoded(a["args"][0], lets, family, depth + 1)
    if k == "Path" and a.get("res") == "local" and a["id"] in lets:
        return decoded(lets[a["id"]][0], lets, family, depth + 1)
    return False


LEX_WS = {" ", "\t", "\n", "\r\n"}


def lexicon(rep, g):
    r = rep.rule("C07.LEXICON", 2,
                 "the meta-grammar's implicit whitespace is space, tab, LF and CRLF (so a grammar file may use either "
                 "line ending anywhere spacing is legal), and comments are `//` lines and nested `/* */` blocks")
    def strings_of(name, seen=()):
        if name not in g or name in seen:
            return None
        out = set()
        for a in pestgram.alternatives(g[name][1]):
            if a[0] == "str":
                out.add(a[1])
            elif a[0] == "ident":
                sub = strings_of(a[1], seen + (name,))
                if sub is None:
                    return None
                out |= sub
            else:
                return None
        return out
    ws = strings_of("WHITESPACE")
    r.instance("WHITESPACE", GRAMMAR, repr(sorted(ws)) if ws is not None else "?")
    if ws is None or ws != {" ", "\t", "\n", "\r\n"}:
        r.violation("WHITESPACE", GRAMMAR, "meta-grammar WHITESPACE is %s, documented spacing is space / tab / LF / CRLF: "
                    "a grammar written with the missing form as spacing is rejected" % (sorted(ws) if ws is not None else "not a set of literals"))
    cm = g.get("COMMENT")
    names = set(x[1] for x in pestgram.alternatives(cm[1]) if x[0] == "ident") if cm else set()
    r.instance("COMMENT", GRAMMAR, str(sorted(names)))
    if names != {"block_comment", "line_comment"}:
        r.violation("COMMENT", GRAMMAR, "COMMENT alternatives are %s" % sorted(names))


# ------------------------------------------------------------------ TOKENS

def _token_refs():
    from .c18 import C, lit, HEX, DIGIT, SCALARS
    from ..reglang import cls_complement, cls_intersect
    def notin(s):
        return ("cls", cls_intersect(cls_complement([(ord(c), ord(c)) for c in sorted(s)]), SCALARS))
    alpha_ = C((0x41, 0x5A), (0x61, 0x7A), (0x5F, 0x5F))
    alnum_ = C((0x30, 0x39), (0x41, 0x5A), (0x61, 0x7A), (0x5F, 0x5F))
    esc = ("cat", [lit("\\"), ("alt", [
        C(*[(ord(c), ord(c)) for c in "\"\\rnt0'"]),
        ("cat", [lit("x"), ("rep", HEX, 2)]),
        ("cat", [lit("u{"), ("rep", HEX, 2), ("opt", HEX), ("opt", HEX), ("opt", HEX), ("opt", HEX), lit("}")])])])
    return {
        # written from the grammar-syntax chapter of the pest book / the doc comments of grammar.pest
        "number": (("plus", DIGIT), set()),
        "integer": (("alt", [("plus", DIGIT), ("cat", [lit("-"), ("star", lit("0")), C((0x31, 0x39)), ("star", DIGIT)])]), set()),
        "string": (("cat", [lit('"'), ("star", ("alt", [notin('"\\'), esc])), lit('"')]), set()),
        "character": (("cat", [lit("'"), ("alt", [esc, notin("'\\")]), lit("'")]), set()),
        "identifier": (("cat", [alpha_, ("star", alnum_)]), {"PUSH"}),
        "tag_id": (("cat", [lit("#"), alpha_, ("star", alnum_)]), set()),
    }


def tokens(rep, g, tag, src=None):
    from . import c18
    from .. import reglang
    src = src or GRAMMAR
    r = rep.rule("C07.TOKENS" + tag, 6,
                 "the lexical rules of the grammar language (number, integer, string, character with their escapes, "
                 "identifier, tag) are regular, deterministic, and DFA-equivalent over all scalar values to the "
                 "documented token syntax: every spelling the documentation allows is read, nothing else is")
    lx = c18.Lex(g, r)
    for name, (oracle, excl) in sorted(_token_refs().items()):
        if name not in g:
            r.violation("rule:" + name, src, "lexical rule %s is missing" % name)
            continue
        mod, e = g[name]
        if mod not in ("@", "$"):
            r.violation("atomic:" + name, src, "lexical rule %s is not atomic: implicit whitespace/comments would be "
                        "accepted inside the token" % name)
            continue
        # leading `!"lit"` exclusions (identifier = !"PUSH" ~ ...)
        got_excl = set()
        if e[0] == "seq":
            items = list(e[1])
            while items and items[0][0] == "neg" and items[0][1][0] == "str":
                got_excl.add(items[0][1][1])
                items = items[1:]
            e2 = ("seq", items) if len(items) != 1 else items[0]
        else:
            e2 = e
        try:
            saved = g[name]
            g[name] = (mod, e2)
            try:
                rx = lx.rule_regex(name)
            finally:
                g[name] = saved
        except c18.Undecidable as ex:
            r.violation("regular:" + name, src, "rule %s is outside the decidable fragment: %s" % (name, ex))
            continue
        cnt = [0]
        before = len(r.violations)
        c18.determinacy(rx, [], r, name, cnt, src)
        r.instance("determinacy:" + name, src, "%d conditions" % cnt[0])
        classes = []
        c18.collect_classes(rx, classes)
        c18.collect_classes(oracle, classes)
        atoms = reglang.Atoms(classes + [c18.SCALARS])
        w, in_first = reglang.difference_word(c18.to_atoms(rx, atoms), c18.to_atoms(oracle, atoms), atoms.n)
        r.instance("equiv:" + name, src, "%d alphabet atoms covering all scalars" % atoms.n)
        if w is not None:
            txt = c18.word_text(w, atoms)
            r.violation("equiv:" + name, src,
                        "rule %s %s %r (code points %s); the documented syntax %s it" % (
                            name, "accepts" if in_first else "rejects", txt,
                            " ".join(atoms.describe(a) for a in w), "rejects" if in_first else "accepts"))
        if got_excl != excl:
            r.violation("exclusion:" + name, src, "rule %s excludes prefixes %s, documented: %s" % (
                name, sorted(got_excl), sorted(excl)))


def tokens_generated(rep):
    """The same comparison on the PEG decompiled from the checked-in grammar.rs (typed HIR of pest_meta), so a hand
    edit of grammar.rs, or .pest and .rs changed together, is seen by the reader's property as well."""
    from .. import decompile
    meta = facts.facts("default").crate("pest_meta")
    try:
        rt = decompile.rule_terms(meta, "PestParser")
        g = decompile.grammar(rt)
    except decompile.NotUnderstood as e:
        r = rep.rule("C07.TOKENS@generated", 0, "the checked-in grammar.rs decompiles to a PEG")
        r.violation("decompile", "meta/src/grammar.rs", "grammar.rs is not understood: %s" % e)
        return
    tokens(rep, g, "@generated", "meta/src/grammar.rs")


# ------------------------------------------------------------------ TAGWRAP (grammar-extras)

def tagwrap(rep, meta, sfx):
    r = rep.rule("C07.TAGWRAP" + sfx, 1,
                 "a node tag taken off the front of a term is put back around whatever the term reads as: in the function "
                 "that calls get_node_tag, every successful result is produced under the final test of the tag - no "
                 "`return Ok(..)` leaves earlier (a tag in front of `&e` / `!e` would be dropped silently)")
    GT = "pest_meta::parser::get_node_tag"
    n = 0
    for fn in meta.bodies:
        if fn.get("body") is None or fn.get("exp") or not fn["path"].startswith("pest_meta::parser::"):
            continue
        calls = [x for x in hirq.walk_no_closures(fn["body"]) if (kind(x) == "Call" and callee(x) == GT)
                 or (kind(x) == "Block" and x.get("inlined") == GT)]
        if not calls:
            continue
        n += 1
        key = fn["path"].replace("pest_meta::parser::", "")
        r.instance(key, where(fn["body"]))
        # the tag local: bound by the tuple pattern of the let whose init is the call
        tag_ids = set()
        for st in walk(fn["body"]):
            if st.get("k") == "Let" and st.get("init") is not None and any(x is calls[0] for x in walk(st["init"])):
                for (bid, nm) in hirq.pat_bindings(st["pat"]):
                    tag_ids.add(bid)
        tests = [x for x in hirq.walk_no_closures(fn["body"]) if kind(x) == "If" and kind(peel(x["cond"])) == "LetExpr"
                 and hirq.local_id(peel(x["cond"])["init"]) in tag_ids]
        wraps = [x for x in walk(fn["body"]) if kind(x) == "Call" and callee(x) == PE + "::NodeTag"]
        if not tests or not wraps:
            r.violation(key, where(fn["body"]), "the tag returned by get_node_tag is never tested / never wrapped around the node")
            continue
        inside = set(id(y) for t0 in tests for y in walk(t0))
        for x in hirq.walk_no_closures(fn["body"]):
            if kind(x) == "Ret" and x.get("e") is not None and id(x) not in inside and not hirq.is_desugar(x):
                v = peel(x["e"])
                if kind(v) == "Call" and callee(v) == "core::result::Result::Ok":
                    r.violation(key, where(x), "%s returns Ok(..) before the tag taken off by get_node_tag is put back: "
                                "`#t = !a` reads as NegPred(a), the tag is lost without an error" % fn["name"])
    if n == 0:
        r.lost("the reader function that calls get_node_tag")


# ------------------------------------------------------------------ REJECTS

def rejects(rep, meta, sfx):
    r = rep.rule("C07.REJECTS" + sfx, 3,
                 "the reader turns the token tree into rules without refusing anything the meta-grammar accepts, except "
                 "what it documents: numbers that overflow, malformed escapes, and a repetition count of zero.  So an "
                 "explicit `return Err(..)` in the reader never sits under a comparison of two counts, nor of a count with "
                 "a constant other than 0 (`e{2, 2}` and `e{5, 2}` are legal spellings and must be read back)")
    INT = ("u32", "i32", "usize", "u64", "i64", "u8", "u16")
    n = 0
    for fn in meta.bodies:
        if not fn["path"].startswith("pest_meta::parser::") or "::tests::" in fn["path"] or fn.get("exp") or fn.get("body") is None:
            continue
        rets = [x for x in walk(fn["body"]) if kind(x) == "Ret" and x.get("e") is not None and not hirq.is_desugar(x)
                and kind(peel(x["e"])) == "Call" and str(callee(peel(x["e"]))).endswith("Result::Err")]
        inret = set(id(peel(x["e"])) for x in rets)
        # errors produced as values (`0 => Err(..)` in a helper that validates a bound, `.map_err(|_| ..)`)
        rets += [x for x in walk(fn["body"]) if kind(x) == "Call" and str(callee(x)).endswith("Result::Err") and id(x) not in inret
                 and not x.get("desugared") and not any("QuestionMark" in e_ or "?" == e_ for e_ in (x.get("exp") or []))
                 and (any(kind(y) == "Struct" or (kind(y) == "Call" and "Error" in str(callee(y))) for y in walk(x))
                      or any(kind(y) == "Path" and y.get("res") == "local" and "Error<" in str(y.get("ty", "")) for y in walk(x)))]
        rets += [x for x in walk(fn["body"]) if kind(x) == "MethodCall" and x["m"] == "map_err"]
        if not rets:
            continue
        ctx = hirq.Ctx(fn)
        lets = hirq.lets(fn["body"])
        for rt in rets:
            n += 1
            key = "%s:%s" % (fn["path"].replace("pest_meta::parser::", ""), hirq.line(rt))
            numeric = []
            for g in ctx.guards(rt):
                if g[0] == "arm":
                    # a literal pattern on a count: only `0` is a documented rejection
                    for q in walk(g[1]["arms"][g[2]]["pat"]):
                        if q.get("k") == "PLit" and isinstance(q.get("v"), int) and not isinstance(q.get("v"), bool) and q.get("v") != 0:
                            r.violation("reject:%s" % fn["path"].replace("pest_meta::parser::", ""), where(rt),
                                        "the reader returns an error for the count %s" % q.get("v"))
                    continue
                if g[0] not in ("if", "guard", "not"):
                    continue
                stack = [g[1]]
                while stack:
                    cnd = peel(stack.pop())
                    hops = 0
                    while kind(cnd) == "Path" and cnd.get("res") == "local" and cnd.get("ty") == "bool" and cnd["id"] in lets and hops < 3:
                        cnd = peel(lets[cnd["id"]][0])
                        hops += 1
                    if kind(cnd) == "Binary" and cnd["op"] in ("&&", "||"):
                        stack += [cnd["l"], cnd["r"]]
                        continue
                    if kind(cnd) == "Unary" and cnd["op"] == "!":
                        stack.append(cnd["e"])
                        continue
                    if kind(cnd) == "Binary" and cnd["op"] in ("<", "<=", ">", ">=", "==", "!="):
                        l, rr = peel(cnd["l"]), peel(cnd["r"])
                        if str(l.get("ty", "")).lstrip("&") in INT or str(rr.get("ty", "")).lstrip("&") in INT:
                            numeric.append(cnd)
            r.instance("reject:" + key, where(rt), "%d numeric guard(s)" % len(numeric))
            for cnd in numeric:
                l, rr = peel(cnd["l"]), peel(cnd["r"])
                lv, rv = hirq.lit_value(l), hirq.lit_value(rr)
                zero_test = (lv == 0 and not isinstance(lv, bool)) or (rv == 0 and not isinstance(rv, bool)) or \
                    (cnd["op"] == "<" and rv == 1) or (cnd["op"] == ">" and lv == 1)
                if not zero_test:
                    r.violation("reject:%s" % fn["path"].replace("pest_meta::parser::", ""), where(cnd),
                                "the reader returns an error under `%s`: a comparison of counts other than the documented "
                                "`== 0` test refuses repetitions that the meta-grammar accepts (e.g. `e{2, 2}`), so that "
                                "spelling is not read back" % hirq.expr_text(cnd)[:50])
    if n == 0:
        r.lost("explicit error returns of the reader (overflow / zero-count / escape rejections)")
