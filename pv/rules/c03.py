"""C03 — parser-state combinators are all-or-nothing and match exactly (DESIGN.md section 4, C03).

Structural clauses decided here (each a necessary condition; the behavioural equality with an
executable reading of the contracts is not decided):
  SNAP      snapshot pairing on every path + who-may-call for Stack::{snapshot,clear_snapshot,restore}
  MODE      lookahead/atomicity flags restored from the local that saved them
  REWIND    position (and queue length in `sequence`) reset from the locals saved before the closure
  RULE      Start/End/truncate in `rule` guarded by one predicate and linked through `index`
  NOMOVE    Position primitives do not write `pos` on a path that returns false
  SKIPARMS  memchr arms of skip_until agree with the basic search on their guard/bytes/starts_with
  BOUNDARY  positions can only be made from checked constructors or existing positions
"""
from .. import facts, hirq
from ..hirq import walk, kind, callee, where, PathEnum, exits, peel

LEVEL = "other"

# "leaves ... the stack exactly as it was" rests on Stack::snapshot / restore / clear_snapshot implementing the
# copy-on-snapshot model (stack.rs is an anchor of C03): the structural clauses of C11 are re-run here.
DEPENDS = [
    ("C11", {"why": "restoring the stack after a failed sequence / any look-ahead is Stack::restore and clear_snapshot"}),
]

PS = "pest::parser_state::ParserState"
STACK = "pest::stack::Stack"
POSITION = "pest::position::Position"
SPAN = "pest::span::Span"
QT = "pest::iterators::queueable_token::QueueableToken"

MANIFEST = {
    "technique": "typestate/pairing rules over enumerated control-flow paths, who-may-call and who-may-write "
                 "analyses, sibling-arm agreement (typed HIR, per feature configuration)",
    "text": "Decides seven structural necessary conditions of the combinator contracts for every call tree and "
            "input: every stack snapshot is released exactly once on every path (restore on failure, always "
            "in look-ahead); mode flags and positions are reset from the locals saved before the user closure; "
            "rule() emits Start/End and truncates under one predicate; the matching primitives never write the "
            "cursor on a path that returns false; the memchr arms of skip_until satisfy the conditions under "
            "which a first-byte search equals the basic search; positions are constructible only through "
            "checked constructors. It does not decide that index arithmetic computes the right values.",
    "note": "Necessary conditions, not the behavioural equality; assumes the structured-control-flow model "
            "(no unwinding), rustc's resolution, and that `Stack` itself is correct (C11, not claimed).",
}


def ps_fns(c):
    return [b for b in c.bodies if b.get("impl_self") == PS]


def closure_param_ids(fn):
    return [p["id"] for p in fn["params"] if p.get("k") == "PBind" and p.get("ty") == "F"]


def is_fcall(e, fids):
    if e.kind != "call":
        return False
    c = callee(e.node)
    return isinstance(c, tuple) and c[1] in fids


def run(rep, tier):
    rep.explanation = (
        "Pairing, ordering and who-may-write rules over the typed HIR of impl ParserState and impl Position. "
        "Each rule enumerates all control-flow paths of the anchored functions (loops unrolled once, "
        "conditions on immutable locals kept consistent) and checks the clause on every path, so the verdict "
        "holds for every program of combinator calls and every input; nothing is executed.")
    configs = ["default", "nomemchr"] + (["pestall"] if tier == "thorough" else [])
    configs = rep.cfgs(configs)
    rep.configs = configs
    for cfg in configs:
        c = facts.facts(cfg).crate("pest")
        global CRATE
        CRATE = c
        sfx = "" if cfg == "default" else "@" + cfg
        snap(rep, c, sfx)
        mode(rep, c, sfx)
        rewind(rep, c, sfx)
        rule_tokens(rep, c, sfx)
        queue_writers(rep, c, sfx)
        nomove(rep, c, sfx)
        scratch(rep, c, sfx)
        boundary(rep, c, sfx)
        advance(rep, c, sfx)
        frame(rep, c, sfx)
        strlen_rule(rep, c, sfx)
        narrow(rep, c, sfx)
        popalways(rep, c, sfx)
        sliceguard(rep, c, sfx)
        if cfg != "nomemchr":
            skiparms(rep, c, sfx)
        else:
            skip_basic_only(rep, c, sfx)
        skipbasic(rep, c, sfx)
        skipend(rep, c, sfx)


# ------------------------------------------------------------------ SNAP

def stack_wrappers(c):
    """role -> def-path of the ParserState wrapper that calls Stack::<op>."""
    roles = {}
    for b in ps_fns(c):
        if closure_param_ids(b):
            continue
        for n in walk(b["body"]):
            cal = callee(n)
            for op in ("snapshot", "clear_snapshot", "restore"):
                if cal == "%s::%s" % (STACK, op):
                    roles.setdefault(op, set()).add(b["path"])
    return roles


def snap(rep, c, sfx):
    r = rep.rule("C03.SNAP" + sfx, 12,
                 "every checkpoint is followed on every path by exactly one of checkpoint_ok/restore; Err arms "
                 "and look-ahead use restore; Stack snapshot operations are called only through the wrappers")
    roles = stack_wrappers(c)
    if set(roles) != {"snapshot", "clear_snapshot", "restore"}:
        r.lost("a ParserState wrapper for each of Stack::{snapshot,clear_snapshot,restore}: %s" % roles)
        return
    cp, ok, rs = (roles[k] for k in ("snapshot", "clear_snapshot", "restore"))
    if (cp & ok) or (cp & rs) or (ok & rs):
        r.lost("wrappers with a single snapshot operation each: %s" % roles)
        return
    cg = hirq.CallGraph([c])
    # who-may-call: raw Stack snapshot ops only from the wrappers (Stack's own impl may call itself)
    for op, w in (("snapshot", cp), ("clear_snapshot", ok), ("restore", rs)):
        for (p, n) in cg.callers_of("%s::%s" % (STACK, op)):
            fn = c.fn(p)
            r.instance("raw:%s<-%s" % (op, p), where(n))
            if p not in w and fn.get("impl_self") != STACK:
                r.violation("raw:%s<-%s" % (op, p), where(n),
                            "Stack::%s called outside its ParserState wrapper: an unpaired snapshot makes "
                            "every later restore rewind to the wrong depth" % op)
    users = set()
    for w in sorted(cp | ok | rs):
        for (p, n) in cg.callers_of(w):
            users.add(p)
            fn = c.fn(p)
            r.instance("wrapper:%s<-%s" % (w.split("::")[-1], p), where(n))
            if fn.get("impl_self") != PS or not closure_param_ids(fn):
                r.violation("wrapper:%s<-%s" % (w.split("::")[-1], p), where(n),
                            "snapshot wrapper used outside a closure-taking combinator of ParserState")
    writes_lookahead = set(b["path"] for b in ps_fns(c) if any(
        kind(n) == "Assign" and hirq.field_write_target(n) and hirq.field_write_target(n)[1] == "lookahead"
        for n in walk(b["body"])))
    for p in sorted(users):
        fn = c.fn(p)
        fids = closure_param_ids(fn)
        if not fids:
            continue
        pe = PathEnum(fn)
        n_paths = 0
        for (ev, out) in exits(pe.paths()):
            ci = [i for i, e in enumerate(ev) if e.kind == "call" and callee(e.node) in cp]
            if not ci:
                # no checkpoint on this path: then no release either
                rel = [e for e in ev if e.kind == "call" and callee(e.node) in (ok | rs)]
                if rel:
                    r.violation("pair:%s:release-without-checkpoint" % p, where(rel[0].node),
                                "a path releases/restores a snapshot it did not take")
                continue
            n_paths += 1
            if len(ci) > 1:
                r.violation("pair:%s:double-checkpoint" % p, where(ev[ci[1]].node), "two checkpoints on one path")
            after = ev[ci[0] + 1:]
            rel = [e for e in after if e.kind == "call" and callee(e.node) in (ok | rs)]
            arm = next((e for e in after if e.kind == "arm" and e.node.get("src") == "match"), None)
            armv = hirq.pat_variants(arm.node["arms"][arm.extra]["pat"]) if arm else []
            armname = "|".join(v.split("::")[-1] for v in armv) or "?"
            if len(rel) != 1:
                r.violation("pair:%s:%s" % (p, armname), where(ev[ci[0]].node),
                            "on the %s path the checkpoint is followed by %d release calls (need exactly one): "
                            "the snapshot depth drifts and a later failure restores the wrong stack"
                            % (armname, len(rel)))
                continue
            used = callee(rel[0].node)
            if "core::result::Result::Err" in armv and used not in rs:
                r.violation("pair:%s:Err-not-restored" % p, where(rel[0].node),
                            "the Err arm keeps the stack changes of a failed closure (checkpoint_ok instead "
                            "of restore): a failed sequence no longer leaves the stack as it was")
            if p in writes_lookahead and used not in rs:
                r.violation("pair:%s:%s-lookahead-not-restored" % (p, armname), where(rel[0].node),
                            "look-ahead must restore the stack whether it succeeds or fails")
            if "core::result::Result::Ok" in armv and p not in writes_lookahead and used not in ok:
                r.violation("pair:%s:Ok-restored" % p, where(rel[0].node),
                            "the Ok arm discards the stack changes of a successful closure")
        r.instance("paths:%s" % p, where(fn["body"]), "%d checkpointed exit paths" % n_paths)
        if n_paths == 0:
            r.violation("paths:%s" % p, where(fn["body"]), "no path takes a checkpoint although the fn uses the wrappers")


# ------------------------------------------------------------------ MODE

def mode(rep, c, sfx):
    r = rep.rule("C03.MODE" + sfx, 2,
                 "a combinator that assigns the lookahead/atomicity flag before running the closure assigns it "
                 "back, on every exit path, from the local that saved the entry value")
    for fld in ("lookahead", "atomicity"):
        for fn in ps_fns(c):
            fids = closure_param_ids(fn)
            ws = [n for n in walk(fn["body"]) if kind(n) == "Assign" and hirq.field_write_target(n)
                  and hirq.field_write_target(n)[1] == fld and "ParserState" in hirq.field_write_target(n)[0]]
            if not ws:
                continue
            if not fids:
                r.violation("%s:%s" % (fld, fn["path"]), where(ws[0]),
                            "the %s flag is written outside a closure-scoped combinator" % fld)
                continue
            lets = hirq.lets(fn["body"])
            pe = PathEnum(fn)
            seen = 0
            for (ev, out) in exits(pe.paths()):
                fi = hirq.index_of(ev, lambda e: is_fcall(e, fids))
                if fi < 0:
                    continue
                pre = [e for e in ev[:fi] if e.kind == "assign" and hirq.field_write_target(e.node)
                       and hirq.field_write_target(e.node)[1] == fld]
                post = [e for e in ev[fi + 1:] if e.kind == "assign" and hirq.field_write_target(e.node)
                        and hirq.field_write_target(e.node)[1] == fld]
                arm = next((e for e in ev[fi + 1:] if e.kind == "arm" and e.node.get("src") == "match"), None)
                armv = hirq.pat_variants(arm.node["arms"][arm.extra]["pat"]) if arm else []
                armname = "|".join(v.split("::")[-1] for v in armv) or "?"
                if not pre:
                    if post:
                        # a restore without a write is harmless only if it writes the saved value
                        pass
                    else:
                        continue
                seen += 1
                key = "%s:%s:%s" % (fld, fn["path"], armname)
                if not post:
                    r.violation(key, where(pre[0].node),
                                "%s is changed before the closure and not restored on the %s path: the mode "
                                "leaks into whatever is parsed next" % (fld, armname))
                    continue
                last = post[-1].node
                lid = hirq.local_id(last["r"])
                ok = False
                if lid is not None and lid in lets:
                    init = peel(lets[lid][0])
                    if kind(init) == "Field" and init["name"] == fld:
                        # the saving let must precede the first write
                        li = hirq.index_of(ev, lambda e: e.kind == "let" and e.node is lets[lid][1])
                        wi = ev.index(pre[0]) if pre else fi
                        ok = 0 <= li < wi
                if not ok:
                    r.violation(key, where(last),
                                "%s is restored from `%s`, which is not the value saved on entry"
                                % (fld, hirq.expr_text(last["r"])))
            r.instance("%s:%s" % (fld, fn["path"]), where(ws[0]), "%d exit paths write and restore" % seen)


# ------------------------------------------------------------------ REWIND

def rewind(rep, c, sfx):
    r = rep.rule("C03.REWIND" + sfx, 4,
                 "sequence (Err) and lookahead (both arms) reset position from the local saved before the "
                 "closure; sequence (Err) also truncates the queue to the saved length")
    for name, arms_needing, need_queue in (("sequence", {"Err"}, True), ("lookahead", {"Ok", "Err"}, False)):
        fn = c.fn("%s::%s" % (PS, name))
        if fn is None:
            r.lost("ParserState::%s" % name)
            continue
        fids = closure_param_ids(fn)
        lets = hirq.lets(fn["body"])
        pe = PathEnum(fn)
        found = set()
        for (ev, out) in exits(pe.paths()):
            fi = hirq.index_of(ev, lambda e: is_fcall(e, fids))
            if fi < 0:
                continue
            arm = next((e for e in ev[fi + 1:] if e.kind == "arm" and e.node.get("src") == "match"), None)
            armv = hirq.pat_variants(arm.node["arms"][arm.extra]["pat"]) if arm else []
            names = set(v.split("::")[-1] for v in armv)
            if not (names & arms_needing):
                continue
            armname = "|".join(sorted(names))
            found |= names
            after = ev[fi + 1:]
            # position
            pw = [e for e in after if e.kind == "assign" and hirq.field_write_target(e.node)
                  and hirq.field_write_target(e.node)[1] == "position"]
            key = "position:%s:%s" % (name, armname)
            okp = False
            if pw:
                lid = hirq.local_id(pw[-1].node["r"])
                if lid in lets:
                    init = peel(lets[lid][0])
                    li = hirq.index_of(ev, lambda e: e.kind == "let" and e.node is lets[lid][1])
                    okp = kind(init) == "Field" and init["name"] == "position" and 0 <= li < fi
            if not okp:
                r.violation(key, where(arm.node["arms"][arm.extra]["body"]) if arm else where(fn["body"]),
                            "on the %s path of %s the position is not reset from the value saved before the "
                            "closure ran: the combinator no longer leaves the cursor where it was" % (armname, name))
            if need_queue:
                tw = [e for e in after if e.kind == "call" and callee(e.node) == "alloc::vec::Vec::truncate"
                      and (hirq.place(e.node["recv"]) or (0, 0, []))[2][-1:] == ["queue"]]
                okq = False
                if tw:
                    lid = hirq.local_id(tw[-1].node["args"][0])
                    if lid in lets:
                        init = peel(lets[lid][0])
                        li = hirq.index_of(ev, lambda e: e.kind == "let" and e.node is lets[lid][1])
                        okq = (kind(init) == "MethodCall" and init.get("path") == "alloc::vec::Vec::len"
                               and (hirq.place(init["recv"]) or (0, 0, []))[2][-1:] == ["queue"] and 0 <= li < fi)
                if not okq:
                    r.violation("queue:%s:%s" % (name, armname), where(fn["body"]),
                                "a failed sequence does not truncate the token queue to its length on entry: "
                                "tokens of the failed attempt stay in the result")
        for a in sorted(arms_needing):
            if a in found:
                r.instance("position:%s:%s" % (name, a), where(fn["body"]))
            else:
                r.violation("position:%s:%s" % (name, a), where(fn["body"]), "no %s path found after the closure call" % a)
        if need_queue:
            r.instance("queue:%s:Err" % name, where(fn["body"]))


# ------------------------------------------------------------------ RULE

def canon_cond(n):
    """Condition text with the state variable abstracted."""
    n = peel(n)
    k = kind(n)
    if k == "Binary":
        return "(%s %s %s)" % (canon_cond(n["l"]), n["op"], canon_cond(n["r"]))
    if k == "Unary":
        return "%s%s" % (n["op"], canon_cond(n["e"]))
    if k == "Field":
        return "S.%s" % n["name"]
    if k == "Path":
        if n.get("res") == "def":
            return n["path"]
        return "S" if "ParserState" in n.get("ty", "") else "L:%s" % n["name"]
    if k == "MethodCall":
        return "%s(%s)" % (n.get("path"), ",".join(canon_cond(a) for a in [n["recv"]] + n["args"]))
    return "<%s>" % k


def struct_guards(ctx, node):
    """Canonical conjuncts (text, truth) of the `if`s enclosing node."""
    out = []
    for g in ctx.guards(node):
        if g[0] == "if":
            if g[2]:
                for cj in conjuncts(g[1]):
                    out.append((canon_cond(cj), True))
            else:
                out.append((canon_cond(g[1]), False))
    return tuple(out)


def guards_of(ev, idx):
    """Conditions (canonical text, truth) of the `if`s taken before event idx on this path, after the
    last match arm marker (i.e. the guards local to the arm)."""
    out = []
    for e in ev[:idx]:
        if e.kind == "cond":
            out.append((canon_cond(e.node), e.extra))
    return out


def rule_tokens(rep, c, sfx):
    r = rep.rule("C03.RULE" + sfx, 6,
                 "in ParserState::rule the Start push, End push and failure truncate are guarded by the same "
                 "predicate over (lookahead, atomicity); End links to the saved index; Start is patched with the "
                 "queue length read right before the End push")
    fn = c.fn(PS + "::rule")
    if fn is None:
        r.lost("ParserState::rule")
        return
    fids = closure_param_ids(fn)
    lets = hirq.lets(fn["body"])
    ctx = hirq.Ctx(fn)
    pe = PathEnum(fn)
    paths = exits(pe.paths())
    start_guard = set()
    end_guard = set()
    trunc_guard = set()
    sites = {"Start": 0, "End": 0, "truncate": 0}

    def emit_guard(ev, i, lo):
        # the innermost conjunction that guards event i: all conds between lo and i that are true and
        # belong to the `if` directly enclosing it -> we take conds evaluated after index lo
        g = tuple(t for t in guards_of(ev[lo:], i - lo))
        return g

    for (ev, out) in paths:
        fi = hirq.index_of(ev, lambda e: is_fcall(e, fids))
        if fi < 0:
            continue
        for i, e in enumerate(ev):
            if e.kind == "struct" and e.node.get("path", "").startswith(QT + "::"):
                v = e.node["path"].split("::")[-1]
                if v == "Start":
                    # guard: conds before it (after the `?` of the limit check)
                    start_guard.add(struct_guards(ctx, e.node))
                    sites["Start"] += 1
                    if i > fi:
                        r.violation("start-after-closure", where(e.node), "Start token pushed after the closure ran")
                elif v == "End":
                    end_guard.add(struct_guards(ctx, e.node))
                    sites["End"] += 1
                    # End.start_token_index == index
                    f = {x["name"]: x["e"] for x in e.node["fields"]}
                    sid = hirq.root_let(hirq.local_id(f.get("start_token_index", {})), lets)
                    ok = False
                    if sid in lets:
                        init = peel(lets[sid][0])
                        li = hirq.index_of(ev, lambda x: x.kind == "let" and x.node is lets[sid][1])
                        si = hirq.index_of(ev, lambda x: x.kind == "struct" and x.node.get("path") == QT + "::Start")
                        ok = (kind(init) == "MethodCall" and init.get("path") == "alloc::vec::Vec::len"
                              and (hirq.place(init["recv"]) or (0, 0, []))[2][-1:] == ["queue"]
                              and li >= 0 and (si < 0 or li < si))
                    if not ok:
                        r.violation("end-link", where(e.node), "End.start_token_index is not the queue length "
                                    "saved before the Start push: pairs link to the wrong token")
                    # patch of Start.end_token_index: an assign `*end_token_index = new_index`
                    patch = [x for x in ev[fi:i] if x.kind == "assign" and kind(peel(x.node["l"])) == "Path"
                             and peel(x.node["l"]).get("name") == "end_token_index"]
                    okp = False
                    if patch:
                        nid = hirq.root_let(hirq.local_id(patch[-1].node["r"]), lets)
                        if nid in lets:
                            init = peel(lets[nid][0])
                            li = hirq.index_of(ev, lambda x: x.kind == "let" and x.node is lets[nid][1])
                            between = [x for x in ev[li:i] if x.kind == "call" and callee(x.node) in (
                                "alloc::vec::Vec::push", "alloc::vec::Vec::truncate", "alloc::vec::Vec::pop")]
                            okp = (kind(init) == "MethodCall" and init.get("path") == "alloc::vec::Vec::len"
                                   and (hirq.place(init["recv"]) or (0, 0, []))[2][-1:] == ["queue"]
                                   and li > fi and not between)
                    if not okp:
                        r.violation("start-patch", where(e.node), "the Start token is not patched with the queue "
                                    "length read immediately before the End push")
            if e.kind == "call" and callee(e.node) == "alloc::vec::Vec::truncate" and i > fi \
                    and (hirq.place(e.node["recv"]) or (0, 0, []))[2][-1:] == ["queue"]:
                trunc_guard.add(struct_guards(ctx, e.node))
                sites["truncate"] += 1
                tid = hirq.root_let(hirq.local_id(e.node["args"][0]), lets)
                eid = None
                if tid not in lets or kind(peel(lets[tid][0])) != "MethodCall" or \
                        peel(lets[tid][0]).get("path") != "alloc::vec::Vec::len":
                    r.violation("truncate-index", where(e.node), "failure truncates the queue to something other "
                                "than the length saved on entry")
    for k in ("Start", "End", "truncate"):
        if sites[k]:
            r.instance("site:" + k, where(fn["body"]), "%d paths" % sites[k])
        else:
            r.violation("site:" + k, where(fn["body"]), "no %s site found in rule()" % k)

    def norm(gs):
        # keep only the all-true guard sets (the event executes iff those conjuncts hold)
        return set(tuple(t for (t, tr) in g) for g in gs if all(tr for (_, tr) in g))

    sg, eg, tg = norm(start_guard), norm(end_guard), norm(trunc_guard)
    r.instance("guard:Start", where(fn["body"]), str(sorted(sg)))
    r.instance("guard:End", where(fn["body"]), str(sorted(eg)))
    r.instance("guard:truncate", where(fn["body"]), str(sorted(tg)))
    if not (len(sg) == 1 and sg == eg == tg):
        r.violation("guard-mismatch", where(fn["body"]),
                    "Start/End/truncate are guarded by different predicates (%s / %s / %s): tokens become "
                    "unbalanced in look-ahead or atomic mode" % (sorted(sg), sorted(eg), sorted(tg)))
    else:
        g = next(iter(sg))
        want = {"(S.lookahead == pest::parser_state::Lookahead::None)",
                "(S.atomicity != pest::parser_state::Atomicity::Atomic)"}
        if set(g) != want:
            r.violation("guard-predicate", where(fn["body"]),
                        "token emission predicate is %s, documented contract is lookahead == None && "
                        "atomicity != Atomic" % (g,))


# ------------------------------------------------------------------ QUEUEW

def queue_writers(rep, c, sfx):
    r = rep.rule("C03.QUEUEW" + sfx, 5,
                 "who may write the token queue: besides rule() (Start/End/truncate, decided by RULE) and sequence() "
                 "(rollback, decided by REWIND), every write to ParserState.queue is guarded by lookahead == None, so "
                 "nothing run inside a look-ahead can touch tokens emitted before it began")
    covered = {PS + "::rule": "RULE", PS + "::sequence": "REWIND"}
    none_eq = "(S.lookahead == pest::parser_state::Lookahead::None)"
    none_ne = "(S.lookahead != pest::parser_state::Lookahead::None)"
    for fn in c.bodies:
        if fn.get("exp") or fn.get("test") or "::tests::" in fn["path"]:
            continue
        acc = hirq.mutating_field_accesses(fn["body"], "queue", "ParserState")
        if not acc:
            continue
        ctx = hirq.Ctx(fn)
        short = fn["path"].replace(PS + "::", "")
        for (x, how, parent) in acc:
            key = "%s:%s" % (short, how.split("::")[-1])
            if fn["path"] in covered:
                r.instance(key, where(x), "decided by " + covered[fn["path"]])
                continue
            ok = False
            for g in ctx.guards(x):
                if g[0] == "if" and g[2] and any(canon_cond(cj) == none_eq for cj in conjuncts(g[1])):
                    ok = True
                if g[0] == "if" and not g[2] and canon_cond(g[1]) == none_ne:
                    ok = True
                if g[0] == "not" and canon_cond(g[1]) == none_ne:
                    ok = True
            r.instance(key, where(x), "guarded by lookahead == None" if ok else "unguarded")
            if not ok:
                r.violation(key, where(x),
                            "%s writes the token queue (%s) without a lookahead == None guard: run inside &e / !e it "
                            "changes a token emitted before the look-ahead began (e.g. `a ~ &(#t = b)` retags the "
                            "pair of a)" % (short, how))


# ------------------------------------------------------------------ NOMOVE

def nomove(rep, c, sfx):
    r = rep.rule("C03.NOMOVE" + sfx, 6,
                 "Position primitives returning bool never assign `pos` on a path that returns false "
                 "(skip_until*, documented to move on failure, excluded)")
    for fn in c.bodies:
        if fn.get("impl_self") != POSITION or fn.get("output") != "bool":
            continue
        if not fn["inputs"] or not fn["inputs"][0].startswith("&mut "):
            continue
        if fn["name"].startswith("skip_until"):
            continue
        pe = PathEnum(fn)
        nfalse = 0
        for (ev, out) in exits(pe.paths()):
            v = hirq.path_value(ev)
            val = hirq.lit_value(v) if v is not None else None
            if val is not False:
                continue
            nfalse += 1
            ws = [e for e in ev if e.kind == "assign" and (hirq.place(e.node["l"]) or (0, 0, []))[2][-1:] == ["pos"]]
            if ws:
                r.violation("moved:%s" % fn["path"], where(ws[0].node),
                            "%s writes the cursor on a path that returns false" % fn["name"])
        r.instance(fn["path"], where(fn["body"]), "%d paths return false" % nfalse)
        if nfalse == 0:
            # value not literal: be conservative, require that no write happens before a non-literal return
            r.note("%s: no literal-false path" % fn["path"])


# ------------------------------------------------------------------ SCRATCH

def scratch(rep, c, sfx):
    r = rep.rule("C03.SCRATCH" + sfx, 2,
                 "multi-step matchers of ParserState (a Position matcher called inside a loop or an iterator "
                 "closure) work on a scratch copy of the position and commit it on success; only single-shot "
                 "primitives may call a matcher on the state's own position")
    movers = set(b["path"] for b in c.bodies if b.get("impl_self") == POSITION and b.get("output") == "bool"
                 and b["inputs"] and b["inputs"][0].startswith("&mut "))
    # a wrapper is a mover too: `fn match_stack_element(position: &mut Position, ..) -> bool { position.match_string(..) }`
    wrappers = set()
    for b in c.bodies:
        if b.get("output") == "bool" and b.get("body") is not None and not b.get("exp") and b["path"] not in movers \
                and b.get("inputs") and str(b["inputs"][0]).startswith("&mut pest::position::Position"):
            pid = b["params"][0].get("id") if b.get("params") and b["params"][0].get("k") == "PBind" else None
            leaves = [peel(v) for v in hirq.tail_leaves(b["body"])]
            if pid is not None and leaves and all(kind(v) == "MethodCall" and v.get("path") in movers
                                                  and hirq.local_id(v["recv"]) == pid for v in leaves):
                wrappers.add(b["path"])
    movers = movers | wrappers
    for fn in ps_fns(c):
        if closure_param_ids(fn) or fn.get("exp") or fn["path"] in wrappers:
            continue
        ctx = hirq.Ctx(fn)
        multi = False
        for n in walk(fn["body"]):
            if (kind(n) == "MethodCall" and n.get("path") in movers) or (kind(n) == "Call" and callee(n) in wrappers and n["args"]):
                inside = [p for (p, k, i) in ctx.ancestors(n) if kind(p) in ("Loop", "Closure")]
                if not inside:
                    continue
                multi = True
                recv = peel(n["recv"] if kind(n) == "MethodCall" else n["args"][0])
                on_state = kind(recv) == "Field" and recv["name"] == "position" and "ParserState" in recv.get("bty", "")
                mname = n["m"] if kind(n) == "MethodCall" else callee(n).split("::")[-1]
                key = "%s:%s" % (fn["path"].split("::")[-1], mname)
                r.instance(key, where(n), "receiver %s" % hirq.expr_text(recv))
                if on_state:
                    r.violation(key, where(n),
                                "%s calls %s on the state's own position inside a loop/iterator: when a later step "
                                "fails the earlier steps stay consumed, so the primitive moves on failure "
                                "(restore_on_err only restores the stack)" % (fn["name"], mname))
        if multi:
            # the scratch copy must be committed only on the success path
            commits = [n for n in walk(fn["body"]) if kind(n) == "Assign" and hirq.field_write_target(n)
                       and hirq.field_write_target(n)[1] == "position"]
            for a in commits:
                gs = ctx.guards(a)
                if any(g[0] == "if" and g[2] is True for g in gs):
                    continue
                # not under an `if`: decide path by path - on every path that reaches the commit, each matcher call has
                # been seen to succeed (its result, or the local it was stored in, tested with the success polarity)
                if not commit_only_after_success(fn, a, movers):
                    r.violation("%s:commit" % fn["path"].split("::")[-1], where(a), "the scratch position is "
                                "committed unconditionally")


def contradictory(ev):
    """The event sequence tests one bool local twice with opposite outcomes without assigning it in between (the path
    enumerator does not correlate conditions on `mut` locals)."""
    known = {}
    for e in ev:
        if e.kind == "assign":
            known.pop(hirq.local_id(e.node["l"]), None)
        elif e.kind == "let" and e.node.get("pat") is not None:
            for (bid, _nm) in hirq.pat_bindings(e.node["pat"]):
                known.pop(bid, None)
        elif e.kind == "cond":
            cnd, truth = peel(e.node), bool(e.extra)
            while kind(cnd) == "Unary" and cnd.get("op") == "!":
                cnd, truth = peel(cnd["e"]), not truth
            if kind(cnd) == "Path" and cnd.get("res") == "local" and cnd.get("ty") == "bool":
                if cnd["id"] in known and known[cnd["id"]] != truth:
                    return True
                known[cnd["id"]] = truth
    return False


def commit_only_after_success(fn, commit, movers):
    def polarity(cond_node, target_pred):
        """+1 if cond true means target succeeded, -1 if it means failure, 0 if the cond does not test it."""
        c0 = peel(cond_node)
        if target_pred(c0):
            return 1
        if kind(c0) == "Unary" and c0["op"] == "!" and target_pred(peel(c0["e"])):
            return -1
        return 0
    saw = False
    for (ev, out) in exits(PathEnum(fn).paths()):
        ci = hirq.index_of(ev, lambda e: e.kind == "assign" and e.node is commit)
        if ci < 0:
            continue
        if contradictory(ev[:ci]):
            continue        # a bool local tested twice with opposite answers and no assignment in between: not a path
        saw = True
        for i, e in enumerate(ev[:ci]):
            if not (e.kind == "call" and ((kind(e.node) == "MethodCall" and e.node.get("path") in movers)
                                          or (kind(e.node) == "Call" and callee(e.node) in movers))):
                continue
            call = e.node
            ok = False
            # the local the result is stored in, if any
            stored = None
            for e2 in ev[i:ci]:
                if e2.kind == "assign" and peel(e2.node["r"]) is call:
                    stored = hirq.local_id(e2.node["l"])
                if e2.kind == "let" and e2.node.get("init") is not None and peel(e2.node["init"]) is call \
                        and e2.node["pat"].get("k") == "PBind":
                    stored = e2.node["pat"]["id"]
            for e2 in ev[i:ci]:
                if e2.kind != "cond":
                    continue
                pol = polarity(e2.node, lambda x: x is call or (stored is not None and kind(x) == "Path"
                                                               and x.get("res") == "local" and x["id"] == stored))
                if pol and ((pol > 0) == bool(e2.extra)):
                    ok = True
                elif pol:
                    ok = False
                    break
            if not ok:
                return False
    return saw


# ------------------------------------------------------------------ SKIPARMS

def skip_family(c):
    """skip_until and the functions of pest::position it reaches through helpers (depth <= 3), with their call sites."""
    su = c.fn(POSITION + "::skip_until")
    if su is None:
        return None, {}, {}

    def in_module(f):
        return f is not None and f.get("body") is not None and (
            f.get("impl_self") == POSITION or f["path"].startswith("pest::position::")) and "::tests::" not in f["path"]
    reach, frontier = {su["path"]: su}, [su]
    callers = {}
    for _ in range(3):
        nxt = []
        for f in frontier:
            for (cal, n) in hirq.call_sites(f["body"]):
                g = c.fn(cal) if isinstance(cal, str) else None
                if in_module(g):
                    callers.setdefault(g["path"], []).append((f, n))
                    if g["path"] not in reach:
                        reach[g["path"]] = g
                        nxt.append(g)
        frontier = nxt
    return su, reach, callers


def scans_range(f):
    return [x for x in walk(f["body"]) if kind(x) == "Struct" and x.get("path", "").endswith("ops::range::Range")
            and any(y["name"] == "end" and kind(peel(y["e"])) == "MethodCall" and peel(y["e"])["m"] == "len" for y in x["fields"])]


def skiparms(rep, c, sfx):
    r = rep.rule("C03.SKIPARMS" + sfx, 3,
                 "each memchr arm [s1..sk] of Position::skip_until guards !si.is_empty() for every si, passes "
                 "si.as_bytes()[0] for every si exactly once and tests starts_with(si) for every si; any other "
                 "shape goes to the basic search")
    su, reach, _callers = skip_family(c)
    if su is None:
        r.lost("Position::skip_until")
        return
    hosts = [(f, n) for f in reach.values() for n in walk(f["body"]) if kind(n) == "Match" and n.get("src") == "match"
             and any(kind(a["pat"]) == "PSlice" for a in n["arms"])]
    if len(hosts) != 1:
        r.lost("slice-pattern match in skip_until (memchr configuration)")
        return
    fn, m = hosts[0]
    lets = hirq.lets(fn["body"])
    for arm in m["arms"]:
        pat = arm["pat"]
        if kind(pat) != "PSlice":
            # catch-all: must defer to a function that does not use memchr
            calls = [callee(n) for n in walk(arm["body"]) if kind(n) in ("Call", "MethodCall")]
            # a search function of the position module (method of Position or free function next to it) with a loop
            basic = [x for x in calls if isinstance(x, str) and (x.startswith(POSITION + "::") or x.startswith("pest::position::"))
                     and c.fn(x) is not None and (any(kind(y) == "Loop" for y in walk(c.fn(x)["body"]))
                                                  or scans_range(c.fn(x)))]
            r.instance("arm:_", where(arm["body"]), "defers to %s" % basic)
            if not basic:
                r.violation("arm:_", where(arm["body"]), "the fallback arm does not use the basic search")
            else:
                bf = c.fn(basic[0])
                if bf is None or any(isinstance(callee(n), str) and callee(n).startswith("memchr::")
                                     for n in walk(bf["body"])):
                    r.violation("arm:_", where(arm["body"]), "fallback is not a memchr-free search")
            continue
        binds = [p["id"] for p in pat["before"] if kind(p) == "PBind"]
        names = {p["id"]: p["name"] for p in pat["before"] if kind(p) == "PBind"}
        k = len(binds)
        key = "arm:%d" % k
        mem = [n for n in walk(arm["body"]) if kind(n) == "Call" and isinstance(callee(n), str)
               and callee(n).startswith("memchr::")]
        r.instance(key, where(arm["body"]), "memchr calls: %s" % [callee(x) for x in mem])
        if pat.get("mid") is not None or pat.get("after"):
            r.violation(key, where(arm["pat"]), "unexpected slice pattern shape")
            continue
        firstbyte = [x for x in mem if "_iter" in callee(x) or callee(x).split("::")[-1] in ("memchr", "memchr2", "memchr3")]
        if not firstbyte:
            # substring search (memmem) or no search: correct for any needle incl. empty
            continue
        # (i) guard
        guarded = set()
        if arm.get("guard") is not None:
            for cj in conjuncts(arm["guard"]):
                if kind(cj) == "Unary" and cj["op"] == "!":
                    inner = peel(cj["e"])
                    if kind(inner) == "MethodCall" and inner["m"] == "is_empty":
                        lid = hirq.local_id(inner["recv"])
                        if lid is not None:
                            guarded.add(lid)
        for b in binds:
            if b not in guarded:
                r.violation("%s:guard:%s" % (key, names[b]), where(arm["pat"]),
                            "the %d-string memchr arm does not require `!%s.is_empty()`: an empty needle matches "
                            "at the cursor in the basic search, which a first-byte search cannot reproduce "
                            "(skip_until(&[..,\"\"]) stops at a different position with and without memchr)"
                            % (k, names[b]))
        # (ii) bytes
        call = firstbyte[0]
        srcs = []
        for a in call["args"][:k]:
            e = peel(a)
            lid = hirq.local_id(e)
            if lid is not None and lid in lets:
                e = peel(lets[lid][0])
            src = None
            if kind(e) == "Index" and hirq.lit_value(e["idx"]) == 0:
                base = peel(e["base"])
                if kind(base) == "MethodCall" and base["m"] == "as_bytes":
                    src = hirq.local_id(base["recv"])
            srcs.append(src)
        if sorted(x for x in srcs if x is not None) != sorted(binds):
            r.violation("%s:bytes" % key, where(call),
                        "memchr%d is given the first bytes of %s, needs exactly one of each of %s: occurrences of "
                        "the missing needle are never candidates" % (
                            k, [names.get(x, "?") for x in srcs], [names[b] for b in binds]))
        # (iii) starts_with
        sw = set()
        for n in walk(arm["body"]):
            if kind(n) == "MethodCall" and n["m"] == "starts_with" and n["args"]:
                lid = hirq.local_id(n["args"][0])
                if lid is None:
                    roots = [hirq.local_id(y) for y in walk(n["args"][0]) if kind(y) == "Path" and y.get("res") == "local"]
                    lid = roots[0] if len(roots) == 1 else None
                if lid is not None and lid not in binds:
                    # `[s1, s2, s3].iter().any(|s| start.starts_with(s))`: the needle is the closure parameter of a
                    # search over an array of needles
                    actx = hirq.Ctx(fn)
                    for (p_, k_, i_) in actx.ancestors(n):
                        if kind(p_) == "Closure" and any(b_[0] == lid for q_ in p_.get("params", []) for b_ in hirq.pat_bindings(q_)):
                            par = actx.parent.get(id(p_))
                            if par and kind(par[0]) == "MethodCall" and par[0]["m"] in ("any", "find", "position"):
                                for y in walk(par[0]["recv"]):
                                    if kind(y) == "Array":
                                        for el in y["elems"]:
                                            el_id = hirq.local_id(el)
                                            if el_id is not None:
                                                sw.add(el_id)
                            break
                elif lid is not None:
                    sw.add(lid)
        if sw != set(binds):
            r.violation("%s:starts_with" % key, where(arm["body"]),
                        "candidate check tests %s, needs every needle %s" % (
                            sorted(names.get(x, "?") for x in sw), [names[b] for b in binds]))


def skipbasic(rep, c, sfx):
    r = rep.rule("C03.SKIPBASIC" + sfx, 1,
                 "the memchr-free search of skip_until scans every offset from the cursor to the end: its scanning loop "
                 "has no `break`, leaves only by `return true` on a match, and ranges from self.pos to input.len()")
    su = c.fn(POSITION + "::skip_until")
    if su is None:
        r.lost("Position::skip_until")
        return
    # the basic search: the function of pest::position reachable from skip_until (through helpers) that contains no
    # memchr call and scans a range - with a for loop or with an iterator chain over the range
    def in_module(f):
        return f is not None and f.get("body") is not None and (
            f.get("impl_self") == POSITION or f["path"].startswith("pest::position::")) and "::tests::" not in f["path"]

    def has_memchr(f):
        return any(isinstance(callee(x), str) and callee(x).startswith("memchr::") for x in walk(f["body"]))

    def ranges_of(f):
        return [x for x in walk(f["body"]) if kind(x) == "Struct" and x.get("path", "").endswith("ops::range::Range")
                and any(y["name"] == "end" and kind(peel(y["e"])) == "MethodCall" and peel(y["e"])["m"] == "len" for y in x["fields"])]
    reach, frontier = {su["path"]: su}, [su]
    callers = {}
    for _ in range(3):
        nxt = []
        for f in frontier:
            for (cal, n) in hirq.call_sites(f["body"]):
                g = c.fn(cal) if isinstance(cal, str) else None
                if in_module(g):
                    callers.setdefault(g["path"], []).append((f, n))
                    if g["path"] not in reach:
                        reach[g["path"]] = g
                        nxt.append(g)
        frontier = nxt
    cands = [f for f in reach.values() if f is not su and not has_memchr(f) and ranges_of(f)]
    if not cands and not has_memchr(su) and ranges_of(su):
        cands = [su]
    if not cands:
        r.lost("memchr-free search over a range reachable from skip_until")
        return
    fn = cands[0]

    def is_cursor(f, e, depth=0):
        """is e the cursor: self.pos, or a parameter that receives the cursor at every call site"""
        e = peel(e)
        if kind(e) == "Field" and e["name"] == "pos" and "Position" in e.get("bty", ""):
            return True
        if kind(e) == "Path" and e.get("res") == "local" and depth < 3:
            pidx = [i for i, p in enumerate(f["params"]) if p.get("k") == "PBind" and p["id"] == e["id"]]
            sites = callers.get(f["path"], [])
            if pidx and sites:
                return all(pidx[0] < len(hirq.call_args(n)) and is_cursor(g, hirq.call_args(n)[pidx[0]], depth + 1)
                           for (g, n) in sites)
        return False
    rng = ranges_of(fn)
    ok = False
    for x in rng:
        f_ = {y["name"]: y["e"] for y in x["fields"]}
        if is_cursor(fn, f_.get("start", {})):
            ok = True
    outer = [x for x in walk(fn["body"]) if kind(x) == "Loop" and x.get("src") == "ForLoop"]
    if outer:
        lp = outer[0]
        r.instance(fn["path"].split("::")[-1], where(lp), "for loop")
        for x in walk(lp["body"]):
            if kind(x) == "Break" and x.get("target") == lp.get("id") and not hirq.is_desugar(x):
                r.violation("break", where(x), "the scanning loop of %s stops at this `break` before the end of the input: "
                            "needles that start later are never found (e.g. after a non-ASCII character when the offset "
                            "is inside it)" % fn["name"])
        site = lp
    else:
        # iterator form: `(pos..len).filter_map(..).find(..)` - every adaptor between the range and the consumer must
        # pass every offset on
        site = rng[0]
        r.instance(fn["path"].split("::")[-1], where(site), "iterator chain")
        ctx = hirq.Ctx(fn)
        cur = site
        chain = []
        while True:
            par = ctx.parent.get(id(cur))
            if par is None:
                break
            pn, pk, pi = par
            if kind(pn) == "MethodCall" and pk == "recv":
                chain.append(pn["m"])
                cur = pn
                continue
            if kind(pn) in ("Paren", "DropTemps", "Use") or pn.get("k") in (None,):
                cur = pn
                continue
            break
        PASS = ("filter_map", "filter", "map", "flat_map", "inspect", "into_iter", "by_ref", "peekable", "fuse", "copied",
                "cloned", "find", "find_map", "position", "any", "all")
        cut = [m for m in chain if m not in PASS]
        if not any(m in ("find", "find_map", "position", "any") for m in chain):
            r.violation("consumer", where(site), "the range of offsets is not consumed by a search (find / find_map / "
                        "position / any): %s" % chain)
        if cut:
            r.violation("break", where(site), "the scan over the offsets passes through `%s`, which can drop offsets "
                        "before the end of the input: needles that start there are never found" % ",".join(cut))
    if not ok:
        r.violation("range", where(site), "the scan does not range over self.pos..self.input.len()")


def skipend(rep, c, sfx):
    r = rep.rule("C03.SKIPEND" + sfx, 1,
                 "skip_until's documented failure outcome is uniform: on every path on which it (or its basic search) "
                 "returns false, the cursor has been moved to the end of the input - whichever search arm was taken")
    n = 0
    for b in c.bodies:
        if b.get("impl_self") != POSITION and not b["path"].startswith("pest::position::"):
            continue
        if not b["name"].startswith("skip_until") or b.get("body") is None or b.get("output") != "bool":
            continue
        n += 1
        key = b["name"]
        nf = 0
        bad = None
        for (ev, out) in exits(PathEnum(b).paths()):
            v = hirq.path_value(ev)
            if v is None or hirq.lit_value(peel(v)) is not False:
                continue
            nf += 1
            moved = False
            for e in ev:
                if e.kind == "assign" and kind(peel(e.node["l"])) == "Field" and peel(e.node["l"])["name"] == "pos":
                    rr = peel(e.node["r"])
                    if kind(rr) == "MethodCall" and rr["m"] == "len":
                        moved = True
            if not moved:
                bad = ev
        r.instance(key, where(b["body"]), "%d paths return false" % nf)
        if bad is not None:
            arms = [str(e.extra) for e in bad if e.kind == "arm"]
            r.violation(key, where(b["body"]), "a path of %s returns false without moving the cursor to the end of the input "
                        "(match arm %s): that search arm disagrees with its siblings and with the basic search about where "
                        "a failed skip leaves the position" % (key, ",".join(arms) or "-"))
    if n == 0:
        r.lost("Position::skip_until")


def skip_basic_only(rep, c, sfx):
    r = rep.rule("C03.SKIPARMS" + sfx, 1, "without memchr skip_until is the basic search")
    fn = c.fn(POSITION + "::skip_until")
    if fn is None:
        r.lost("Position::skip_until")
        return
    calls = [callee(n) for n in walk(fn["body"]) if kind(n) in ("Call", "MethodCall")]
    r.instance("nomemchr", where(fn["body"]), str(calls))
    if any(isinstance(x, str) and x.startswith("memchr::") for x in calls):
        r.violation("nomemchr", where(fn["body"]), "memchr used without the feature")


def expand_pred(n):
    """A call of a crate-local boolean predicate on the parser state whose body is a single expression
    (`fn emits_tokens(&self) -> bool { self.lookahead == None && self.atomicity != Atomic }`), or the block such a call
    was inlined into, stands for that expression (canon_cond abstracts the state variable anyway)."""
    n = peel(n)
    for _ in range(3):
        if kind(n) == "Block" and n.get("inlined") and all(st.get("inl_param") for st in n.get("stmts", [])) \
                and n.get("expr") is not None:
            n = peel(n["expr"])
            continue
        if kind(n) in ("MethodCall", "Call") and CRATE is not None and isinstance(callee(n), str) \
                and callee(n).startswith("pest::") and n.get("ty") == "bool":
            f = CRATE.fn(callee(n))
            args = hirq.call_args(n)
            if f is not None and f.get("body") is not None and f.get("output") == "bool" and len(args) == 1 \
                    and "ParserState" in str(peel(args[0]).get("ty", "")) and not f["body"].get("stmts") \
                    and f["body"].get("expr") is not None and kind(peel(f["body"]["expr"])) in ("Binary", "Unary"):
                n = peel(f["body"]["expr"])
                continue
        break
    return n


def conjuncts(n):
    n = expand_pred(n)
    if kind(n) == "Binary" and n["op"] == "&&":
        return conjuncts(n["l"]) + conjuncts(n["r"])
    return [n]


# ------------------------------------------------------------------ BOUNDARY

def boundary(rep, c, sfx):
    r = rep.rule("C03.BOUNDARY" + sfx, 14,
                 "Position/Span fields are private, unchecked constructors are crate-private, and every "
                 "unchecked construction takes its offsets from an existing position, span, token or attempt_pos")
    for path in (POSITION, SPAN):
        adt = c.adt(path)
        if adt is None:
            r.lost(path)
            continue
        for f in adt["variants"][0]["fields"]:
            r.instance("field:%s.%s" % (path.split("::")[-1], f["name"]), where(adt), f["vis"])
            if f["vis"] in ("pub", "crate"):
                r.violation("field:%s.%s" % (path.split("::")[-1], f["name"]), where(adt),
                            "field is %s: code outside the module can build a position off a UTF-8 boundary" % f["vis"])
    unchecked = []
    for b in c.bodies:
        if b.get("impl_self") in (POSITION, SPAN) and b["dk"] == "AssocFn":
            # constructors: return Self (not Option) and build the struct literally from parameters
            if b["output"].startswith(("pest::position::Position<", "pest::span::Span<")) and \
                    any(kind(n) == "Struct" for n in walk(b["body"])) and \
                    any("usize" == i for i in b["inputs"]):
                unchecked.append(b)
    for b in unchecked:
        r.instance("ctor:" + b["path"], where(b["body"]), b["vis"])
        if b.get("exported") and b["vis"] == "pub":
            r.violation("ctor:" + b["path"], where(b["body"]), "unchecked constructor is public API")
    if len(unchecked) < 2:
        r.lost("unchecked constructors of Position and Span")
    cg = hirq.CallGraph([c])
    global CRATE
    CRATE = c
    TOKEN_POS_GETTERS.clear()
    TOKEN_POS_GETTERS.update(find_token_pos_getters(c))
    r.note("token-position getters (by role): %s" % sorted(TOKEN_POS_GETTERS))
    allowed_fields = {"pos", "start", "end", "attempt_pos", "input_pos"}
    for b in unchecked:
        for (p, n) in cg.callers_of(b["path"]):
            if kind(n) != "Call":
                r.violation("use:%s<-%s" % (b["name"], p), where(n), "unchecked constructor used as a value")
                continue
            fn = c.fn(p)
            lets = hirq.lets(fn["body"])
            for ai, a in enumerate(n["args"]):
                if a.get("ty") != "usize":
                    continue
                src = offset_source(a, lets, fn)
                key = "arg:%s<-%s#%d" % (b["path"].split("::")[-2], p, ai)
                r.instance(key, where(n), src or hirq.expr_text(a))
                if src is None:
                    r.violation(key, where(n), "offset `%s` passed to %s does not come from an existing "
                                "position/span/token: it may not be a UTF-8 boundary" % (hirq.expr_text(a), b["path"]))


def advance(rep, c, sfx):
    r = rep.rule("C03.ADVANCE" + sfx, 8,
                 "the cursor of a Position never moves by a constant number of bytes: every write to `pos` adds or assigns a "
                 "computed width (len_utf8 of the matched character, the length of the matched string, an offset found by a "
                 "search) - a literal step is a byte step and lands inside a multi-byte character unless an ASCII test "
                 "dominates it")
    n = 0
    for b in c.bodies:
        if b.get("impl_self") != POSITION or b.get("body") is None or b.get("exp"):
            continue
        ctx = hirq.Ctx(b)
        for x in walk(b["body"]):
            if kind(x) not in ("Assign", "AssignOp"):
                continue
            tgt = peel(x["l"])
            if not (kind(tgt) == "Field" and tgt["name"] == "pos" and "Position" in tgt.get("bty", "")):
                continue
            n += 1
            key = "%s:%s" % (b["name"], kind(x))
            r.instance(key, where(x), hirq.expr_text(x["r"])[:40])
            rhs = peel(x["r"])
            lit = None
            if kind(rhs) == "Lit" and isinstance(hirq.lit_value(rhs), int) and kind(x) == "AssignOp":
                lit = hirq.lit_value(rhs)
            if kind(rhs) == "Binary" and rhs["op"] in ("+", "-") and kind(x) == "Assign":
                for side in (rhs["l"], rhs["r"]):
                    if kind(peel(side)) == "Lit" and isinstance(hirq.lit_value(peel(side)), int) and hirq.lit_value(peel(side)) != 0:
                        lit = hirq.lit_value(peel(side))
            if lit is None or lit == 0:
                continue
            ascii_ok = False

            def from_input(e, depth=0):
                """is e a character / byte read from the input text (not a parameter such as the range to match)?"""
                e = peel(e)
                if depth > 4 or e is None:
                    return False
                if any(kind(y) == "Field" and y["name"] == "input" and "Position" in y.get("bty", "") for y in walk(e)):
                    return True
                lid = hirq.local_id(e)
                if lid is None:
                    pl = hirq.place(e)
                    lid = pl[1] if pl else None
                if lid is None:
                    return any(from_input(y, depth + 1) for y in walk(e) if y is not e and kind(y) == "Path" and y.get("res") == "local")
                src = hirq.binding_source(b, lid)
                return src is not None and from_input(src, depth + 1)
            for g in ctx.guards(x):
                if g[0] in ("if", "guard") and (g[0] == "guard" or g[2] is True):
                    for y in walk(g[1]):
                        if kind(y) == "MethodCall" and "is_ascii" in str(y.get("m", "")) and from_input(y["recv"]):
                            ascii_ok = True
                        if kind(y) == "Call" and "is_ascii" in str(callee(y) or "") and y["args"] and from_input(y["args"][0]):
                            ascii_ok = True
                    cnd = peel(g[1])
                    if kind(cnd) == "Binary" and cnd["op"] in ("<", "<=") and hirq.lit_value(peel(cnd["r"])) in (0x7F, 0x80, 127, 128) \
                            and from_input(cnd["l"]):
                        ascii_ok = True
            if not ascii_ok:
                r.violation(key, where(x), "Position::%s moves the cursor by the constant %s: on a multi-byte character this "
                            "stops inside it (token positions off UTF-8 boundaries; as_str / spans panic)" % (b["name"], lit))
        # a cursor assembled in a local first (`let mut p = self.pos; .. p += w; .. self.pos = p`): the same question for
        # every literal step added to that local; a width read off the lead byte must follow the UTF-8 table exactly
        lets = hirq.lets(b["body"])
        modes = hirq.binding_modes(b)
        feeders = set()
        for x in walk(b["body"]):
            if kind(x) in ("Assign", "AssignOp"):
                tgt = peel(x["l"])
                if kind(tgt) == "Field" and tgt["name"] == "pos" and "Position" in tgt.get("bty", ""):
                    for y in walk(x["r"]):
                        if kind(y) == "Path" and y.get("res") == "local" and modes.get(y["id"]) and y.get("ty") == "usize":
                            feeders.add(y["id"])
        for x in walk(b["body"]):
            if kind(x) != "AssignOp" or x.get("op") not in ("+=", "+", "-=", "-") or hirq.local_id(x["l"]) not in feeders:
                continue
            step = hirq.lit_value(peel(x["r"]))
            if not isinstance(step, int) or step == 0:
                continue
            n += 1
            key = "%s:local-step-%d" % (b["name"], step)
            r.instance(key, where(x), "literal step on the local cursor")
            why = utf8_width_guard(ctx, x, step)
            if why:
                r.violation(key, where(x), "Position::%s advances its cursor by the constant %d %s: positions then fall "
                            "inside or past a character (e.g. DEL U+007F taken as a 2-byte lead)" % (b["name"], step, why))
    if n == 0:
        r.lost("writes to Position.pos")


def strlen_rule(rep, c, sfx):
    """A step of `s.len()` bytes for a string parameter s is a whole number of characters of the INPUT only if the
    input was shown to hold, at the cursor, a slice of exactly that byte length ending on a character boundary."""
    r = rep.rule("C03.STRLEN" + sfx, 1,
                 "a Position method that moves the cursor by the byte length of a string argument does so only under a "
                 "test that the input holds a slice of exactly that length at the cursor (starts_with / strip_prefix / "
                 "`get(range of that length)` / is_char_boundary): matching char by char and then stepping by the "
                 "argument's length lands inside a character whenever the matched characters have other widths")
    n = 0
    for b in c.bodies:
        if b.get("impl_self") != POSITION or b.get("body") is None or b.get("exp"):
            continue
        strs = {}
        for p in b["params"]:
            for q in walk(p):
                if q.get("k") == "PBind" and str(q.get("ty", "")).replace("&", "").strip() in ("str", "'i str") or \
                        (q.get("k") == "PBind" and str(q.get("ty", "")).endswith("str")):
                    strs[q["id"]] = q["name"]
        if not strs:
            continue
        ctx = hirq.Ctx(b)
        lets = hirq.lets(b["body"])

        def expand(e, depth=0, seen=None):
            """nodes of e, following immutable locals into their initialisers"""
            seen = seen if seen is not None else set()
            for y in walk(e):
                yield y
                if kind(y) == "Path" and y.get("res") == "local" and y["id"] in lets and y["id"] not in seen and depth < 4:
                    seen.add(y["id"])
                    init = lets[y["id"]][0]
                    if init is not None:
                        for z in expand(init, depth + 1, seen):
                            yield z

        def len_of(e):
            """ids of string parameters whose .len() occurs in e (through locals)"""
            out = set()
            for y in expand(e):
                if kind(y) == "MethodCall" and y["m"] == "len":
                    rid = hirq.local_id(peel(y["recv"]))
                    if rid in strs:
                        out.add(rid)
            return out

        for x in walk(b["body"]):
            if kind(x) not in ("Assign", "AssignOp"):
                continue
            tgt = peel(x["l"])
            if not (kind(tgt) == "Field" and tgt["name"] == "pos" and "Position" in tgt.get("bty", "")):
                continue
            ss = len_of(x["r"])
            for sid in sorted(ss):
                n += 1
                key = "%s:%s.len()" % (b["name"], strs[sid])
                r.instance(key, where(x))
                witness = None
                for g in ctx.guards(x):
                    if g[0] in ("if", "guard", "not"):
                        # polarity: the write must sit where the tested expression is TRUE
                        cond = peel(g[1])
                        truth = True if g[0] == "guard" else (False if g[0] == "not" else g[2])
                        hops = 0
                        while hops < 6:
                            if kind(cond) == "Unary" and cond["op"] == "!":
                                cond = peel(cond["e"])
                                truth = not truth
                            elif kind(cond) == "Path" and cond.get("res") == "local" and cond["id"] in lets \
                                    and lets[cond["id"]][0] is not None and kind(peel(lets[cond["id"]][0])) == "Unary":
                                cond = peel(lets[cond["id"]][0])
                            else:
                                break
                            hops += 1
                        if kind(cond) == "Binary" and cond["op"] == "!=":
                            truth = not truth     # `a != b` false  ==  `a == b` true
                        if not truth:
                            continue
                    elif g[0] == "arm":
                        cond = g[1]["scrut"]
                    elif g[0] == "let" and g[1].get("els") is not None and g[1].get("init") is not None:
                        cond = g[1]["init"]      # `let Some(x) = <test> else { return .. }`
                    else:
                        continue
                    for y in expand(cond):
                        if kind(y) != "MethodCall" and kind(y) != "Index":
                            continue
                        if kind(y) == "MethodCall" and y["m"] in ("starts_with", "strip_prefix") and \
                                any(hirq.local_id(z) == sid for a in y["args"] for z in walk(a)):
                            witness = y["m"]
                        elif kind(y) == "MethodCall" and y["m"] == "is_char_boundary":
                            witness = y["m"]
                        elif kind(y) == "MethodCall" and y["m"] in ("get", "get_mut") and any(sid in len_of(a) for a in y["args"]):
                            witness = "get(range of %s.len())" % strs[sid]
                        elif kind(y) == "Index" and sid in len_of(y["idx"]) and "[u8]" in str(peel(y["base"]).get("ty", "")):
                            # slicing BYTES by the length is a test once it is compared; slicing a str by it panics
                            # off a character boundary instead of failing
                            witness = "[range of %s.len()]" % strs[sid]
                if witness is None:
                    r.violation(key, where(x),
                                "Position::%s moves the cursor by %s.len() bytes, but no dominating test shows that the "
                                "input holds a slice of that byte length at the cursor: if the matched characters differ "
                                "in width from the argument's (case folding of non-ASCII letters), the new position is "
                                "inside a character" % (b["name"], strs[sid]))
    if n == 0:
        r.lost("cursor steps by the length of a string argument (match_string / match_insensitive)")


def popalways(rep, c, sfx):
    r = rep.rule("C03.POPALWAYS" + sfx, 1,
                 "ParserState::stack_pop removes the top of the stack whether or not the popped string then matches (its "
                 "documented contract; putting it back after a failure is the business of sequence / look-ahead / "
                 "restore_on_err): every path that finds an element calls Stack::pop, also the failing ones")
    fn = c.fn(PS + "::stack_pop")
    if fn is None:
        r.lost("ParserState::stack_pop")
        return

    def is_pop(e):
        return e.kind == "call" and kind(e.node) == "MethodCall" and e.node["m"] == "pop" and \
            (hirq.place(e.node["recv"]) or ("", 0, [""]))[2][-1:] == ["stack"]
    n = 0
    bad = None
    for (ev, out) in exits(PathEnum(fn).paths()):
        # the path on which the stack is known to be empty has nothing to pop
        empty = any(e.kind == "cond" and e.extra is True and any(
            kind(y) == "MethodCall" and y["m"] == "is_empty" for y in walk(e.node)) for e in ev)
        if empty:
            continue
        n += 1
        if not any(is_pop(e) for e in ev):
            bad = ev
    r.instance("stack_pop", where(fn["body"]), "%d paths" % n)
    if bad is not None:
        r.violation("stack_pop:keeps", where(fn["body"]),
                    "a path of stack_pop returns without popping (the element is only peeked, or popped on success only): a "
                    "failed bare POP absorbed by optional / repeat / choice leaves the stack one element deeper than "
                    "documented, and later POP / PEEK / DROP see different content")
    if n == 0:
        r.lost("paths of stack_pop")


def sliceguard(rep, c, sfx):
    r = rep.rule("C03.SLICEGUARD" + sfx, 1,
                 "a slice of the stack taken with a range whose bounds were only checked one by one (`PEEK[a..b]` with "
                 "negative indices resolved against the current depth) is taken under a test that orders the two bounds: "
                 "`stack[range]` with end < start panics, while the documented meaning of a reversed slice is the empty one")
    n = 0
    for b in c.bodies:
        if b.get("impl_self") != PS or b.get("body") is None or b.get("exp"):
            continue
        ctx = hirq.Ctx(b)
        for x in walk(b["body"]):
            if kind(x) != "Index":
                continue
            base = peel(x["base"])
            if not (kind(base) == "Field" and base["name"] == "stack"):
                continue
            idx = peel(x["idx"])
            if not (kind(idx) == "Path" and idx.get("res") == "local" and "Range<" in str(idx.get("ty", ""))):
                continue
            n += 1
            key = "%s:stack[%s]" % (b["name"], idx["name"])
            r.instance(key, where(x))
            ordered = False
            for g in ctx.guards(x):
                conds = []
                if g[0] in ("if", "not", "guard"):
                    conds.append((g[1], idx["id"]))
                elif g[0] == "arm":
                    # `Some(range) if range.end <= range.start => .., Some(range) => stack[range]`: the earlier arm's
                    # guard tests the same value under its own binding
                    for a in g[1]["arms"][:g[2]]:
                        if a.get("guard") is not None:
                            for (bid, nm) in hirq.pat_bindings(a["pat"]):
                                conds.append((a["guard"], bid))
                for (cnd, rid) in conds:
                    for y in walk(cnd):
                        ot = order_test(y)
                        if ot is not None and ot[0] == rid:
                            ordered = True
            if not ordered:
                r.violation(key, where(x),
                            "ParserState::%s indexes the stack with `%s` without having compared its end with its start: a "
                            "reversed range (PEEK[-1..1] on a stack of three) panics instead of matching the empty slice"
                            % (b["name"], idx["name"]))
                continue
            # the outcome where the test finds the range reversed: the documented meaning is the empty slice, which
            # matches - every path on which an ordering test has established end < start (or end <= start) answers Ok
            try:
                paths = hirq.exits(hirq.PathEnum(b).paths())
            except hirq.TooManyPaths:
                r.note("%s: too many paths for the reversed-range outcome clause" % b["name"])
                continue
            r.instance(key + ":reversed-matches", where(x), "%d paths" % len(paths))
            for (ev, o) in paths:
                rev = None
                for e in ev:
                    if e.kind == "cond":
                        ot = order_test(peel(e.node))
                        if ot is not None and ot[1][bool(e.extra)] in ("rev", "rev-or-eq"):
                            rev = e.node
                if rev is None:
                    continue
                v = hirq.path_value(ev)
                v = peel(v) if v is not None else None
                if v is not None and kind(v) == "Call" and str(callee(v)).endswith("Result::Err"):
                    r.violation(key + ":reversed-matches", where(rev),
                                "ParserState::%s answers Err on the path where `%s` has found the range reversed: "
                                "PEEK[a..b] whose end lies before its start is documented to match the empty string, and a "
                                "rule using it (PEEK[1..-1] at depth 1) is now rejected" % (b["name"], hirq.expr_text(peel(rev))))
                    break
    if n == 0:
        r.note("no range-indexed slice of the stack")
        r.floor = 0


def order_test(y):
    """y compares the two ends of one range-typed local: (local id, {True: implied, False: implied}) with implied in
    'rev' (end < start), 'rev-or-eq', 'fwd', 'fwd-or-eq'; None otherwise.  `range.is_empty()` is `!(start < end)`."""
    y = peel(y)
    if kind(y) == "Unary" and y.get("op") == "!":
        ot = order_test(y["e"])
        return None if ot is None else (ot[0], {True: ot[1][False], False: ot[1][True]})
    if kind(y) == "MethodCall" and y["m"] == "is_empty" and "Range<" in str(y.get("rty", "")) and \
            hirq.local_id(y["recv"]) is not None:
        return (hirq.local_id(y["recv"]), {True: "rev-or-eq", False: "fwd"})
    if kind(y) == "Binary" and y["op"] in ("<", "<=", ">", ">="):
        l, rr = peel(y["l"]), peel(y["r"])
        if kind(l) == "Field" and kind(rr) == "Field" and hirq.local_id(l["base"]) is not None \
                and hirq.local_id(l["base"]) == hirq.local_id(rr["base"]) and {l["name"], rr["name"]} == {"start", "end"}:
            op = y["op"]
            if l["name"] == "start":
                op = {"<": ">", "<=": ">=", ">": "<", ">=": "<="}[op]
            table = {"<": {True: "rev", False: "fwd-or-eq"}, "<=": {True: "rev-or-eq", False: "fwd"},
                     ">": {True: "fwd", False: "rev-or-eq"}, ">=": {True: "fwd-or-eq", False: "rev"}}
            return (hirq.local_id(l["base"]), table[op])
    return None


def frame(rep, c, sfx):
    r = rep.rule("C03.FRAME" + sfx, 3,
                 "an offset found by searching the rest of the input (`..[self.pos..]`: memchr / memmem / find) is relative "
                 "to the cursor and is ADDED to it; an index that runs over `self.pos..len` is absolute and is ASSIGNED.  "
                 "The frame of each such local is read off its source and off its other uses in the same function "
                 "(`self.pos + from`, `input.get(from..)`); a write to `pos` that treats it the other way contradicts them "
                 "and moves the cursor backwards or past the match")
    n = 0
    for b in c.bodies:
        if b.get("body") is None or b.get("exp") or "::tests::" in str(b.get("path", "")):
            continue
        writes = []
        for x in walk(b["body"]):
            if kind(x) in ("Assign", "AssignOp"):
                tgt = peel(x["l"])
                if kind(tgt) == "Field" and tgt["name"] == "pos" and "position::Position" in str(tgt.get("bty", "")) \
                        and kind(peel(x["r"])) == "Path" and peel(x["r"]).get("res") == "local":
                    writes.append(x)
        if not writes:
            continue
        lets = hirq.lets(b["body"])

        def is_pos(e):
            e = peel(e)
            return kind(e) == "Field" and e["name"] == "pos" and "position::Position" in str(e.get("bty", ""))

        def source_exprs(lid, depth=0, seen=None):
            seen = seen if seen is not None else set()
            if depth > 4 or lid in seen:
                return []
            seen.add(lid)
            src = lets[lid][0] if lid in lets else hirq.binding_source(b, lid)
            if src is None:
                return []
            out = [src]
            for y in walk(src):
                if kind(y) == "Path" and y.get("res") == "local" and y["id"] != lid:
                    out += source_exprs(y["id"], depth + 1, seen)
            return out

        def frame_of(lid):
            rel = ab = False
            why = []
            for src in source_exprs(lid):
                inside_index = set()
                for y in walk(src):
                    if kind(y) == "Index":
                        idx = peel(y["idx"])
                        if kind(idx) == "Struct" and str(idx.get("path", "")).endswith("RangeFrom") and any(
                                is_pos(f["e"]) for f in idx["fields"]):
                            rel = True
                            why.append("searched in `%s`" % hirq.expr_text(y)[:40])
                        for z in walk(y):
                            inside_index.add(id(z))
                for y in walk(src):
                    if kind(y) == "Struct" and str(y.get("path", "")).endswith("ops::range::Range") and id(y) not in inside_index \
                            and any(f["name"] == "start" and is_pos(f["e"]) for f in y["fields"]):
                        ab = True
                        why.append("runs over `%s`" % hirq.expr_text(y)[:40])
            # the other uses of the local in this function
            for y in walk(b["body"]):
                if kind(y) == "Binary" and y["op"] == "+" and ((is_pos(y["l"]) and hirq.local_id(y["r"]) == lid)
                                                               or (is_pos(y["r"]) and hirq.local_id(y["l"]) == lid)):
                    rel = True
                    why.append("used as `%s`" % hirq.expr_text(y)[:40])
                if kind(y) == "Struct" and str(y.get("path", "")).endswith("RangeFrom") and any(
                        hirq.local_id(f["e"]) == lid for f in y["fields"]):
                    ab = True
                    why.append("used as the start of `%s..`" % hirq.expr_text(y["fields"][0]["e"])[:30])
            return rel, ab, why
        for x in writes:
            lid = hirq.local_id(x["r"])
            rel, ab, why = frame_of(lid)
            n += 1
            key = "%s:%s:%s#%d" % (b["name"], peel(x["r"]).get("name"), "add" if kind(x) == "AssignOp" else "assign",
                                   writes.index(x))
            r.instance(key, where(x), "; ".join(why)[:120] or "frame not determined")
            if rel == ab:
                continue        # no evidence, or conflicting evidence: no verdict
            if kind(x) == "Assign" and rel:
                r.violation(key, where(x), "%s assigns `%s` to the cursor, but it is an offset relative to the cursor (%s): "
                            "from a position p > 0 the cursor lands at the offset itself - before p, possibly inside a "
                            "multi-byte character - and the tokens emitted next carry positions that go backwards"
                            % (b["name"], peel(x["r"]).get("name"), "; ".join(why)[:160]))
            if kind(x) == "AssignOp" and x.get("op") in ("+=", "+") and ab:
                r.violation(key, where(x), "%s adds `%s` to the cursor, but it is an absolute index (%s): the cursor moves "
                            "past the place that was found" % (b["name"], peel(x["r"]).get("name"), "; ".join(why)[:160]))
    if n == 0:
        r.lost("writes of a found offset to Position.pos (skip_until and its helpers)")


def narrowing_char_casts(body):
    out = []
    for x in walk(body):
        if kind(x) == "Cast" and str(x.get("ty")) in ("u8", "i8", "u16", "i16"):
            src = x["e"]
            sty = str(src.get("ty", "")).replace("&", "").strip()
            if sty == "char":
                out.append(x)
    return out


def narrow(rep, c, sfx):
    r = rep.rule("C03.NARROW" + sfx, 0,
                 "no matcher of Position / ParserState casts a character of the input to a narrower integer (`c as u8`): "
                 "the cast keeps the low bits only, so a comparison made on the result holds for every character that "
                 "shares them (U+0100 'as u8' is 0) - the primitive then matches text it must not match")
    # the detector must recognise the construct it looks for (a rule whose expected count is zero)
    probe = {"k": "Block", "stmts": [], "expr": {"k": "Cast", "ty": "u8", "e": {"k": "Path", "res": "local", "id": 1, "ty": "char"}}}
    if len(narrowing_char_casts(probe)) != 1:
        r.lost("self-test of the cast detector")
        return
    n = 0
    for b in c.bodies:
        if b.get("impl_self") not in (POSITION, "pest::parser_state::ParserState") or b.get("body") is None or b.get("exp") \
                or "::tests::" in b["path"]:
            continue
        n += 1
        for x in narrowing_char_casts(b["body"]):
            r.violation("%s:char-as-%s" % (b["name"], x.get("ty")), where(x),
                        "%s::%s narrows an input character with `as %s`: every character with the same low bits compares "
                        "equal (e.g. a control-character range then matches U+4E00, whose low byte is 0x00)"
                        % (b["impl_self"].split("::")[-1], b["name"], x.get("ty")))
    r.instance("functions-scanned", "", "%d functions of Position / ParserState" % n)
    if n < 40:
        r.lost("the matchers of Position / ParserState (found %d functions)" % n)


def _eval_byte(e, bval):
    """Value of an integer/boolean expression over one byte variable (any u8 local), or None."""
    e = peel(e)
    k = kind(e)
    if k == "Lit":
        v = hirq.lit_value(e)
        return v if isinstance(v, (int, bool)) else None
    if k == "Path" and e.get("res") == "local" and e.get("ty") in ("u8", "&u8"):
        return bval
    if k == "Binary":
        a, b2 = _eval_byte(e["l"], bval), _eval_byte(e["r"], bval)
        if a is None or b2 is None:
            return None
        op = e["op"]
        try:
            return {"<": a < b2, "<=": a <= b2, ">": a > b2, ">=": a >= b2, "==": a == b2, "!=": a != b2,
                    "&&": bool(a) and bool(b2), "||": bool(a) or bool(b2), "&": a & b2, "|": a | b2,
                    ">>": a >> b2, "+": a + b2, "-": a - b2}[op]
        except (KeyError, TypeError):
            return None
    if k == "Unary" and e["op"] == "!":
        v = _eval_byte(e["e"], bval)
        return None if v is None else (not v)
    if k == "MethodCall" and e["m"] == "is_ascii":
        return bval < 0x80
    return None


def utf8_width_guard(ctx, node, step):
    """None if `step` is the UTF-8 width of every lead byte under which `node` executes; else a reason."""
    conds = []   # (expr, required truth)
    for g in ctx.guards(node):
        if g[0] == "if":
            conds.append((g[1], g[2]))
        elif g[0] == "guard":
            conds.append((g[1], True))
        elif g[0] == "arm":
            m, idx = g[1], g[2]
            for arm in m["arms"][:idx]:
                if arm.get("guard") is not None:
                    conds.append((arm["guard"], False))
                elif not hirq.pat_is_catchall(arm["pat"]) and not any(v.endswith("Option::None") for v in hirq.pat_variants(arm["pat"])):
                    lits = [q for q in walk(arm["pat"]) if q.get("k") in ("PLit", "PRange")]
                    if lits:
                        return "(earlier arms match byte patterns this rule does not evaluate)"
    lead = [bb for bb in range(0x00, 0x80)] + list(range(0xC2, 0xE0)) + list(range(0xE0, 0xF0)) + list(range(0xF0, 0xF5))
    width = lambda bb: 1 if bb < 0x80 else (2 if bb < 0xE0 else (3 if bb < 0xF0 else 4))
    hit = 0
    for bb in lead:
        ok = True
        for (c0, truth) in conds:
            v = _eval_byte(c0, bb)
            if v is None:
                if kind(peel(c0)) == "LetExpr":
                    continue
                return "(under a condition this rule cannot evaluate over the lead byte: `%s`)" % hirq.expr_text(c0)[:50]
            if bool(v) != truth:
                ok = False
                break
        if ok:
            hit += 1
            if width(bb) != step:
                return "for lead byte 0x%02X, whose character is %d byte(s) wide" % (bb, width(bb))
    if hit == 0:
        return "(on a path no lead byte reaches)"
    return None


TOKEN_POS_GETTERS = set()
CRATE = None   # the crate BOUNDARY is analysing (for following helpers that return offsets)


def find_token_pos_getters(c):
    """Functions whose value is the input_pos of a queue token on every path (`match self.queue[i] { Start{input_pos,..}
    | End{input_pos,..} => input_pos }`), whatever they are called."""
    out = set()
    for b in c.bodies:
        if b.get("output") != "usize" or b.get("body") is None or b.get("exp"):
            continue
        leaves = hirq.tail_leaves(b["body"]) + [x["e"] for x in walk(b["body"]) if kind(x) == "Ret" and x.get("e")]
        if not leaves:
            continue
        ids = set()
        for n in walk(b["body"]):
            if n.get("k") == "PStruct" and str(n.get("path", "")).startswith(QT):
                for f in n["fields"]:
                    if f["name"] == "input_pos":
                        ids |= set(x["id"] for x in walk(f["pat"]) if x.get("k") == "PBind")
        if ids and all(kind(peel(v)) == "Path" and peel(v).get("res") == "local" and peel(v)["id"] in ids for v in leaves):
            out.add(b["path"])
    return out


def offset_source(a, lets, fn, depth=0):
    e = peel(a)
    if depth > 4:
        return None
    k = kind(e)
    if k == "Field" and e["name"] in ("pos", "start", "end", "attempt_pos", "max_position"):
        return "field " + e["name"]
    if k == "MethodCall" and (e.get("path") in ("pest::position::Position::pos", "pest::span::Span::start",
                                                   "pest::span::Span::end") or e.get("path") in TOKEN_POS_GETTERS):
        return "method " + e["path"]
    if k == "Call" and isinstance(callee(e), str) and callee(e) in TOKEN_POS_GETTERS:
        return "function " + callee(e)
    if k == "Path" and e.get("res") == "local":
        lid = e["id"]
        if lid in lets:
            return offset_source(lets[lid][0], lets, fn, depth + 1)
        # `let (start, end) = self.byte_range();` - a component of a tuple returned by a crate function, judged by what
        # that function puts into the component
        for st in walk(fn["body"] if "body" in fn else fn):
            if st.get("k") == "Let" and st.get("init") is not None and st["pat"].get("k") == "PTuple":
                idx = [i for i, q in enumerate(st["pat"]["pats"]) if any(bb[0] == lid for bb in hirq.pat_bindings(q))]
                init = peel(st["init"])
                if idx and kind(init) in ("Call", "MethodCall") and isinstance(callee(init), str) and CRATE is not None:
                    h = CRATE.fn(callee(init))
                    if h is not None and h.get("body") is not None:
                        hl = hirq.lets(h["body"])
                        srcs = []
                        for leaf in hirq.tail_leaves(h["body"]) + [x["e"] for x in walk(h["body"]) if kind(x) == "Ret" and x.get("e")]:
                            v = peel(leaf)
                            if kind(v) == "Tup" and idx[0] < len(v["elems"]):
                                srcs.append(offset_source(v["elems"][idx[0]], hl, h, depth + 1))
                            else:
                                srcs.append(None)
                        if srcs and all(srcs):
                            return "component %d of %s (%s)" % (idx[0], h["name"], ",".join(sorted(set(srcs))))
        # a pattern binding of a token's input_pos, or a parameter
        for n in walk(fn):
            if n.get("k") == "PStruct" and n.get("path", "").startswith(QT):
                for f in n["fields"]:
                    if f["name"] == "input_pos" and any(x.get("id") == lid for x in walk(f["pat"])):
                        return "token input_pos"
        for p in fn["params"]:
            if p.get("id") == lid:
                return None
    if k == "Match":
        srcs = [offset_source(arm["body"], lets, fn, depth + 1) for arm in e["arms"]
                if arm["body"].get("ty") != "!"]
        if srcs and all(srcs):
            return "match(" + ",".join(srcs) + ")"
    if k == "If" and e.get("else") is not None:
        srcs = [offset_source(x, lets, fn, depth + 1) for x in (e["then"], e["else"]) if x.get("ty") != "!"]
        if srcs and all(srcs):
            return "if(" + ",".join(srcs) + ")"
    if k == "Block" and e.get("expr") is not None:
        return offset_source(e["expr"], lets, fn, depth + 1)
    return None
