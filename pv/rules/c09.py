"""C09 — the grammar front-end is total (DESIGN.md section 4, C09).

Termination in bounded time and absence of *all* panics are NOT decided (the ~40
`pairs.next().unwrap()` rely on the shape of the token tree).  Decided clauses:
  CONVERT  no fallible text-to-value conversion of grammar text reaches unwrap/expect
  LOCATED  every error the front-end constructs is built from a span of the input
  ZERO     zero repetition counts are rejected before the AST exists (the unroller unwraps folds over 1..=n)
  ARITH    no unguarded subtraction between numbers taken from the grammar text
  VISITED  recursions that follow rule references on unvalidated grammars are guarded by a visited set
"""
from .. import facts, hirq
from ..hirq import walk, kind, callee, where, peel
from . import c06

LEVEL = "other"

# The reader's big `match` over token rules ends in `x => unreachable!("other rule: {:?}", x)`: that arm is unreachable
# only while every alternative the meta-grammar can produce at that point has an arm of its own, in every feature
# configuration - which is C07's ARMS rule (meta-grammar alternatives x reader arms), re-run here.
DEPENDS = [
    ("C07", {"only_rules": ["ARMS", "LEADING"],
             "why": "a token the grammar accepts but the reader has no arm for reaches unreachable!() - a panic on a "
                    "text that parses; an optional leading `|` that reaches the operator-precedence parser panics there"}),
    ("C10", {"only_rules": ["COLSUB", "LINETEXT"],
             "why": "every reported error can be rendered: also through the miette adapter, whose label arithmetic must "
                    "not overflow on a multi-line span"}),
    ("C05", {"only_rules": ["TRAVERSE", "UNROLL"],
             "why": "the conversion to OptimizedRule ends in unreachable!() for bounded repetitions: it is unreachable only "
                    "if the unroller's traversal reaches every sub-expression (every variant, tags included) and removes them"}),
]

MANIFEST = {
    "technique": "error-discipline rule (fallible conversion results vs unwrap/expect, through receiver chains "
                 "and lets), constructor provenance, guard-dominance of count checks and of subtractions, "
                 "visited-set dominance of rule-following recursion (typed HIR, call-graph scoped)",
    "text": "Decides five structural clauses of totality for every input text: conversions that can fail on text "
            "the meta-grammar accepts (integer parsing, hex/char decoding, the crate's own unescape) never flow "
            "into unwrap/expect; every Error is constructed from a span of the input; zero repetition counts are "
            "rejected by the reader; numbers read from the grammar are never subtracted without a dominating "
            "comparison; recursions over rule references that run before validation completes carry a visited "
            "guard. It does not decide panic-freedom of the remaining unwraps (shape of the token tree) nor time "
            "bounds.",
    "note": "Scope: non-test code of pest_meta reachable from parse_and_optimize plus pest_generator::docs. "
            "Trusted: the meta-grammar does not bound integers/escapes (read from grammar.pest by the C07 "
            "rule).",
}

INT_TYPES = {"u8", "u16", "u32", "u64", "usize", "i8", "i16", "i32", "i64", "isize", "u128", "i128"}
BASE_CONVERSIONS = {
    "core::num::<impl u8>::from_str_radix", "core::num::<impl u32>::from_str_radix",
    "core::num::<impl u16>::from_str_radix", "core::num::<impl u64>::from_str_radix",
    "core::num::<impl i32>::from_str_radix", "core::num::<impl usize>::from_str_radix",
    "core::char::from_u32", "core::char::methods::<impl char>::from_u32",
    "core::char::from_digit", "core::char::methods::<impl char>::from_digit",
}
PANICKING = {"core::option::Option::unwrap", "core::option::Option::expect", "core::result::Result::unwrap",
             "core::result::Result::expect", "core::result::Result::unwrap_err", "core::result::Result::expect_err"}
CHAIN = {"core::result::Result::ok", "core::result::Result::map", "core::result::Result::map_err",
         "core::option::Option::map", "core::option::Option::ok_or", "core::option::Option::ok_or_else",
         "core::option::Option::and_then", "core::result::Result::and_then", "core::option::Option::filter"}


def is_conversion(n, derived):
    cal = callee(n) if kind(n) in ("Call", "MethodCall") else None
    if not isinstance(cal, str):
        return None
    if cal == "core::str::<impl str>::parse":
        ta = n.get("targs") or []
        if ta and ta[0] in INT_TYPES:
            return "str::parse::<%s>" % ta[0]
        return None
    if cal in BASE_CONVERSIONS:
        return cal.split("::")[-1]
    if cal in derived:
        return cal.split("::")[-1]
    return None


def derived_conversions(crate):
    """Functions of the crate returning Option/Result whose body propagates (`?`) a base conversion."""
    out = set()
    for b in crate.bodies:
        o = b.get("output", "")
        if not (o.startswith("core::option::Option<") or o.startswith("core::result::Result<")):
            continue
        if b.get("exp"):
            continue
        for n in walk(b["body"]):
            if kind(n) == "Match" and n.get("src") == "try":
                if any(is_conversion(x, set()) for x in walk(n["scrut"])):
                    out.add(b["path"])
    return out


def run(rep, tier):
    rep.explanation = (
        "Fallible conversions are enumerated by resolved callee (str::parse::<int>, from_str_radix, "
        "char::from_u32 and crate functions that propagate their failure); each result is followed through "
        "method chains and single-assignment lets to its consumer; unwrap/expect is a violation, `?`, "
        "`if let Ok`, `.ok()?` are the accepted idioms (enumerated from the sites that already do it right).")
    rep.configs = rep.cfgs(["default", "extras"])
    for cfg in rep.configs:
        f = facts.facts(cfg)
        meta = f.crate("pest_meta", want_feature="grammar-extras" if cfg == "extras" else None)
        gen = f.crate("pest_generator", want_feature="grammar-extras" if cfg == "extras" else None)
        sfx = "" if cfg == "default" else "@" + cfg
        convert(rep, meta, gen, sfx)
        located(rep, meta, sfx)
        zero(rep, meta, sfx)
        arith(rep, meta, sfx)
        textarg(rep, meta, sfx)
        visited(rep, meta, sfx)
        unroll_phase(rep, meta, sfx)
    render(rep, facts.facts("default").crate("pest"))


def scope(meta):
    cg = hirq.CallGraph([meta])
    reach = cg.reachable(["pest_meta::parse_and_optimize", "pest_meta::parser::parse", "pest_meta::parser::consume_rules",
                          "pest_meta::validator::validate_pairs", "pest_meta::optimizer::optimize"])
    fns = []
    for p in sorted(reach):
        fn = meta.fn(p)
        if fn is None or fn.get("exp"):
            continue
        if p.startswith("<pest_meta::parser::grammar::") or "::grammar::PestParser" in p:
            continue  # the generated meta-parser (C14)
        fns.append(fn)
    return fns


def consumers(fn, node):
    """Follow the value of `node` to what consumes it: returns list of (kind, node)."""
    ctx = hirq.Ctx(fn)
    out = []
    cur = node
    seen_lets = set()
    while True:
        p, k, i = ctx.parent.get(id(cur), (None, None, None))
        if p is None:
            return out
        pk = p.get("k")
        if pk == "MethodCall" and k == "recv":
            cal = p.get("path")
            if cal in PANICKING:
                out.append(("panic", p))
                return out
            if cal in CHAIN:
                cur = p
                continue
            out.append(("method:%s" % cal, p))
            return out
        if pk == "Call" and callee(p) == "core::ops::Try::branch":
            out.append(("try", p))
            return out
        if pk == "LetExpr" and k == "init":
            out.append(("iflet", p))
            return out
        if pk == "Match" and k == "scrut":
            out.append(("match", p))
            return out
        if pk == "Let" and k == "init":
            pat = p["pat"]
            if pat.get("k") == "PBind" and pat["id"] not in seen_lets:
                seen_lets.add(pat["id"])
                uses = [x for x in walk(fn["body"]) if kind(x) == "Path" and x.get("res") == "local" and x["id"] == pat["id"]]
                for u in uses:
                    out.extend(consumers(fn, u))
                return out
            out.append(("letpat", p))
            return out
        if pk in ("AddrOf", "Cast") or (pk == "Block" and k == "expr"):
            cur = p
            continue
        if pk in ("If",) and k in ("then", "else"):
            cur = p
            continue
        out.append(("other:%s" % pk, p))
        return out


def convert(rep, meta, gen, sfx):
    r = rep.rule("C09.CONVERT" + sfx, 6,
                 "no result of a fallible text-to-value conversion (str::parse::<int>, from_str_radix, "
                 "char::from_u32, the crate's unescape) reaches unwrap/expect")
    derived = derived_conversions(meta)
    r.note("derived fallible conversions: %s" % sorted(derived))
    fns = scope(meta)
    if gen is not None:
        fns += [b for b in gen.bodies if b["path"].startswith("pest_generator::docs::") and not b.get("exp")]
    n = 0
    for fn in fns:
        for x in walk(fn["body"]):
            conv = is_conversion(x, derived)
            if not conv:
                continue
            n += 1
            cons = consumers(fn, x)
            kinds = sorted(set(c[0] for c in cons))
            key = "%s:%s@%s" % (fn["path"].replace("pest_meta::", ""), conv, site_tag(fn, x))
            r.instance(key, where(x), "consumed by %s" % kinds)
            for (ck, cn) in cons:
                if ck == "panic":
                    r.violation(key, where(cn),
                                "the result of %s on grammar text is %s'ed: the meta-grammar does not bound this "
                                "text (unbounded digits / any 2-6 hex digits), so a grammar like `PEEK[9999999999..]` "
                                "or \"\\u{D800}\" panics instead of yielding a located error"
                                % (conv, cn.get("m")))


def site_tag(fn, node):
    """Stable tag for a site inside a function: the nearest enclosing match arm on Rule::x, else ordinal."""
    ctx = hirq.Ctx(fn)
    for g in reversed(ctx.guards(node)):
        if g[0] == "arm":
            pv = hirq.pat_variants(g[1]["arms"][g[2]]["pat"])
            if pv:
                return pv[0].split("::")[-1]
    same = [x for x in walk(fn["body"]) if kind(x) == kind(node) and callee(x) == callee(node)]
    return "#%d" % [id(x) for x in same].index(id(node))


def located(rep, meta, sfx):
    r = rep.rule("C09.LOCATED" + sfx, 19,
                 "every Error constructed by the front-end uses Error::new_from_span with a span obtained from "
                 "a pair / node / position of the input")
    n = 0
    for fn in meta.bodies:
        if fn.get("exp") or "::grammar::PestParser" in fn["path"]:
            continue
        lets = hirq.lets(fn["body"])
        for x in walk(fn["body"]):
            if kind(x) != "Call":
                continue
            cal = callee(x)
            if not isinstance(cal, str) or not cal.startswith("pest::error::Error::new_from_"):
                continue
            n += 1
            key = "%s#%d" % (fn["path"].replace("pest_meta::", ""), len([i for i in r.instances if i[0].startswith(fn["path"].replace("pest_meta::", "") + "#")]))
            r.instance(key, where(x), cal.split("::")[-1])
            if cal != "pest::error::Error::new_from_span":
                r.violation(key, where(x), "front-end error built with %s: validate_ast's sort key and the "
                            "rendering expect a span location" % cal.split("::")[-1])
                continue
            src = span_source(x["args"][1], lets)
            if src is None:
                r.violation(key, where(x), "the error's span `%s` is not taken from a pair/node/position of the "
                            "input" % hirq.expr_text(x["args"][1]))


def span_source(a, lets, depth=0):
    e = peel(a)
    k = kind(e)
    if depth > 4:
        return None
    if k == "MethodCall" and e.get("path") in ("pest::iterators::pair::Pair::as_span", "pest::position::Position::span",
                                                 "pest::span::Span::start_pos", "pest::span::Span::end_pos"):
        return e["path"]
    if k == "Field" and e["name"] == "span":
        return "field span"
    if k == "Path" and e.get("res") == "local":
        if e["id"] in lets:
            return span_source(lets[e["id"]][0], lets, depth + 1)
        if "pest::span::Span" in e.get("ty", ""):
            return "span binding"
    return None


COUNTED = {"RepExact": 1, "RepMax": 1, "RepMinMax": 2}


def zero(rep, meta, sfx):
    r = rep.rule("C09.ZERO" + sfx, 3,
                 "the reader rejects a zero count for e{n}, e{,n} and e{m,n} before building the node (the "
                 "unroller unwraps a fold over 1..=n)")
    PE = "pest_meta::parser::ParserExpr"
    found = set()
    for fn in meta.bodies:
        if fn.get("exp") or not fn["path"].startswith("pest_meta::parser::") or "::grammar::" in fn["path"]:
            continue
        ctx = hirq.Ctx(fn)
        for x in walk(fn["body"]):
            if kind(x) == "Call" and isinstance(callee(x), str) and callee(x).startswith(PE + "::"):
                v = callee(x).split("::")[-1]
                if v not in COUNTED:
                    continue
                found.add(v)
                cnt = hirq.local_id(x["args"][COUNTED[v]])
                ok = False
                for g in ctx.guards(x):
                    if g[0] == "not":
                        c = peel(g[1])
                        if kind(c) == "Binary" and c["op"] == "==" and hirq.lit_value(c["r"]) == 0 and hirq.local_id(c["l"]) == cnt:
                            ok = True
                    if g[0] == "if" and g[2] is True:
                        c = peel(g[1])
                        if kind(c) == "Binary" and c["op"] in ("!=", ">") and hirq.lit_value(c["r"]) == 0 and hirq.local_id(c["l"]) == cnt:
                            ok = True
                    if g[0] == "try":
                        # `ensure_nonzero(count, ..)?;` - a checking helper whose summary is read from its body: it
                        # returns Err on the path where the parameter that receives `count` is 0
                        call = peel(g[1])
                        h = meta.fn(callee(call)) if kind(call) in ("Call", "MethodCall") and isinstance(callee(call), str) else None
                        if h is not None:
                            args = hirq.call_args(call)
                            for i, a in enumerate(args):
                                if hirq.local_id(a) == cnt and i in zero_rejecting_params(h):
                                    ok = True
                if not ok and cnt is not None:
                    # `let max = nonzero_bound(&pair)?;` - the count comes out of a helper that hands back a number only
                    # when it is not 0 (summary read from the helper's body)
                    lets_z = hirq.lets(fn["body"])
                    init = peel(lets_z[cnt][0]) if cnt in lets_z and lets_z[cnt][0] is not None else None
                    if init is not None and kind(init) == "Match" and init.get("src") == "try":
                        inner = init["scrut"]["args"][0] if kind(init["scrut"]) == "Call" and init["scrut"]["args"] else None
                        call = peel(inner) if inner is not None else None
                        h = meta.fn(callee(call)) if call is not None and kind(call) in ("Call", "MethodCall") \
                            and isinstance(callee(call), str) else None
                        if h is not None and returns_nonzero(h):
                            ok = True
                r.instance(v, where(x))
                if not ok:
                    r.violation(v, where(x), "%s is built without rejecting a zero count first: the unroller's "
                                "fold over an empty range returns None and `.unwrap()` panics on `e{0}`" % v)
    for v in COUNTED:
        if v not in found:
            r.violation(v + ":site", "", "construction site of %s not found in the reader" % v)


def returns_nonzero(h):
    """Does h (returning Result<integer, _>) produce Ok(v) only for v != 0?  Recognised: `match x { 0 => Err(..), v =>
    Ok(v) }` and `if v == 0 { return Err(..) } .. Ok(v)`."""
    if "core::result::Result<u" not in str(h.get("output", "")) and "Result<u" not in str(h.get("output", "")):
        return False
    for x in walk(h["body"]):
        if kind(x) == "Match":
            zero_err = False
            others_ok = True
            for arm in x["arms"]:
                lits = [q for q in walk(arm["pat"]) if q.get("k") == "PLit"]
                b = peel(arm["body"])
                is_err = kind(b) == "Call" and callee(b) == "core::result::Result::Err"
                if lits and all(q.get("v") == 0 for q in lits) and is_err:
                    zero_err = True
                elif not lits and not (kind(b) == "Call" and callee(b) in ("core::result::Result::Ok", "core::result::Result::Err")):
                    others_ok = False
            if zero_err and others_ok:
                return True
        if kind(x) == "If" and hirq.diverges(x["then"]):
            c = peel(x["cond"])
            if kind(c) == "Binary" and c["op"] == "==" and hirq.lit_value(c["r"]) == 0:
                rets = [y for y in walk(x["then"]) if kind(y) == "Ret" and y.get("e") is not None]
                if rets and all(kind(peel(y["e"])) == "Call" and callee(peel(y["e"])) == "core::result::Result::Err" for y in rets):
                    return True
    return False


def zero_rejecting_params(h):
    """Indices of the parameters p of h for which h's body has `if p == 0 { return Err(..) }` (then-branch diverging)."""
    out = set()
    pid = {p["id"]: i for i, p in enumerate(h["params"]) if p.get("k") == "PBind"}
    # path by path: every path that answers Ok has found the parameter different from 0 (`if p != 0 { return Ok(()) }
    # .. Err(..)`, `if p == 0 { return Err(..) }`, `p > 0`), and some path answers Err
    try:
        paths = hirq.exits(hirq.PathEnum(h).paths())
    except hirq.TooManyPaths:
        paths = []
    for lid, i in pid.items():
        oks_tested, oks, errs = 0, 0, 0
        for (ev, o) in paths:
            v = hirq.path_value(ev)
            v = peel(v) if v is not None else None
            is_ok = v is not None and kind(v) == "Call" and callee(v) == "core::result::Result::Ok"
            is_err = v is not None and kind(v) == "Call" and callee(v) == "core::result::Result::Err"
            nonzero = False
            for e in ev:
                if e.kind != "cond":
                    continue
                cnd, truth = peel(e.node), bool(e.extra)
                while kind(cnd) == "Unary" and cnd.get("op") == "!":
                    cnd, truth = peel(cnd["e"]), not truth
                if kind(cnd) == "Binary" and hirq.local_id(cnd["l"]) == lid and hirq.lit_value(cnd["r"]) == 0:
                    if (cnd["op"] in ("!=", ">") and truth) or (cnd["op"] == "==" and not truth):
                        nonzero = True
            if is_ok:
                oks += 1
                oks_tested += 1 if nonzero else 0
            if is_err:
                errs += 1
        if oks and errs and oks == oks_tested:
            out.add(i)
    for x in walk(h["body"]):
        if kind(x) == "If" and hirq.diverges(x["then"]):
            c = peel(x["cond"])
            if kind(c) == "Binary" and c["op"] == "==" and hirq.lit_value(c["r"]) == 0 and hirq.local_id(c["l"]) in pid:
                rets = [y for y in walk(x["then"]) if kind(y) == "Ret" and y.get("e") is not None]
                if rets and all(kind(peel(y["e"])) == "Call" and callee(peel(y["e"])) == "core::result::Result::Err" for y in rets):
                    out.add(pid[hirq.local_id(c["l"])])
    return out


def grammar_number_bindings(fn):
    """Local binding ids bound to integer fields of Expr / ParserExpr repetition variants, or to
    results of str::parse::<int>."""
    ids = {}
    for x in walk(fn):
        if x.get("k") == "PTupleStruct" and x.get("path", "").split("::")[-1] in (
                "RepExact", "RepMin", "RepMax", "RepMinMax", "PeekSlice"):
            for p in x["pats"]:
                for b in walk(p):
                    bt = b.get("ty", "").lstrip("&") if b.get("k") == "PBind" else ""
                    if bt in INT_TYPES or (bt.startswith("core::option::Option<") and bt[len("core::option::Option<"):-1] in INT_TYPES):
                        ids[b["id"]] = b["name"]
    return ids


def is_unguarded_sub(ctx, n, ids):
    """n is `a - b` (or a -= b) with both operands grammar numbers and no dominating comparison."""
    if kind(n) == "Binary" and n["op"] == "-":
        a, b = hirq.local_id(n["l"]), hirq.local_id(n["r"])
    elif kind(n) == "AssignOp" and n["op"] == "-=":
        a, b = hirq.local_id(n["l"]), hirq.local_id(n["r"])
    else:
        return False
    if a not in ids or b not in ids:
        return False
    for g in ctx.guards(n):
        if g[0] in ("if", "not", "guard"):
            for c in walk(g[1]):
                if kind(c) == "Binary" and c["op"] in ("<", "<=", ">", ">="):
                    if {hirq.local_id(c["l"]), hirq.local_id(c["r"])} == {a, b}:
                        return False
    return True


def arith(rep, meta, sfx):
    r = rep.rule("C09.ARITH" + sfx, 1,
                 "numbers taken from the grammar text (repetition bounds, slice indices) are never subtracted "
                 "from one another without a dominating comparison of the two (expected count of sites: 0; a "
                 "positive control is matched on every run)")
    # positive control: the matcher must fire on a synthetic `max - min`
    ctl_fn = {"body": {"k": "Block", "stmts": [], "expr": {
        "k": "Match", "src": "match", "sty": "E", "scrut": {"k": "Path", "res": "local", "id": 1, "name": "e"},
        "arms": [{"pat": {"k": "PTupleStruct", "res": "def", "path": "E::RepMinMax", "pats": [
            {"k": "PBind", "id": 5, "name": "x", "ty": "Box<E>"}, {"k": "PBind", "id": 6, "name": "min", "ty": "u32"},
            {"k": "PBind", "id": 7, "name": "max", "ty": "u32"}]}, "guard": None,
            "body": {"k": "Binary", "op": "-", "l": {"k": "Path", "res": "local", "id": 7, "name": "max"},
                     "r": {"k": "Path", "res": "local", "id": 6, "name": "min"}}}]}}, "params": []}
    ctl_ids = grammar_number_bindings(ctl_fn)
    ctl_ctx = hirq.Ctx(ctl_fn)
    ctl_hit = [x for x in walk(ctl_fn["body"]) if is_unguarded_sub(ctl_ctx, x, ctl_ids)]
    r.instance("positive-control", "", "synthetic `max - min` matched: %s" % bool(ctl_hit))
    if not ctl_hit:
        r.violation("positive-control", "", "the subtraction matcher no longer recognises its control example")
    # grammar numbers handed to a helper stay grammar numbers: its parameters (and what it unwraps from an
    # `Option<integer>` parameter) are tracked one call deep
    handed = {}
    fns_all = scope(meta)
    for fn in fns_all:
        ids0 = grammar_number_bindings(fn)
        if not ids0:
            continue
        for x in walk(fn["body"]):
            if kind(x) in ("Call", "MethodCall") and isinstance(callee(x), str) and callee(x).startswith("pest_meta::"):
                h = meta.fn(callee(x))
                if h is None or h is fn or h.get("body") is None:
                    continue
                args = hirq.call_args(x)
                for i, a in enumerate(args):
                    if hirq.local_id(a) in ids0 and i < len(h["params"]) and h["params"][i].get("k") == "PBind":
                        handed.setdefault(h["path"], {})[h["params"][i]["id"]] = h["params"][i]["name"]
    for fn in fns_all:
        ids = grammar_number_bindings(fn)
        extra = handed.get(fn["path"], {})
        if extra:
            ids = dict(ids)
            ids.update(extra)
            for m_ in walk(fn["body"]):
                if kind(m_) == "Match" and hirq.local_id(m_["scrut"]) in extra:
                    for arm in m_["arms"]:
                        for b_ in walk(arm["pat"]):
                            if b_.get("k") == "PBind" and str(b_.get("ty", "")).lstrip("&") in INT_TYPES:
                                ids[b_["id"]] = b_["name"]
                if m_.get("k") in ("Let", "LetExpr") and m_.get("init") is not None and hirq.local_id(m_["init"]) in extra:
                    for b_ in walk(m_["pat"]):
                        if b_.get("k") == "PBind" and str(b_.get("ty", "")).lstrip("&") in INT_TYPES:
                            ids[b_["id"]] = b_["name"]
        if not ids:
            continue
        ctx = hirq.Ctx(fn)
        for x in walk(fn["body"]):
            if is_unguarded_sub(ctx, x, ids):
                a = hirq.expr_text(x)
                r.instance("%s:%s" % (fn["path"].replace("pest_meta::", ""), a), where(x))
                r.violation("%s:%s" % (fn["path"].replace("pest_meta::", ""), a), where(x),
                            "`%s` subtracts two numbers read from the grammar with no dominating comparison; the "
                            "reader accepts e{m,n} with m > n, so this underflows (panic in debug, ~4 billion "
                            "iterations in release)" % a)


def visited(rep, meta, sfx):
    r = rep.rule("C09.VISITED" + sfx, 3,
                 "recursions that follow rule references while the grammar is not yet validated are guarded by "
                 "a visited set (shared with C06.TRACE); optimizer recursions rely on validation having run")
    # reuse the C06 rule body on a throw-away report to collect its verdicts under C09's name
    class R:
        def __init__(self, target):
            self.t = target

        def rule(self, name, floor, desc):
            return self.t
    c06.locate(meta)
    c06.trace(R(r), meta, "")
    # memoised rule-following recursions in the optimizer: every computed answer is stored and nothing is
    # evicted, otherwise the cost is the number of paths through the rule graph, not its size
    for fn in meta.bodies:
        if not fn["path"].startswith("pest_meta::optimizer::") or fn.get("exp"):
            continue
        caches = [p for p in fn["params"] if p.get("k") == "PBind" and "HashMap<alloc::string::String, core::option::Option<bool>>" in p.get("ty", "")]
        if not caches or not any(callee(n) == fn["path"] for n in walk(fn["body"])):
            continue
        cid = caches[0]["id"]
        ctx = hirq.Ctx(fn)
        key = "memo:" + fn["path"].split("::")[-1]
        r.instance(key, where(fn["body"]))
        removes = [n for n in walk(fn["body"]) if kind(n) == "MethodCall" and n["m"] in ("remove", "clear", "retain") and hirq.local_id(n["recv"]) == cid]
        if removes:
            r.violation(key + ":evicts", where(removes[0]), "the memo table of %s evicts entries: a rule whose answer was "
                        "dropped is re-expanded at every reference, so the optimizer takes time exponential in the depth "
                        "of shared rule references (not bounded time)" % fn["name"])
        rec = [n for n in walk(fn["body"]) if kind(n) == "Call" and callee(n) == fn["path"]]
        for rc in rec:
            # after the recursive call (same block), an unconditional insert of the result
            blk = None
            for (p, k, i) in ctx.ancestors(rc):
                if kind(p) == "Block" and k == "stmts":
                    blk, idx = p, i
                    break
            ok = False
            if blk is not None:
                for st in blk["stmts"][idx + 1:]:
                    e = st.get("e")
                    if st.get("k") in ("Semi", "Expr") and kind(e) == "MethodCall" and e["m"] == "insert" and hirq.local_id(e["recv"]) == cid:
                        ok = True
            if not ok:
                r.violation(key + ":store", where(rc), "the answer computed by the recursive call is not stored "
                            "unconditionally in the memo table")
    # rule-following recursions in the optimizer (post-validation): listed as evidence
    for fn in meta.bodies:
        if fn["path"].startswith("pest_meta::optimizer::") and not fn.get("exp"):
            selfrec = any(callee(n) == fn["path"] for n in walk(fn["body"]))
            follows = any(kind(n) == "MethodCall" and n["m"] == "get" and "HashMap" in n.get("rty", "") for n in walk(fn["body"]))
            if selfrec and follows:
                has_cache = any(kind(n) == "MethodCall" and n["m"] in ("contains", "contains_key", "get", "insert")
                                and "cache" in hirq.expr_text(n["recv"]) for n in walk(fn["body"]))
                r.note("%s follows rule references recursively; visited/cache guard: %s (runs only after "
                       "validation rejected reference cycles in choice/leftmost position)" % (fn["path"], has_cache))


def unroll_phase(rep, meta, sfx):
    """The conversion to OptimizedExpr panics (unreachable!) on the variants the unroller is supposed to have
    removed; totality therefore needs the writer/reader agreement of C05.UNROLL (shared rule)."""
    from . import c05
    before = len(rep.rules)
    c05.unroll(rep, meta, sfx)
    for rr in rep.rules[before:]:
        rr.name = "C09.UNROLL" + sfx


# ------------------------------------------------------------------ RENDER

def render(rep, pest):
    r = rep.rule("C09.RENDER", 8,
                 "every reported error can be rendered: the functions of pest::error that Display::fmt reaches never slice "
                 "a string by a computed range (columns are counted in characters, a byte slice at a column panics on "
                 "non-ASCII text left of the error) and contain no panic!/assert!/unwrap/expect")
    if pest is None:
        r.lost("pest facts")
        return
    roots = [b["path"] for b in pest.bodies if b["path"].startswith("<pest::error::Error as core::fmt::Display>")]
    if not roots:
        r.lost("Display for pest::error::Error")
        return
    cg = hirq.CallGraph([pest])
    for p in sorted(cg.reachable(roots)):
        fn = pest.fn(p)
        if fn is None or fn.get("exp") or fn.get("body") is None:
            continue
        if not (p.startswith("pest::error::") or p.startswith("<pest::error::")):
            continue   # Position methods slice at their own (boundary) offset: C03.BOUNDARY
        key = p.replace("pest::error::", "")
        r.instance(key, where(fn["body"]))
        for x in walk(fn["body"]):
            if kind(x) == "Index" and "str" in (x["base"].get("ty") or "").replace("String", "str") \
                    and "Range" in (x["idx"].get("ty") or "") and "RangeFull" not in (x["idx"].get("ty") or ""):
                r.violation(key, where(x), "%s slices `%s` by `%s` while rendering: a column counted in characters (or "
                            "one that counts a stripped CR) is not a byte boundary of the stored line" % (
                                fn["name"], hirq.expr_text(x["base"])[:40], hirq.expr_text(x["idx"])[:40]))
            cal = callee(x) if kind(x) in ("Call", "MethodCall") else None
            if isinstance(cal, str) and (cal in hirq.PANIC_CALLEES or cal in (
                    "core::option::Option::unwrap", "core::option::Option::expect", "core::result::Result::unwrap",
                    "core::result::Result::expect")) and not any("unreachable" in e for e in (x.get("exp") or [])):
                r.violation(key, where(x), "%s can panic while rendering (%s)" % (fn["name"], cal.split("::")[-1]))


# ------------------------------------------------------------------ TEXT (the text errors are located in)

def textarg(rep, meta, sfx):
    r = rep.rule("C09.TEXT" + sfx, 1,
                 "every error carries a location inside the text the caller passed: the front-end entry points hand their "
                 "`&str` parameter itself to the reader (parser::parse / PestParser::parse), not a trimmed or re-sliced "
                 "copy - offsets and line/column of errors produced further down are relative to what the reader was given")
    n = 0
    for fn in meta.bodies:
        if fn.get("body") is None or fn.get("exp") or "::tests::" in fn["path"] or not fn.get("exported"):
            continue
        if not fn["path"].startswith("pest_meta::") or fn["path"].startswith("pest_meta::parser::grammar"):
            continue
        strs = [p["id"] for p in fn["params"] if p.get("k") == "PBind" and str(p.get("ty", "")).replace("&", "").strip().endswith("str")]
        if not strs:
            continue
        for x in walk(fn["body"]):
            if kind(x) in ("Call", "MethodCall") and isinstance(callee(x), str) and (
                    callee(x) == "pest_meta::parser::parse" or callee(x).endswith("Parser>::parse") or callee(x).endswith("::PestParser::parse")
                    or callee(x) == "pest::parser::Parser::parse"):
                args = hirq.call_args(x)
                texts = [a for a in args if str(peel(a).get("ty", "")).replace("&", "").strip().endswith("str")]
                if not texts:
                    continue
                n += 1
                key = fn["path"].replace("pest_meta::", "")
                r.instance(key, where(x))
                a = peel(texts[-1])
                if not (kind(a) == "Path" and a.get("res") == "local" and a["id"] in strs):
                    r.violation(key, where(x),
                                "%s reads `%s`, which is not its own text parameter: errors are located in a text the caller "
                                "does not have (e.g. a byte-order mark stripped first shifts every offset by 3, possibly "
                                "into the middle of a character)" % (fn["name"], hirq.expr_text(texts[-1])[:40]))
    if n == 0:
        r.lost("front-end entry points that hand a text to the reader")
