"""C10 - line/column arithmetic and error rendering: the structural clauses.

The property quantifies over all strings and offsets and most of it is about computed numbers (how many lines, how many
characters), which no rule over code shape decides.  Five of its clauses, however, are carried by shape and are genuine
necessary conditions - breaking any of them breaks the stated behaviour for some text:

  CHECKED   `Position::new` / `Span::new` answer Some exactly through `str::get(range)` over their own offset parameters
            (std's check *is* "ordered UTF-8 boundary offsets inside the input"); nothing else constructs from raw offsets
            in public API (C03.BOUNDARY, re-run).
  LINEEND   the two line counters (Position::line_col and the LineIndex behind Pair::line_col) agree on what ends a line:
            '\\n' and nothing else (C04.LINEBREAK, re-run); find_line_start / find_line_end look for the same character and
            line_of is exactly the slice between them.
  COLUNIT   both counters count columns in characters: the index takes `chars().count()` of the slice from the line start to
            the offset, the position walk adds exactly 1 per character consumed and consumes exactly that character's bytes.
  PAIRPOS   Pair::line_col asks the index about the pair's *start* token with the pair's own input.
  RENDER    rendering never slices the stored line by a computed range and has no panic site (C09.RENDER, re-run); the
            constructor reports the position it is given (C08.REPORTED, re-run).

What is NOT decided: that the counted numbers are right (e.g. an off-by-one inside partition_point's predicate), the
contents of lines()/lines_span(), the exact text of the rendering."""
from .. import facts, hirq
from ..hirq import walk, kind, callee, where, peel

LEVEL = "other"
POSITION = "pest::position::Position"
SPAN = "pest::span::Span"
LINEINDEX = "pest::iterators::line_index::LineIndex"
PAIR = "pest::iterators::pair::Pair"

MANIFEST = {
    "technique": "guard-dominance of the checked constructors by str::get over their own parameters; character-literal "
                 "agreement of sibling line counters and line-boundary searches; unit-of-count rule (chars().count(), "
                 "+1 per consumed character); argument provenance at the Pair -> LineIndex call; panic-site and "
                 "string-slicing scan of the rendering functions (typed HIR)",
    "text": "Decides five structural necessary conditions of the property for every string and offset: checked "
            "constructors succeed exactly through std's str::get over their own offsets; both line counters and the "
            "line-boundary searches treat '\\n' and only '\\n' as the end of a line, and line_of is the slice between the "
            "two searches; both counters count columns in characters; Pair::line_col asks about the pair's start token; "
            "rendering never slices by a computed range nor contains a panic site, and the error constructor reports the "
            "position it is given. It does not decide that the counted numbers are right, nor lines()/lines_span(), nor "
            "the text of the rendering.",
    "note": "A partial claim: the numeric equalities of the property (line = number of newline-terminated lines before the "
            "offset, column = characters since the line start) are value arithmetic over all strings and are declined "
            "(DESIGN.md section 6). Each clause above is a necessary condition: a counter that also ends a line at '\\r', a "
            "column taken in bytes, a Span::new that skips the boundary test, or a byte slice at a character column each "
            "break the statement for some text.",
}

DEPENDS = [
    ("C03", {"only_rules": ["BOUNDARY"], "configs": ["default"],
             "why": "positions and spans are constructible only through the checked constructors (or from offsets that came "
                    "out of an existing position / span / token)"}),
    ("C04", {"only_rules": ["LINEBREAK"], "configs": ["default"],
             "why": "Position::line_col and LineIndex (Pair::line_col) must agree on what ends a line"}),
    ("C08", {"only_rules": ["REPORTED"],
             "why": "Error.location and Error.line_col are projections of the same position"}),
    ("C09", {"only_rules": ["RENDER"],
             "why": "rendering an error never slices by a computed range and has no panic site"}),
]


def run(rep, tier):
    rep.explanation = (
        "Structural clauses only (see the module text); obligations are call sites, guards and character literals of "
        "position.rs, span.rs, line_index.rs, pair.rs and error.rs.")
    rep.configs = rep.cfgs(["default"])
    c = facts.facts("default").crate("pest")
    if c is None:
        r = rep.rule("C10.ANCHOR", 0, "crate present")
        r.lost("pest facts")
        return
    checked(rep, c)
    subspan(rep, c)
    indexscope(rep, c)
    lineof(rep, c)
    colunit(rep, c)
    pairpos(rep, c)
    linestop(rep, c)
    gutter(rep, c)
    marker(rep, c)
    colsub(rep)
    linetext(rep, c)
    merge(rep, c)
    linecursor(rep, c)
    locsource(rep, c)
    storedline(rep, c)


# ------------------------------------------------------------------ CHECKED

def str_get_over(n, params):
    """n is `input.get(<range over parameters only>)`: the set of parameter ids used in the range, else None."""
    n = peel(n)
    if not (kind(n) == "MethodCall" and n.get("path") == "core::str::<impl str>::get" and n["args"]):
        return None
    rng = peel(n["args"][0])
    if kind(rng) != "Struct" or not str(rng.get("path", "")).startswith("core::ops::range::Range"):
        return None
    used = set()
    for f in rng["fields"]:
        e = peel(f["e"])
        if kind(e) == "Path" and e.get("res") == "local" and e["id"] in params:
            used.add(e["id"])
        else:
            return None
    return used


def checked(rep, c):
    r = rep.rule("C10.CHECKED", 2,
                 "the public checked constructors (functions of Position / Span that take offsets and return Option<Self>) "
                 "build Self only where `input.get(<range of exactly the offsets stored>)` has succeeded: std's str::get is "
                 "the test 'ordered UTF-8 boundary offsets inside the input'")
    n = 0
    for b in c.bodies:
        if b.get("impl_self") not in (POSITION, SPAN) or b.get("body") is None or b.get("exp"):
            continue
        if not b.get("exported") or not str(b.get("output", "")).startswith("core::option::Option<" + b["impl_self"]):
            continue
        if "usize" not in b.get("inputs", []) or not b["inputs"] or "str" not in b["inputs"][0]:
            continue   # sub-span helpers taking ranges relative to self are covered by BOUNDARY
        n += 1
        key = b["path"].replace("pest::", "")
        r.instance(key, where(b["body"]))
        params = set(p["id"] for p in b["params"] if p.get("k") == "PBind" and p.get("ty") == "usize")
        ctx = hirq.Ctx(b)
        lits = [x for x in walk(b["body"]) if kind(x) == "Struct" and x.get("path") == b["impl_self"]]
        if not lits:
            r.violation(key, where(b["body"]), "no literal construction of Self found: constructor not understood")
            continue
        for lit in lits:
            stored = set()
            for f in lit["fields"]:
                e = peel(f["e"])
                if kind(e) == "Path" and e.get("res") == "local" and e["id"] in params:
                    stored.add(e["id"])
            ok = False
            # (a) inside the closure of `input.get(range).map(|_| Self {..})`
            for (a, k2, i) in ctx.ancestors(lit):
                if a.get("k") == "MethodCall" and a["m"] in ("map", "and_then") and k2 == "args":
                    used = str_get_over(a["recv"], params)
                    if used is not None and used == stored:
                        ok = True
            # (b) under a guard that establishes the get succeeded
            for g in ctx.guards(lit):
                cnd = None
                if g[0] == "if" and g[2] is True:
                    cnd = peel(g[1])
                    if kind(cnd) == "MethodCall" and cnd["m"] == "is_some":
                        used = str_get_over(cnd["recv"], params)
                        if used is not None and used == stored:
                            ok = True
                    if kind(cnd) == "LetExpr":
                        used = str_get_over(cnd["init"], params)
                        if used is not None and used == stored and any(v.endswith("Option::Some") for v in hirq.pat_variants(cnd["pat"])):
                            ok = True
                if g[0] == "if" and g[2] is False:
                    cnd = peel(g[1])
                    neg = kind(cnd) == "Unary" and cnd["op"] == "!"
                    inner = peel(cnd["e"]) if neg else cnd
                    if kind(inner) == "MethodCall" and inner["m"] == ("is_some" if neg else "is_none"):
                        used = str_get_over(inner["recv"], params)
                        if used is not None and used == stored:
                            ok = True   # the else branch of `if input.get(..).is_none()`
                if g[0] == "not":
                    cnd = peel(g[1])
                    if kind(cnd) == "MethodCall" and cnd["m"] == "is_none":
                        used = str_get_over(cnd["recv"], params)
                        if used is not None and used == stored:
                            ok = True
                if g[0] == "arm":
                    used = str_get_over(g[1]["scrut"], params)
                    if used is not None and used == stored and any(
                            v.endswith("Option::Some") for v in hirq.pat_variants(g[1]["arms"][g[2]]["pat"])):
                        ok = True
                if g[0] == "let" and g[1].get("init") is not None:
                    init = peel(g[1]["init"])
                    inner = init["scrut"]["args"][0] if kind(init) == "Match" and init.get("src") == "try" and \
                        kind(init["scrut"]) == "Call" and init["scrut"]["args"] else None
                    used = str_get_over(inner, params) if inner is not None else None
                    if used is not None and used == stored:
                        ok = True
            # (c) the same test spelled out: `a <= b && input.is_char_boundary(a) && input.is_char_boundary(b)`
            #     (is_char_boundary is false past the end of the input), as an `if` condition or as the receiver of
            #     `cond.then_some(Self {..})` / `cond.then(|| Self {..})`
            lets_b = hirq.lets(b["body"])

            def spelled(cnd):
                cnd = peel(cnd)
                hops = 0
                while kind(cnd) == "Path" and cnd.get("res") == "local" and cnd["id"] in lets_b and hops < 3:
                    cnd = peel(lets_b[cnd["id"]][0])
                    hops += 1
                cjs, stack = [], [cnd]
                while stack:
                    x = peel(stack.pop())
                    if kind(x) == "Binary" and x["op"] == "&&":
                        stack += [x["l"], x["r"]]
                    else:
                        cjs.append(x)
                bounded = set()
                ordered = False
                for x in cjs:
                    if kind(x) == "MethodCall" and x["m"] == "is_char_boundary" and x["args"]:
                        lid = hirq.local_id(x["args"][0])
                        if lid in params:
                            bounded.add(lid)
                    if kind(x) == "Binary" and x["op"] in ("<=", ">="):
                        l, rr = hirq.local_id(x["l"]), hirq.local_id(x["r"])
                        if l in params and rr in params and l != rr:
                            ordered = True
                return bounded == stored and (ordered or len(stored) < 2) and len(stored) > 0
            for g in ctx.guards(lit):
                if g[0] == "if" and g[2] is True and spelled(g[1]):
                    ok = True
            for (a, k2, i) in ctx.ancestors(lit):
                if a.get("k") == "MethodCall" and a["m"] in ("then_some", "then") and k2 == "args" and spelled(a["recv"]):
                    ok = True
            if not ok:
                # `input.get(pos..)?;` as a statement of its own before the literal: decided path by path
                try:
                    reach = [ev for (ev, o) in hirq.exits(hirq.PathEnum(b).paths()) if any(e.node is lit for e in ev)]
                    ok = bool(reach) and all(hirq.option_outcome(
                        ev, lambda y: str_get_over(y, params) is not None and str_get_over(y, params) == stored) == "some"
                        for ev in reach)
                except hirq.TooManyPaths:
                    ok = False
            if not ok:
                r.violation(key, where(lit),
                            "%s builds %s from its offset parameters on a path where `input.get(..)` over exactly those "
                            "offsets has not succeeded: offsets that are unordered, out of range or inside a multi-byte "
                            "character are accepted" % (b["name"], b["impl_self"].split("::")[-1]))
    if n < 2:
        r.lost("checked constructors Position::new / Span::new")


# ------------------------------------------------------------------ SUBSPAN

def subspan(rep, c):
    r = rep.rule("C10.SUBSPAN", 1,
                 "a sub-span taken relative to a span (Span::get) is validated against the span's own text "
                 "(`self.as_str().get(range)`), not against the whole input: a range that runs past the span's end must "
                 "be refused even when the input is long enough")
    n = 0
    for b in c.bodies:
        if b.get("impl_self") != SPAN or b.get("body") is None or b.get("exp") or not b.get("exported"):
            continue
        if not str(b.get("output", "")).startswith("core::option::Option<" + SPAN) or not b["inputs"] \
                or "Span" not in b["inputs"][0]:
            continue
        n += 1
        key = b["name"]
        r.instance(key, where(b["body"]))
        gets = [x for x in walk(b["body"]) if kind(x) == "MethodCall" and x.get("path") == "core::str::<impl str>::get"]
        own = []
        blets = hirq.lets(b["body"])
        for g in gets:
            rc = peel(g["recv"])
            if kind(rc) == "Path" and rc.get("res") == "local" and rc["id"] in blets:
                rc = peel(blets[rc["id"]][0])          # `let text = self.as_str(); text.get(..)`
            if kind(rc) == "Match" and rc.get("src") == "try" and kind(rc.get("scrut")) == "Call" and rc["scrut"]["args"] \
                    and any(peel(rc["scrut"]["args"][0]) is o for o in own):
                own.append(g)     # `text.get(..end)?.get(start..)`: a cut of what the first cut left
                continue
            if kind(rc) == "MethodCall" and rc.get("path") == SPAN + "::as_str":
                own.append(g)
            elif kind(rc) == "Index" and kind(peel(rc["base"])) == "Field" and peel(rc["base"])["name"] == "input":
                own.append(g)     # &self.input[self.start..self.end]
        if not own:
            r.violation(key, where(b["body"]), "Span::%s does not validate the requested range with `get` on the span's own "
                        "text: Span(0,2).get(0..7) of a longer input succeeds and yields a span outside its parent" % key)
            continue
        ctx = hirq.Ctx(b)
        builds = [x for x in walk(b["body"]) if (kind(x) == "Struct" and x.get("path") == SPAN) or (
            kind(x) == "Call" and str(callee(x)).startswith(SPAN + "::new"))]
        for x in builds:
            ok = False
            for (a, k2, i) in ctx.ancestors(x):
                if a.get("k") == "MethodCall" and a["m"] in ("map", "and_then") and k2 == "args" and any(peel(a["recv"]) is g for g in own):
                    ok = True
            for g in ctx.guards(x):
                if g[0] in ("if", "let", "arm", "not"):
                    node = g[1] if g[0] != "let" else g[1].get("init")
                    if node is not None and any(y is o for y in walk(node if g[0] != "arm" else g[1]["scrut"]) for o in own):
                        ok = True
            if not ok:
                # `text.get(range)?;` as a statement of its own before the literal: decided path by path
                try:
                    reach = [ev for (ev, o) in hirq.exits(hirq.PathEnum(b).paths()) if any(e.node is x for e in ev)]
                    ok = bool(reach) and all(hirq.option_outcome(ev, lambda y: any(y is o for o in own)) == "some" for ev in reach)
                except hirq.TooManyPaths:
                    ok = False
            if not ok:
                r.violation(key, where(x), "Span::%s builds the sub-span on a path where `get` on the span's own text has "
                            "not succeeded" % key)
    if n == 0:
        r.lost("Span::get (a method of Span returning Option<Span>)")


# ------------------------------------------------------------------ INDEXSCOPE

def indexscope(rep, c):
    r = rep.rule("C10.INDEXSCOPE", 3,
                 "the line index of a Pairs covers every position its pairs can have: `pairs::new` builds a prefix-only "
                 "index (up to the last token) when it is given None, which is right only for a queue produced by the "
                 "parser (positions never decrease); every other caller passes an index - an existing one, or one built "
                 "over the whole input")
    PN = "pest::iterators::pairs::new"
    n = 0
    for b in c.bodies:
        if b.get("body") is None or b.get("exp") or "::tests::" in b["path"]:
            continue
        for x in walk(b["body"]):
            if kind(x) == "Call" and callee(x) == PN and len(x["args"]) >= 3:
                n += 1
                a = peel(x["args"][2])
                key = b["path"].replace("pest::", "")
                lets = hirq.lets(b["body"])
                d = 0
                while d < 6 and kind(a) == "Path" and a.get("res") == "local" and a["id"] in lets:
                    a = peel(lets[a["id"]][0])
                    d += 1
                is_none = kind(a) == "Path" and a.get("path") == "core::option::Option::None"
                r.instance(key, where(x), "None" if is_none else "Some(..)")
                if is_none:
                    if b["path"] != "pest::parser_state::state":
                        r.violation(key, where(x), "%s asks pairs::new for the prefix-only line index, but its token queue is "
                                    "not the parser's: a pair that starts after the last token's position gets the line and "
                                    "column of an earlier line (Pair::line_col disagrees with Position::line_col)" % b["name"])
                    continue
                # Some(..): either an existing index (a line_index field / clone) or LineIndex::new over a whole input
                news = [y for y in walk(a) if kind(y) == "Call" and callee(y) == LINEINDEX + "::new"]
                for y in news:
                    arg = peel(y["args"][0])
                    if kind(arg) == "Index":
                        r.violation(key, where(y), "%s builds the line index over a slice of the input" % b["name"])
    if n < 3:
        r.lost("call sites of pairs::new")


# ------------------------------------------------------------------ LINEOF

def char_lits(n):
    return set(x.get("v") for x in walk(n) if x.get("k") in ("Lit", "PLit") and x.get("lk") == "char")


def lineof(rep, c):
    r = rep.rule("C10.LINEOF", 3,
                 "the line containing a position is delimited by the same character the line counters use: "
                 "find_line_start and find_line_end search for '\\n' only, and line_of returns exactly the slice of the "
                 "input between the two")
    lo = c.fn(POSITION + "::line_of")
    if lo is None:
        r.lost("Position::line_of")
        return
    # the two boundary searches: the callees of the range that line_of slices the input by
    slices = [x for x in walk(lo["body"]) if kind(x) == "Index" and kind(peel(x["idx"])) == "Struct"
              and str(peel(x["idx"]).get("path", "")).startswith("core::ops::range::Range")]
    bounds = []
    for s in slices:
        base = peel(s["base"])
        f = {y["name"]: peel(y["e"]) for y in peel(s["idx"])["fields"]}
        if kind(base) == "Field" and base["name"] == "input" and set(f) == {"start", "end"} \
                and all(kind(v) == "MethodCall" and str(v.get("path", "")).startswith(POSITION + "::") for v in f.values()):
            bounds.append((f["start"]["path"], f["end"]["path"], s))
    r.instance("line_of:slice", where(lo["body"]))
    if len(bounds) != 1:
        r.violation("line_of:slice", where(lo["body"]), "line_of is not `&self.input[<line start>..<line end>]` with both "
                    "bounds computed by the boundary searches")
        return
    for which, path in (("start", bounds[0][0]), ("end", bounds[0][1])):
        fn = c.fn(path)
        key = "search:" + which
        if fn is None:
            r.lost("boundary search " + path)
            continue
        chars = char_lits(fn["body"])
        # a shared tail ("find the newline, then i + 1 or a default") may live in a helper of the same module
        for x in walk(fn["body"]):
            cal = callee(x) if kind(x) in ("Call", "MethodCall") else None
            h = c.fn(cal) if isinstance(cal, str) and cal.startswith("pest::position::") and cal != fn["path"] else None
            if h is not None and h.get("body") is not None and not h.get("exported"):
                chars |= char_lits(h["body"])
        r.instance(key, where(fn["body"]), "%s searches for %s" % (fn["name"], sorted(chars)))
        if chars != {"\n"}:
            r.violation(key, where(fn["body"]), "%s looks for %s, the line counters end a line at '\\n' only: the line shown "
                        "for a position is not the line its line number counts" % (fn["name"], sorted(chars)))


# ------------------------------------------------------------------ COLUNIT

def colunit(rep, c):
    r = rep.rule("C10.COLUNIT", 3,
                 "columns are counted in characters by both counters: LineIndex::line_col takes `chars().count()` of the "
                 "slice from the line start to the offset; Position::line_col adds exactly 1 to the column per character it "
                 "consumes and steps its byte cursor by that character's len_utf8 (1 for the ASCII line-break characters)")
    li = c.fn(LINEINDEX + "::line_col")
    if li is None:
        r.lost("LineIndex::line_col")
    else:
        counts = [x for x in walk(li["body"]) if kind(x) == "MethodCall" and x["m"] == "count"
                  and any(kind(y) == "MethodCall" and y["m"] == "chars" for y in walk(x["recv"]))]
        bytelens = [x for x in walk(li["body"]) if kind(x) == "MethodCall" and x["m"] == "len"
                    and "str" in str(x.get("rty", "")).replace("String", "str")]
        r.instance("index:unit", where(li["body"]), "%d chars().count(), %d str len()" % (len(counts), len(bytelens)))
        if not counts or bytelens:
            r.violation("index:unit", where(li["body"]), "the column of LineIndex::line_col is not a `chars().count()` "
                        "(%s): pairs report byte columns on lines with multi-byte characters while positions report "
                        "character columns" % ("uses str::len" if bytelens else "no chars().count() found"))
        # the counted slice runs from a line start taken from the table to the offset parameter
        pos = [p["id"] for p in li["params"] if p.get("k") == "PBind" and p.get("ty") == "usize"]
        lets = hirq.lets(li["body"])
        ok = False
        for cnt in counts:
            for x in walk(cnt["recv"]):
                if kind(x) == "Index" and kind(peel(x["idx"])) == "Struct":
                    f = {y["name"]: peel(y["e"]) for y in peel(x["idx"])["fields"]}
                    if set(f) == {"start", "end"} and hirq.local_id(f["end"]) in pos:
                        ok = True
            rc = peel(cnt["recv"])
            # `let line_str = &input[a..pos]; line_str.chars().count()`
            for y in walk(rc):
                if kind(y) == "Path" and y.get("res") == "local" and y["id"] in lets:
                    for x in walk(lets[y["id"]][0]):
                        if kind(x) == "Index" and kind(peel(x["idx"])) == "Struct":
                            f = {z["name"]: peel(z["e"]) for z in peel(x["idx"])["fields"]}
                            if set(f) == {"start", "end"} and hirq.local_id(f["end"]) in pos:
                                ok = True
        r.instance("index:slice", where(li["body"]))
        if counts and not ok:
            r.violation("index:slice", where(li["body"]), "the counted slice does not end at the requested offset")
    pl = c.fn(POSITION + "::line_col")
    if pl is None:
        r.lost("Position::line_col")
        return
    # the (line, col) updates, in the tuple-accumulator or the two-locals spelling
    from . import c04
    line_incs, col_steps = c04.linecol_updates(pl)
    if not line_incs and not col_steps:
        r.lost("(line, col) updates in Position::line_col")
        return
    bad = None
    for (n, step, col) in line_incs:
        if hirq.lit_value(peel(step)) != 1 or (col is not None and hirq.lit_value(peel(col)) != 1):
            bad = (n, "a line step is not (line + 1, 1)")
    for (n, step) in col_steps:
        s = peel(step)
        if kind(s) == "Binary" and s["op"] == "+":
            s = peel(s["r"])
        if hirq.lit_value(s) != 1:
            bad = (n, "a column step is not col + 1 (or the reset to 1)")
    r.instance("position:unit", where(pl["body"]), "%d line steps, %d column steps" % (len(line_incs), len(col_steps)))
    if bad:
        r.violation("position:unit", where(bad[0]), "Position::line_col: %s - columns are no longer a count of characters"
                    % bad[1])
    # the byte cursor is stepped by the consumed character's width
    steps = [n for n in walk(pl["body"]) if kind(n) == "AssignOp" and n.get("op") in ("-=", "-")]
    widths = set()
    for s in steps:
        rr = peel(s["r"])
        if kind(rr) == "MethodCall" and rr["m"] == "len_utf8":
            widths.add("len_utf8")
        elif hirq.lit_value(rr) in (1, 2):
            widths.add(hirq.lit_value(rr))
        elif kind(rr) == "If" and all(hirq.lit_value(peel(v)) in (1, 2) for v in hirq.tail_leaves(rr)):
            widths.update(hirq.lit_value(peel(v)) for v in hirq.tail_leaves(rr))   # the CR LF step: 1 at the very start, else 2
        else:
            widths.add("?")
    r.instance("position:cursor", where(pl["body"]), str(sorted(widths, key=str)))
    if not steps and any(kind(n) == "MethodCall" and n["m"] in ("fold", "for_each") and any(
            kind(y) == "MethodCall" and y["m"] == "chars" for y in walk(n["recv"])) for n in walk(pl["body"])):
        return      # no byte cursor at all: the walk is driven by the `chars()` iterator of the prefix itself
    if "len_utf8" not in widths or "?" in widths:
        r.violation("position:cursor", where(pl["body"]), "the byte cursor of Position::line_col is not stepped by the "
                    "consumed character's len_utf8: after a multi-byte character the walk is out of step with the text")


# ------------------------------------------------------------------ PAIRPOS

def pairpos(rep, c):
    r = rep.rule("C10.PAIRPOS", 1,
                 "Pair::line_col asks the line index about the position of the pair's own start token, in the pair's own "
                 "input")
    fn = c.fn(PAIR + "::line_col")
    if fn is None:
        r.lost("Pair::line_col")
        return
    calls = [x for x in walk(fn["body"]) if kind(x) == "MethodCall" and x.get("path") == LINEINDEX + "::line_col"]
    r.instance("call", where(fn["body"]))
    if len(calls) != 1:
        r.violation("call", where(fn["body"]), "Pair::line_col does not compute its answer by one LineIndex::line_col call")
        return
    call = calls[0]
    lets = hirq.lets(fn["body"])
    inp, pos = peel(call["args"][0]), call["args"][1]
    d = 0
    pos = peel(pos)
    while d < 6 and kind(pos) == "Path" and pos.get("res") == "local" and pos["id"] in lets:
        pos = peel(lets[pos["id"]][0])
        d += 1
    okin = kind(inp) == "Field" and inp["name"] == "input"
    okpos = False
    if kind(pos) in ("MethodCall", "Call"):
        args = hirq.call_args(pos)
        okpos = any(kind(peel(a)) == "Field" and peel(a)["name"] == "start" for a in args) and not any(
            kind(peel(a)) == "Field" and peel(a)["name"] == "end" for a in args)
        if not okpos and kind(pos) == "MethodCall":
            # `self.queue[self.start].input_pos()`: the token is picked by indexing with the start field
            idxs = [peel(y["idx"]) for y in walk(pos["recv"]) if kind(y) == "Index"]
            okpos = bool(idxs) and all(kind(i) == "Field" and i["name"] == "start" for i in idxs)
    elif kind(pos) == "Block" and pos.get("inlined"):
        args = hirq.call_like_args(pos) or []
        okpos = any(kind(peel(a)) == "Field" and peel(a)["name"] == "start" for a in args)
    if not okin:
        r.violation("call:input", where(call), "the index is asked about a text other than the pair's input")
    if not okpos:
        r.violation("call:position", where(call), "the offset passed to the index is not the position of the token at "
                    "`self.start` (the pair's start): line_col no longer describes where the pair begins")


def in_error_module(b):
    """a method of pest::error::Error or a function of the error module (or a private module nested in it)"""
    return b is not None and (b.get("impl_self") == "pest::error::Error" or str(b.get("path", "")).startswith("pest::error::")) \
        and "::tests::" not in str(b.get("path", ""))


# ------------------------------------------------------------------ LINESTOP

def linestop(rep, c):
    r = rep.rule("C10.LINESTOP", 1,
                 "the line iterator of a span stops exactly when its cursor is past span.end, or equals span.end after "
                 "at least one line was yielded (cursor > start): an empty span (cursor == start == end on the first "
                 "call) yields the line containing its offset, and a line that merely starts where a non-empty span ends "
                 "is not yielded.  Cursor, start and end are only compared, so the orderings are all the cases")
    fns = [b for b in c.bodies if (b.get("impl_self") == "pest::span::LinesSpan") and b.get("body") is not None and not b.get("exp")]
    if not fns:
        r.lost("impl of pest::span::LinesSpan")
        return

    def atom(e):
        e = peel(e)
        if kind(e) == "Field" and e["name"] in ("start", "end") and "Span" in e.get("bty", "") and "LinesSpan" not in e.get("bty", ""):
            return e["name"]
        if kind(e) == "Field" and "LinesSpan" in e.get("bty", "") and e.get("ty") == "usize":
            return "cursor"
        return None

    def ev(e, env):
        e = peel(e)
        k = kind(e)
        if k == "Binary" and e["op"] in ("&&", "||"):
            a, b = ev(e["l"], env), ev(e["r"], env)
            if a is None or b is None:
                return None
            return (a and b) if e["op"] == "&&" else (a or b)
        if k == "Unary" and e["op"] == "!":
            a = ev(e["e"], env)
            return None if a is None else (not a)
        if k == "Binary" and e["op"] in ("<", "<=", ">", ">=", "==", "!="):
            a, b = atom(e["l"]), atom(e["r"])
            if a is None or b is None:
                return None
            x, y = env[a], env[b]
            return {"<": x < y, "<=": x <= y, ">": x > y, ">=": x >= y, "==": x == y, "!=": x != y}[e["op"]]
        return None
    conds = []
    for fn in fns:
        for x in walk(fn["body"]):
            if kind(x) == "If" and hirq.diverges(x["then"]) and x.get("else") is None:
                if ev(x["cond"], {"start": 0, "cursor": 0, "end": 0}) is not None:
                    conds.append(x["cond"])
            if kind(x) == "Match":
                for arm in x["arms"]:
                    g = arm.get("guard")
                    if g is not None and ev(g, {"start": 0, "cursor": 0, "end": 0}) is not None and \
                            any(str(v).endswith("None") for y in hirq.tail_leaves(arm["body"]) for v in [y.get("path", "")]):
                        conds.append(g)
    if not conds:
        r.note("no comparison of the cursor with the span's bounds guards an early stop")
        r.floor = 0
        return
    cases = [(s, cu, e) for s in range(3) for cu in range(3) for e in range(3) if s <= e and s <= cu]
    names = {(-1, -1): "<", (0, 0): "="}
    for cnd in conds:
        r.instance("stop:%s" % hirq.expr_text(cnd)[:60], where(cnd))
    for (s, cu, e) in cases:
        env = {"start": s, "cursor": cu, "end": e}
        stop = any(ev(cnd, env) for cnd in conds)
        want = cu > e or (cu == e and cu > s)
        if stop != want:
            desc = "cursor %s end, cursor %s start" % ("<" if cu < e else ("==" if cu == e else ">"), "==" if cu == s else ">")
            key = "stop:" + desc.replace(" ", "")
            if want:
                r.violation(key, where(conds[0]),
                            "LinesSpan does not stop when %s: the line that starts exactly where a non-empty span ends is "
                            "yielded although the span does not cover it (\"ab\\ncd\"[0..3] gives two lines, and the error "
                            "rendering shows `cd` as a continued line)" % desc)
            else:
                r.violation(key, where(conds[0]),
                            "LinesSpan stops when %s: for an empty span (start == end) the first call already stops, so "
                            "lines()/lines_span() are empty and an error built from the span renders no line text, while "
                            "line_of at the same offset returns the line" % desc)
            break


# ------------------------------------------------------------------ GUTTER

def gutter(rep, c):
    r = rep.rule("C10.GUTTER", 1,
                 "the width of the line-number gutter of a rendered error is computed from BOTH line numbers of a span "
                 "location: the end line can have more digits than the start line (9 -> 10), and every row of the "
                 "rendering, including the marker rows, is indented by that one width")
    LCL = "pest::error::LineColLocation"
    cands = []
    for b in c.bodies:
        if not in_error_module(b) or b.get("body") is None or b.get("exp") or b.get("impl_trait"):
            continue
        if "String" not in str(b.get("output", b.get("ret", ""))) and "String" not in str(b["body"].get("ty", "")):
            continue
        # the gutter function: formats a number, takes the length of the text, returns a string of that many blanks
        has_len = any(kind(x) == "MethodCall" and x["m"] == "len" for x in walk(b["body"]))
        fmt = any((kind(x) in ("Call", "MethodCall")) and ("fmt::format" in str(callee(x)) or x.get("m") == "to_string"
                                                             or "format" in " ".join(x.get("exp") or []))
                  for x in walk(b["body"]))
        blanks = any(kind(x) == "Lit" and x.get("v") in (" ", "' '") for x in walk(b["body"])) or \
            any(kind(x) == "MethodCall" and x["m"] in ("repeat", "push") for x in walk(b["body"]))
        reads_other = any(kind(x) == "Field" and x["name"] in ("variant", "path", "line", "continued_line")
                          for x in walk(b["body"]))
        def sees_location(f, depth=0):
            if any(kind(x) == "Match" and "LineColLocation" in str(x.get("sty", "")) for x in walk(f["body"])):
                return True
            if depth < 1:
                for x in walk(f["body"]):
                    if kind(x) in ("Call", "MethodCall") and isinstance(callee(x), str):
                        h = c.fn(callee(x))
                        if in_error_module(h) and h is not f and h.get("body") is not None and sees_location(h, depth + 1):
                            return True
            return False
        if has_len and fmt and blanks and not reads_other and sees_location(b):
            cands.append(b)
    if not cands:
        r.lost("the gutter-width function of pest::error::Error (formats a line number, returns that many blanks)")
        return
    for b in cands:
        r.instance(b["name"], where(b["body"]))

        def span_arm_uses(fn, depth=0):
            """For matches on LineColLocation reachable from fn: does the Span arm use a binding from each of its
            two tuple halves?  Returns list of (arm, ok)."""
            out = []
            for x in walk(fn["body"]):
                if kind(x) == "Match":
                    for arm in x["arms"]:
                        if any(str(v).startswith(LCL + "::Span") for v in hirq.pat_variants(arm["pat"])):
                            subs = [q for q in walk(arm["pat"]) if q.get("k") == "PTupleStruct" or q.get("k") == "PTS"]
                            halves = None
                            for q in walk(arm["pat"]):
                                ps = q.get("pats") or q.get("subs")
                                if isinstance(ps, list) and len(ps) == 2 and any(
                                        str(v).startswith(LCL + "::Span") for v in hirq.pat_variants(q)) and halves is None:
                                    halves = ps
                            if halves is None:
                                out.append((arm, False))
                                continue
                            used = []
                            for h in halves:
                                ids = set(bid for (bid, nm) in hirq.pat_bindings(h))
                                used.append(any(hirq.local_id(y) in ids for y in walk(arm["body"])))
                            out.append((arm, all(used)))
                if kind(x) in ("Call", "MethodCall") and depth < 2:
                    h = c.fn(callee(x)) if isinstance(callee(x), str) else None
                    if h is not None and in_error_module(h) and h is not fn and h.get("body") is not None:
                        out += span_arm_uses(h, depth + 1)
            return out
        arms = span_arm_uses(b)
        if not arms:
            r.violation(b["name"] + ":no-span-arm", where(b["body"]),
                        "%s does not look at the span form of the location at all" % b["name"])
        for (arm, ok) in arms:
            if not ok:
                r.violation(b["name"] + ":one-line", where(arm["pat"]),
                            "the gutter width is derived from one end of the span location only: when the other line "
                            "number has more digits (a span from line 9 to line 10) the rows of the rendering are "
                            "indented by different amounts and the marker is no longer under the reported column")


# ------------------------------------------------------------------ MARKER

def marker(rep, c):
    r = rep.rule("C10.MARKER", 1,
                 "in the function that draws the marker row, the column the marker starts under is the reported start "
                 "column unless the end column is strictly smaller: every write to that column is dominated by a "
                 "comparison with the end column that is false for start <= end (start and end are only compared, so "
                 "the three orderings <, =, > are all the cases there are)")
    # the function that yields the reported (line, column) of the start: returns a pair and matches on the location
    starts = set()
    for b in c.bodies:
        if not in_error_module(b) or b.get("body") is None or b.get("exp") or b.get("impl_trait"):
            continue
        if str(b["body"].get("ty", "")).replace(" ", "") == "(usize,usize)" and any(
                kind(x) == "Match" and "LineColLocation" in str(x.get("sty", "")) for x in walk(b["body"])):
            starts.add(b["path"])

    def calls_start(e):
        return any(kind(x) in ("Call", "MethodCall") and callee(x) in starts for x in walk(e))
    cands = []
    for b in c.bodies:
        if not in_error_module(b) or b.get("body") is None or b.get("exp") or b.get("impl_trait"):
            continue
        if any(kind(x) == "Lit" and x.get("v") in ("^", "'^'") for x in walk(b["body"])) and (calls_start(b["body"]) or any(
                kind(x) == "Match" and "LineColLocation" in str(x.get("sty", "")) for x in walk(b["body"]))):
            cands.append(b)
    if not cands:
        r.lost("the marker-row function of pest::error::Error (pushes '^', reads self.start())")
        return
    for b in cands:
        lets = hirq.lets(b["body"])
        modes = hirq.binding_modes(b)
        ctx = hirq.Ctx(b)
        # the mutable local holding the start column
        cols = [lid for lid, (init, st) in lets.items() if init is not None and modes.get(lid) and calls_start(init)]
        if not cols:
            r.instance(b["name"] + ":immutable", where(b["body"]), "the start column is never rewritten")
            # the value spelling: the function takes the location apart itself and picks the marker's columns by
            # comparing the two column bindings of the Span pattern - that comparison must be strict
            for m in walk(b["body"]):
                if not (kind(m) == "Match" and "LineColLocation" in str(m.get("sty", ""))):
                    continue
                for arm in m["arms"]:
                    if not any(str(v).endswith("LineColLocation::Span") for v in hirq.pat_variants(arm["pat"])):
                        continue
                    ids = set(bid for (bid, _nm) in hirq.pat_bindings(arm["pat"]))
                    for x in walk(arm["body"]):
                        if kind(x) == "Binary" and x["op"] in ("<", ">", "<=", ">=") and hirq.local_id(x["l"]) in ids \
                                and hirq.local_id(x["r"]) in ids:
                            key = "%s:order" % b["name"]
                            r.instance(key, where(x), hirq.expr_text(x)[:40])
                            if x["op"] in ("<=", ">="):
                                r.violation(key, where(x),
                                            "%s chooses the marker's columns under `%s`, which also holds when the end "
                                            "column equals the start column: for an empty span the marker is moved left "
                                            "of the reported column" % (b["name"], hirq.expr_text(x)[:40]))
            continue
        col = cols[0]
        writes = []
        for x in walk(b["body"]):
            if kind(x) in ("Assign", "AssignOp") and hirq.local_id(x["l"]) == col:
                writes.append(x)
            if kind(x) == "AddrOf" and x.get("mut") and hirq.local_id(x["e"]) == col:
                writes.append(x)
        for w in writes:
            key = "%s:%s" % (b["name"], kind(w))
            r.instance(key, where(w), hirq.expr_text(w)[:40])
            strict = False
            for g in ctx.guards(w):
                if not (g[0] == "if" and g[2] is True or g[0] == "guard"):
                    continue
                stack = [g[1]]
                while stack:
                    cnd = peel(stack.pop())
                    d = 0
                    while d < 3 and kind(cnd) == "Path" and cnd.get("res") == "local" and cnd["id"] in lets and not modes.get(cnd["id"]):
                        cnd = peel(lets[cnd["id"]][0])
                        d += 1
                    if kind(cnd) == "Binary" and cnd["op"] == "&&":
                        stack += [cnd["l"], cnd["r"]]
                        continue
                    if kind(cnd) == "Binary" and cnd["op"] in ("<", ">"):
                        l, rr, op = peel(cnd["l"]), peel(cnd["r"]), cnd["op"]
                        if op == "<":
                            l, rr, op = rr, l, ">"
                        if hirq.local_id(l) == col and hirq.local_id(rr) is not None and hirq.local_id(rr) != col:
                            strict = True
            if not strict:
                r.violation(key, where(w),
                            "%s rewrites the marker's start column under a test that can hold when start <= end (it is "
                            "not a strict `start > end`): for a span whose end column equals its start column (an empty "
                            "span) the marker is moved left of the reported column" % b["name"])


# ------------------------------------------------------------------ COLSUB

def colsub(rep):
    r = rep.rule("C10.COLSUB", 1,
                 "wherever the two columns of a span location are subtracted, the function also compares them (or "
                 "subtracts with saturating / checked arithmetic): the end column of a multi-line span can be smaller "
                 "than its start column, and an unguarded `end - start` on usize overflows (a panic in builds with "
                 "overflow checks) while drawing the marker or building a diagnostic label.  Feature configuration "
                 "with every renderer compiled in (pretty-print, miette-error)")
    c = facts.facts("pestall").crate("pest")
    if c is None:
        r.lost("pest facts (all features)")
        return
    LCL = "pest::error::LineColLocation"
    n = 0
    for b in c.bodies:
        if b.get("body") is None or b.get("exp") or "::tests::" in b["path"] or "pest::error" not in b["path"]:
            continue
        # bindings of the two halves of a Span pattern
        first, second = set(), set()
        pats = []
        for x in walk(b["body"]):
            if kind(x) == "Match":
                pats += [arm["pat"] for arm in x["arms"]]
            elif isinstance(x.get("pat"), dict):
                pats.append(x["pat"])
        for q in pats:
            if True:
                for sub in walk(q):
                    ps = sub.get("pats") or sub.get("subs")
                    if isinstance(ps, list) and len(ps) == 2 and any(str(v).startswith(LCL + "::Span") for v in hirq.pat_variants(sub)):
                        first |= set(bid for (bid, nm) in hirq.pat_bindings(ps[0]))
                        second |= set(bid for (bid, nm) in hirq.pat_bindings(ps[1]))
        if not second:
            continue
        lets = hirq.lets(b["body"])

        def origin(e, depth=0):
            """'first' / 'second' / 'start-fn' if e is (a local initialised from) a column of that half"""
            e = peel(e)
            lid = hirq.local_id(e)
            if lid is None or depth > 3:
                return None
            if lid in first:
                return "first"
            if lid in second:
                return "second"
            if lid in lets and lets[lid][0] is not None:
                init = peel(lets[lid][0])
                if kind(init) == "Field" or kind(init) in ("Call", "MethodCall"):
                    if any(kind(y) in ("Call", "MethodCall") and str(callee(y)).split("::")[-1] == "start" for y in walk(init)):
                        return "first"
                return origin(init, depth + 1)
            return None
        subs = []
        for x in walk(b["body"]):
            if kind(x) == "Binary" and x["op"] == "-":
                a, bb = origin(x["l"]), origin(x["r"])
                if a and bb and a != bb:
                    subs.append(x)
        if not subs:
            continue
        compared = False
        for x in walk(b["body"]):
            if kind(x) == "Binary" and x["op"] in ("<", "<=", ">", ">="):
                a, bb = origin(x["l"]), origin(x["r"])
                if a and bb and a != bb:
                    compared = True
        for x in subs:
            n += 1
            key = "%s:%s" % (b["path"].replace("pest::error::", ""), hirq.expr_text(x)[:30].replace(" ", ""))
            r.instance(key, where(x), "compared in the same function: %s" % compared)
            if not compared:
                r.violation(key, where(x),
                            "`%s` subtracts the columns of a span location without ever comparing them: for a span that "
                            "ends on a later line in a smaller column (\"abcd\\nxy\" 3..6) the subtraction overflows" %
                            hirq.expr_text(x)[:40])
    if n == 0:
        r.note("no subtraction between the two columns of a span location")
        r.floor = 0


# ------------------------------------------------------------------ LINETEXT

def linetext(rep, c):
    r = rep.rule("C10.LINETEXT", 2,
                 "the line text an error carries is the input line minus its terminator only: the error constructors never "
                 "apply a whitespace trim (trim / trim_end / trim_start / split_whitespace) to it - the marker row is "
                 "padded with one blank per character of the stored line, so a line shortened by its trailing blanks puts "
                 "the marker left of the reported column")
    TRIMS = ("trim", "trim_end", "trim_start", "trim_ascii", "trim_ascii_end", "trim_ascii_start", "split_whitespace",
             "trim_right", "trim_left")
    probe = {"k": "MethodCall", "m": "trim_end", "recv": {"k": "Path"}, "args": []}
    if probe["m"] not in TRIMS:
        r.lost("self-test of the trim detector")
        return
    n = 0
    for b in c.bodies:
        if not in_error_module(b) or b.get("body") is None or b.get("exp") or not b.get("exported"):
            continue
        # the constructor and the private helpers of the error module it calls (depth 2): where the literal is built and
        # where the line text is prepared may have been moved out of the constructor itself
        scope, frontier = [b], [b]
        for _ in range(2):
            nxt = []
            for f in frontier:
                for (cal, _n) in hirq.call_sites(f["body"]):
                    h = c.fn(cal) if isinstance(cal, str) else None
                    if h is not None and in_error_module(h) and h.get("body") is not None and not h.get("exported") \
                            and not h.get("exp") and all(h is not s for s in scope):
                        scope.append(h)
                        nxt.append(h)
            frontier = nxt
        builds = any(kind(x) == "Struct" and str(x.get("path", "")).endswith(("error::Error", "error::ErrorInner"))
                     for s in scope for x in walk(s["body"]))
        reads_line = any(kind(x) == "MethodCall" and x["m"] in ("line_of", "lines", "lines_span") for x in walk(b["body"]))
        if not (builds and reads_line):
            continue
        n += 1
        key = b["path"].replace("pest::error::", "")
        r.instance(key, where(b["body"]), "%d function(s)" % len(scope))
        for x in (y for s in scope for y in walk(s["body"])):
            if kind(x) == "MethodCall" and x["m"] in TRIMS and "str" in str(x.get("path", "")):
                r.violation(key + ":" + x["m"], where(x),
                            "%s trims white space off the line text (`%s`): trailing blanks of the input line are part of "
                            "the line the marker is drawn under" % (b["name"], hirq.expr_text(x)[:40]))
    if n < 2:
        r.lost("the error constructors that read the input line (new_from_pos / new_from_span; found %d)" % n)


# ------------------------------------------------------------------ MERGE

def merge(rep, c):
    r = rep.rule("C10.MERGE", 1,
                 "merge_spans builds its result from the smaller of the two starts and the larger of the two ends (the "
                 "overlap test is symmetric, so the arguments can come in either order and one may contain the other): "
                 "each bound of the constructed span is computed from BOTH arguments")
    fn = c.fn("pest::span::merge_spans")
    if fn is None:
        r.lost("pest::span::merge_spans")
        return
    params = [p["id"] for p in fn["params"] if p.get("k") == "PBind"]
    if len(params) != 2:
        r.lost("two span parameters of merge_spans")
        return
    lets = hirq.lets(fn["body"])

    def mentions(e, depth=0):
        """parameter ids whose start/end the expression reads (through lets)"""
        out = set()
        for y in walk(e):
            if kind(y) == "Path" and y.get("res") == "local":
                if y["id"] in params:
                    out.add(y["id"])
                elif y["id"] in lets and lets[y["id"]][0] is not None and depth < 3:
                    out |= mentions(lets[y["id"]][0], depth + 1)
        return out
    ctors = [x for x in walk(fn["body"]) if (kind(x) == "Call" and str(callee(x)).startswith("pest::span::Span::new"))
             or (kind(x) == "Struct" and x.get("path") == SPAN)]
    if not ctors:
        r.lost("construction of the merged span")
        return
    for x in ctors:
        if kind(x) == "Call":
            args = x["args"]
            bounds = [("start", args[-2]), ("end", args[-1])] if len(args) >= 3 else []
        else:
            bounds = [(f["name"], f["e"]) for f in x["fields"] if f["name"] in ("start", "end")]
        for (nm, e) in bounds:
            m = mentions(e)
            r.instance("bound:" + nm, where(e), hirq.expr_text(e)[:50])
            if set(params) - m:
                r.violation("bound:" + nm, where(e),
                            "the %s of the merged span is `%s`, computed from one argument only: with the spans given in "
                            "reverse order, or one inside the other, the result does not cover both"
                            % (nm, hirq.expr_text(e)[:50]))


# ------------------------------------------------------------------ LINECURSOR

def linecursor(rep, c):
    r = rep.rule("C10.LINECURSOR", 1,
                 "find_line_start looks for the last line break strictly before the position itself: what its search "
                 "compares offsets with (or slices the input by) is `self.pos`, not a value computed from it - a clamped or "
                 "shifted cursor gives the previous line for the position just after a trailing newline, so line_of() "
                 "disagrees with line_col()")
    fn = c.fn(POSITION + "::find_line_start")
    if fn is None:
        r.lost("Position::find_line_start")
        return
    lets = hirq.lets(fn["body"])
    n = 0
    for x in walk(fn["body"]):
        cand = None
        if kind(x) == "Binary" and x["op"] in ("<", "<=", ">", ">=") and "usize" in (str(peel(x["l"]).get("ty", "")) + str(peel(x["r"]).get("ty", ""))):
            # `i >= <cursor>` inside the search closure
            for s in (x["l"], x["r"]):
                s0 = peel(s)
                if kind(s0) == "Field" and s0["name"] == "pos":
                    cand = s0
                elif kind(s0) == "Path" and s0.get("res") == "local" and s0["id"] in lets:
                    cand = s0
        elif kind(x) == "Index" and "str" in str(peel(x["base"]).get("ty", "")):
            for y in walk(x["idx"]):
                y0 = peel(y)
                if (kind(y0) == "Field" and y0["name"] == "pos") or (kind(y0) == "Path" and y0.get("res") == "local" and y0["id"] in lets):
                    cand = y0
        if cand is None:
            continue
        src = cand
        hops = 0
        while kind(src) == "Path" and src.get("res") == "local" and src["id"] in lets and hops < 3:
            src = peel(lets[src["id"]][0])
            hops += 1
        if not any(kind(y) == "Field" and y["name"] == "pos" for y in walk(src)):
            continue        # not derived from the position at all (a loop index etc.)
        n += 1
        r.instance("cursor:%s" % hirq.expr_text(cand)[:20], where(x))
        if not (kind(src) == "Field" and src["name"] == "pos"):
            r.violation("cursor:computed", where(x),
                        "find_line_start searches back from `%s`, a value computed from the position, not from the position: "
                        "at the end of an input that ends in a newline it reports the previous line's start"
                        % hirq.expr_text(src)[:50])
    if n == 0:
        r.note("find_line_start does not compare offsets with the position")
        r.floor = 0


# ------------------------------------------------------------------ LOCSOURCE

LCL = "pest::error::LineColLocation"


def locsource(rep, c):
    r = rep.rule("C10.LOCSOURCE", 4,
                 "who may compute a reported (line, column): every pair put into a LineColLocation (the `line_col` an "
                 "error reports, and the public From<Position> / From<Span> conversions) is the result of "
                 "Position::line_col - adjusted at most by integer constants - and never a second computation from "
                 "lengths or counts of the text; in the Span form the first pair comes from the start of the span and "
                 "the second from its end")
    from .. import prov
    P = prov.Prov(c)

    def is_line_col(fn, e):
        return kind(e) in ("Call", "MethodCall") and callee(e) == POSITION + "::line_col"

    def through(fn, e):
        k = kind(e)
        if k == "Tup":
            return e["elems"]
        if k == "Field" and e["name"] in ("0", "1"):
            return [e["base"]]
        if k == "Binary" and e["op"] in ("+", "-"):
            return [e["l"], e["r"]]
        return None

    def which_end(fn, recv):
        ends = set()
        for (f, n, note) in P.sources(fn, recv):
            if kind(n) == "MethodCall" and n["m"] in ("start_pos", "end_pos"):
                ends.add(n["m"][:-4])
            elif note.startswith("destructured:") and kind(peel(n)) == "MethodCall" and peel(n)["m"] == "split":
                ends.add({"0": "start", "1": "end"}.get(note.split(":")[1], "?"))
            else:
                ends.add("?")
        return ends

    n_sites = 0
    for b in c.bodies:
        if b.get("exp") or "::tests::" in str(b.get("path", "")) or b.get("body") is None:
            continue
        called = set()
        for x in walk(b["body"]):
            if kind(x) == "Call" and str(callee(x)).startswith(LCL + "::"):
                called.add(id(peel(x["f"])))
        for x in walk(b["body"]):
            if kind(x) == "Path" and x.get("res") == "def" and str(x.get("path", "")).startswith(LCL + "::") \
                    and str(x.get("dk", "")).startswith("Ctor") and id(x) not in called and not x.get("exp"):
                key = "%s:%s:value" % (short(b), x["path"].split("::")[-1])
                r.instance(key, where(x))
                r.violation(key, where(x), "a LineColLocation constructor is used as a function value: the pairs it is "
                            "given cannot be traced to Position::line_col")
                n_sites += 1
            if not (kind(x) == "Call" and str(callee(x)).startswith(LCL + "::")) or x.get("exp") or peel(x["f"]).get("exp"):
                continue
            variant = callee(x).split("::")[-1]
            n_sites += 1
            for i, a in enumerate(x["args"]):
                key = "%s:%s:%d" % (short(b), variant, i)
                srcs = P.sources(b, a, stop=is_line_col, through=through)
                r.instance(key, where(a), "%d source(s)" % len(srcs))
                foreign = [(f, n, note) for (f, n, note) in srcs
                           if note != "stop" and not (kind(n) == "Lit" and isinstance(hirq.lit_value(n), int))]
                if foreign or not any(note == "stop" for (_f, _n, note) in srcs):
                    f, n, note = foreign[0] if foreign else (b, a, "no line_col call")
                    r.violation(key, where(n), "the %s pair of LineColLocation::%s in %s is computed from `%s` and not "
                                "(only) by Position::line_col: a second line/column computation beside the checked one "
                                "(byte lengths and counted newlines disagree with it on multi-byte text and at CR LF)"
                                % (("first", "second")[min(i, 1)], variant, short(b), hirq.expr_text(n)[:80]))
                    continue
                if variant == "Span" and len(x["args"]) == 2:
                    ends = set()
                    for (f, n, note) in srcs:
                        if note == "stop":
                            recv = n["recv"] if kind(n) == "MethodCall" else (n["args"][0] if n["args"] else None)
                            if recv is not None:
                                ends |= which_end(f, recv)
                    want, other = ("start", "end") if i == 0 else ("end", "start")
                    if other in ends and want not in ends:
                        r.violation(key, where(a), "the %s pair of LineColLocation::Span in %s is taken from the %s of "
                                    "the span" % (("first", "second")[i], short(b), other))
    if n_sites < 4:
        r.lost("construction sites of LineColLocation (found %d, the From<Position>, From<Span>, new_from_pos and "
               "new_from_span sites were confirmed by hand)" % n_sites)


def short(b):
    p = str(b.get("path", ""))
    if p.startswith("<"):
        return p.split(" as ")[0].lstrip("<").split("::")[-1] + "::" + p.split("::")[-1] + \
            ("<" + "".join(ch for ch in str((b.get("inputs") or ["?"])[0]).split("::")[-1] if ch.isalnum())[:12] + ">")
    return p.split("::")[-1]


# ------------------------------------------------------------------ STOREDLINE

def storedline(rep, c):
    r = rep.rule("C10.STOREDLINE", 2,
                 "the line texts an error stores (ErrorInner.line / continued_line, printed verbatim between the gutter "
                 "rows) have had their line-break characters rewritten - made visible or removed - on every path: a "
                 "stored raw '\\n' / '\\r\\n' puts a gutter-less row between the reported line and its marker row")
    from .. import prov
    P = prov.Prov(c)

    def replaced_chars(e):
        chars = set()
        e = peel(e)
        while kind(e) == "MethodCall":
            if e["m"] == "replace" and e["args"]:
                for y in walk(e["args"][0]):
                    if kind(y) == "Lit" and isinstance(y.get("v"), str):
                        chars.update(y["v"])
            e = peel(e["recv"])
        return chars

    def sanitiser_fn(path, depth=0):
        f = c.fn(path)
        if f is None or f.get("body") is None or depth > 2:
            return False
        vals = hirq.tail_leaves(f["body"])
        return bool(vals) and all({"\r", "\n"} <= replaced_chars(v) or
                                  (kind(peel(v)) == "Call" and isinstance(callee(peel(v)), str)
                                   and sanitiser_fn(callee(peel(v)), depth + 1)) for v in vals)

    def stop(fn, e):
        k = kind(e)
        if k == "MethodCall" and e["m"] == "replace":
            return {"\r", "\n"} <= replaced_chars(e)
        if k == "Call" and isinstance(callee(e), str):
            return sanitiser_fn(callee(e))
        if k == "Path" and e.get("res") == "def" and e.get("dk") in ("Fn", "AssocFn"):
            return sanitiser_fn(e["path"])
        return False

    n = 0
    for b in c.bodies:
        if b.get("exp") or "::tests::" in str(b.get("path", "")) or b.get("body") is None or not in_error_module(b):
            continue
        for x in walk(b["body"]):
            if not (kind(x) == "Struct" and str(x.get("path", "")).split("::")[-1] == "ErrorInner"
                    and str(x.get("ty", x.get("path", ""))).startswith("pest::error::")):
                continue
            for f in x["fields"]:
                if f["name"] not in ("line", "continued_line"):
                    continue
                n += 1
                key = "%s:%s" % (short(b), f["name"])
                srcs = P.sources(b, f["e"], stop=stop)
                r.instance(key, where(f["e"]), "%d source(s)" % len(srcs))
                for (fn, nd, note) in srcs:
                    if note == "stop":
                        continue
                    if kind(nd) == "Path" and str(nd.get("path", "")).endswith("Option::None"):
                        continue
                    r.violation(key, where(nd), "on one path %s stores `%s` as the error's %s without rewriting its line "
                                "breaks: Display prints a raw line break inside the block and the marker row is no longer "
                                "under the reported line" % (short(b), hirq.expr_text(nd)[:80], f["name"]))
                    break
            # functional update `..base` would carry lines over unseen
    if n < 2:
        r.lost("ErrorInner construction sites (found %d line fields; a literal with `line` and `continued_line` was "
               "confirmed by hand in new_from_pos and new_from_span)" % n)
