"""C04 — the token stream is a well-formed tree and every Pairs view agrees (DESIGN.md section 4, C04).

Decided structural clauses:
  CTOR    who may construct queue tokens / mutate ParserState.queue
  LINK    both token constructors follow the Start/End linking protocol
  WINDOW  every (start, end) handed to pairs::new / tokens::new / flat_pairs::new denotes whole pairs
          under the half-open convention
  GUARD   every evaluation that needs a non-empty window sits under a guard establishing start < end
  COUNT   the cached pair count is decremented exactly once on every window-moving path
  LINEBREAK  the two line counters (LineIndex for pairs, Position::line_col for spans/errors) break lines
          on the same character
"""
from .. import facts, hirq
from ..hirq import walk, kind, callee, where, peel, PathEnum, exits

LEVEL = "other"

# "Every successful parse yields a balanced, properly nested token stream" is produced by ParserState: rule() pushes and
# links Start/End, rule()/sequence() truncate on failure, look-aheads may not write the queue. Those clauses are decided
# by C03's RULE / REWIND / QUEUEW / SNAP rules, which are re-run here (parser_state.rs is an anchor of C04).
DEPENDS = [
    ("C03", {"configs": ["default"],
             "why": "token stream well-formedness is established by ParserState::rule / sequence / look-ahead"}),
]
PS = "pest::parser_state::ParserState"
QT = "pest::iterators::queueable_token::QueueableToken"
PAIR = "pest::iterators::pair::Pair"
WINDOW_TYPES = ("pest::iterators::pairs::Pairs", "pest::iterators::flat_pairs::FlatPairs",
                "pest::iterators::tokens::Tokens")
CTORS = {"pest::iterators::pairs::new": (3, 4), "pest::iterators::tokens::new": (2, 3),
         "pest::iterators::flat_pairs::new": (3, 4)}

MANIFEST = {
    "technique": "index-kind (symbolic window) rule over constructor call sites, guard-context contradiction "
                 "rule, who-may-construct / who-may-write analysis, sibling-constructor protocol check (typed HIR)",
    "text": "Decides, for every token tree and every interleaving of iterator calls, four structural necessary "
            "conditions: queue tokens are built only by ParserState::rule and the PairsBuilder flattener, both "
            "with the same Start/End linking protocol; every window passed to a Pairs/Tokens/FlatPairs "
            "constructor is a concatenation of whole pairs in half-open form; every expression that requires a "
            "non-empty window (end - 1, the first pair's Start) is evaluated only under a guard that "
            "establishes start < end. Agreement of the computed values (len after next_back, line/col) is not "
            "decided.",
    "note": "Necessary conditions; relies on C03.RULE for balance of the parser-produced stream. Pretty-print "
            "(serde) impls are analysed in the pestall configuration.",
}


def run(rep, tier):
    rep.explanation = (
        "Symbolic index-kind analysis: window arguments are resolved through lets and the helper that returns "
        "a pair's End index to one of the forms {0, queue.len(), Start(p), Start(p)+1, End(p), End(p)+1, "
        "window.start, window.end}; only combinations denoting whole pairs under the half-open convention are "
        "accepted. Guard rule: every site needing start < end is matched with an enclosing if, a preceding "
        "early return, or `peek()?` (whose summary is derived from its body).")
    configs = rep.cfgs(["default", "pestall"])
    rep.configs = configs
    for cfg in configs:
        c = facts.facts(cfg).crate("pest")
        sfx = "" if cfg == "default" else "@" + cfg
        ctor(rep, c, sfx)
        link(rep, c, sfx)
        window(rep, c, sfx)
        guard(rep, c, sfx)
        count(rep, c, sfx)
        linebreak(rep, c, sfx)
        leaftest(rep, c, sfx)
        lenstep(rep, c, sfx)
        scanbound(rep, c, sfx)
        if cfg == "pestall":
            serialspan(rep, c, sfx)


# ------------------------------------------------------------------ CTOR

def ctor(rep, c, sfx):
    r = rep.rule("C04.CTOR" + sfx, 9,
                 "QueueableToken is not exported; its variants are constructed only by ParserState::rule and the "
                 "PairsBuilder flattener; ParserState.queue is written only by rule, sequence, tag_node")
    adt = c.adt(QT)
    if adt is None:
        r.lost("QueueableToken")
        return
    r.instance("exported", where(adt), str(adt.get("exported")))
    if adt.get("exported"):
        r.violation("exported", where(adt), "QueueableToken is reachable from outside the crate: users can build "
                    "unbalanced token streams")
    builders = set()
    for b in c.bodies:
        for n in walk(b["body"]):
            if kind(n) == "Struct" and n.get("path", "").startswith(QT + "::") and not n.get("exp"):
                builders.add(b["path"])
                r.instance("construct:%s:%s" % (b["path"], n["path"].split("::")[-1]), where(n))
    allowed = {PS + "::rule"}
    for p in sorted(builders):
        fn = c.fn(p)
        # the builder flattener: a free fn of module pairs_builder that recurses on itself
        is_flattener = p.startswith("pest::iterators::pairs_builder::") and any(
            callee(n) == p for n in walk(fn["body"]))
        if p not in allowed and not is_flattener:
            r.violation("construct:" + p, where(fn["body"]), "queue tokens constructed outside ParserState::rule "
                        "and the PairsBuilder flattener")
    # writers of ParserState.queue
    allowed_w = {PS + "::rule", PS + "::sequence", PS + "::tag_node"}
    for b in c.bodies:
        ms = hirq.mutating_field_accesses(b["body"], "queue", "ParserState")
        for (x, how, pn) in ms:
            r.instance("write:%s:%s" % (b["path"], how.split("::")[-1]), where(x))
            if b["path"] not in allowed_w:
                r.violation("write:%s" % b["path"], where(x), "ParserState.queue mutated (%s) outside rule / "
                            "sequence / tag_node" % how)


# ------------------------------------------------------------------ LINK

def is_queue_len(n, lets=None):
    n = peel(n)
    return kind(n) == "MethodCall" and n.get("path") == "alloc::vec::Vec::len" and \
        ((hirq.place(n["recv"]) or (0, 0, ["?"]))[2][-1:] == ["queue"] or
         (hirq.place(n["recv"]) or ("", 0, []))[0] == "queue")


def link(rep, c, sfx):
    r = rep.rule("C04.LINK" + sfx, 2,
                 "sibling token constructors: s = queue.len() before push(Start); after the children "
                 "e = queue.len(), queue[s].end_token_index = e, then push(End{start_token_index: s})")
    sites = [b for b in c.bodies if any(kind(n) == "Struct" and n.get("path") == QT + "::End" and not n.get("exp")
                                       for n in walk(b["body"]))]
    for fn in sites:
        lets = hirq.lets(fn["body"])
        pe = PathEnum(fn)
        checked = 0
        ctx = hirq.Ctx(fn)
        starts = [n for n in walk(fn["body"]) if kind(n) == "Struct" and n.get("path") == QT + "::Start"]
        conditional_start = bool(starts) and all(any(g[0] == "if" for g in ctx.guards(s)) for s in starts)
        for n_ in walk(fn["body"]):
            if kind(n_) == "Struct" and str(n_.get("path", "")).startswith(QT + "::") and not n_.get("exp"):
                r.instance("site:%s:%s" % (fn["path"].split("::")[-1], n_["path"].split("::")[-1]), where(n_))
        for (ev, out) in exits(pe.paths()):
            ei = hirq.index_of(ev, lambda e: e.kind == "struct" and e.node.get("path") == QT + "::End")
            if ei < 0:
                continue
            checked += 1
            si = hirq.index_of(ev, lambda e: e.kind == "struct" and e.node.get("path") == QT + "::Start")
            key = fn["path"]
            if si < 0 or si > ei:
                # Start conditional on a guard (ParserState::rule): equality of the Start/End guards is
                # C03.RULE; path combinations with different guard outcomes are not feasible
                if conditional_start:
                    checked -= 1
                    continue
                r.violation("%s:start-missing" % key, where(ev[ei].node), "a path pushes End without a Start")
                continue
            f = {x["name"]: x["e"] for x in ev[ei].node["fields"]}
            sid = hirq.root_let(hirq.local_id(f.get("start_token_index", {})), lets)
            ok = False
            if sid in lets and is_queue_len(lets[sid][0]):
                li = hirq.index_of(ev, lambda e: e.kind == "let" and e.node is lets[sid][1])
                pushes = [i for i, e in enumerate(ev[:si + 2]) if e.kind == "call"
                          and callee(e.node) == "alloc::vec::Vec::push" and i > li]
                ok = 0 <= li < si and (not pushes or pushes[0] > si)
            if not ok:
                r.violation("%s:start-index" % key, where(ev[ei].node), "End.start_token_index is not the queue "
                            "length taken right before the Start push")
            patch = [x for x in ev[si:ei] if x.kind == "assign" and kind(peel(x.node["l"])) == "Path"
                     and peel(x.node["l"]).get("name") == "end_token_index"]
            okp = False
            if patch:
                nid = hirq.root_let(hirq.local_id(patch[-1].node["r"]), lets)
                if nid in lets and is_queue_len(lets[nid][0]):
                    li = hirq.index_of(ev, lambda x: x.kind == "let" and x.node is lets[nid][1])
                    between = [x for x in ev[li:ei] if x.kind == "call" and callee(x.node) in (
                        "alloc::vec::Vec::push", "alloc::vec::Vec::truncate", "alloc::vec::Vec::pop")]
                    okp = li > si and not between
                # the patched token must be queue[s]: the binding that is assigned through destructures queue[s]
                # (`match queue[s] { Start { ref mut end_token_index, .. } => .. }` or the `if let` spelling)
                tgt = peel(patch[-1].node["l"])
                src = hirq.binding_source(fn, tgt["id"]) if kind(tgt) == "Path" and tgt.get("res") == "local" else None
                if src is not None:
                    scr = peel(src)
                    if not (kind(scr) == "Index" and hirq.root_let(hirq.local_id(scr["idx"]), lets) == sid):
                        okp = False
                else:
                    okp = False
            if not okp:
                r.violation("%s:end-index" % key, where(ev[ei].node), "Start.end_token_index is not patched with "
                            "the queue length read right before the End push (or not on queue[s])")
        r.instance(fn["path"], where(fn["body"]), "%d paths push Start and End" % checked)
        if checked <= 0:
            r.violation("%s:no-linked-path" % fn["path"], where(fn["body"]), "no path pushes both Start and End")


# ------------------------------------------------------------------ WINDOW

def end_index_helpers(c):
    """Methods of Pair that return the end_token_index of the Start token at self.start."""
    out = {}
    for b in c.bodies:
        if b.get("output") != "usize" or b.get("body") is None:
            continue
        method = b.get("impl_self") == PAIR and len(b["inputs"]) == 1
        free = b.get("impl_self") is None and b["path"].startswith("pest::iterators::pair::") and len(b["inputs"]) == 2
        if not (method or free):
            continue
        ms = [n for n in walk(b["body"]) if kind(n) == "Match" and n.get("src") == "match"]
        if not ms:
            # `let QueueableToken::Start { end_token_index, .. } = self.queue[self.start] else { unreachable!() };`
            les = [n for n in walk(b["body"]) if kind(n) == "Let" and n.get("els") is not None and n.get("init") is not None
                   and QT + "::Start" in hirq.pat_variants(n["pat"])]
            if len(les) == 1:
                tail = hirq.tail_leaves(b["body"])
                ms = [{"k": "Match", "src": "match", "scrut": les[0]["init"],
                       "arms": [{"pat": les[0]["pat"], "body": tail[0] if len(tail) == 1 else {}}]}]
        if len(ms) != 1:
            continue
        scr = peel(ms[0]["scrut"])
        if kind(scr) != "Index":
            continue
        idx = peel(scr["idx"])
        start_param = None
        if method:
            if not (kind(idx) == "Field" and idx["name"] == "start"):
                continue
        else:
            # `fn end_token_of(queue, start) -> usize { match queue[start] { Start { end_token_index, .. } => .. } }`
            pids = [p.get("id") for p in b["params"]]
            if hirq.local_id(idx) not in pids:
                continue
            start_param = pids.index(hirq.local_id(idx))
        for arm in ms[0]["arms"]:
            if QT + "::Start" in hirq.pat_variants(arm["pat"]):
                binds = {f["name"]: f["pat"] for f in arm["pat"].get("fields", [])}
                b0 = binds.get("end_token_index")
                if b0 is not None and hirq.local_id(arm["body"]) in [x[0] for x in hirq.pat_bindings(b0)]:
                    out[b["path"]] = start_param
    return out


def sym(n, lets, helpers, depth=0):
    """Symbolic index form of an expression."""
    n = peel(n)
    k = kind(n)
    if depth > 5:
        return "?"
    if k == "Lit":
        return str(n.get("v"))
    if k == "Binary" and n["op"] == "+" and hirq.lit_value(n["r"]) == 1:
        return sym(n["l"], lets, helpers, depth + 1) + "+1"
    if k == "Call" and isinstance(callee(n), str) and callee(n) in helpers and helpers[callee(n)] is not None:
        a = peel(n["args"][helpers[callee(n)]]) if helpers[callee(n)] < len(n["args"]) else None
        if a is not None and kind(a) == "Field" and a["name"] == "start":
            bty = hirq_strip(a.get("bty", ""))
            if bty.startswith(PAIR + "<") or bty == PAIR:
                return "End(%s)" % base_name(a["base"])
        return "?"
    if k == "MethodCall":
        if n.get("path") in helpers:
            return "End(%s)" % base_name(n["recv"])
        if is_queue_len(n):
            return "LEN"
    if k == "Field" and n["name"] in ("start", "end"):
        bty = hirq_strip(n.get("bty", ""))
        if bty.startswith(PAIR + "<") or bty == PAIR:
            return "Start(%s)" % base_name(n["base"]) if n["name"] == "start" else "?"
        for w in WINDOW_TYPES:
            if bty.startswith(w):
                return "W(%s).%s" % (base_name(n["base"]), n["name"])
    if k == "Path" and n.get("res") == "local":
        if n["id"] in lets:
            return sym(lets[n["id"]][0], lets, helpers, depth + 1)
        return "param:" + n["name"]
    return "?"


def hirq_strip(t):
    t = t.strip()
    while t.startswith("&"):
        t = t[1:].strip()
        if t.startswith("mut "):
            t = t[4:]
        if t.startswith("'"):
            t = t.split(" ", 1)[1] if " " in t else t
    return t


def base_name(n):
    n = peel(n)
    if kind(n) == "Path":
        return n.get("name", "?")
    return "?"


def window(rep, c, sfx):
    r = rep.rule("C04.WINDOW" + sfx, 7,
                 "every (start, end) passed to pairs::new / tokens::new / flat_pairs::new is (0, len), "
                 "(Start(p)+1, End(p)), (Start(p), End(p)+1) or a pass-through of an existing window")
    helpers = end_index_helpers(c)
    if not helpers:
        r.lost("Pair helper returning the End index of the pair")
        return
    cg = hirq.CallGraph([c])
    for ctor_path, (si, ei) in CTORS.items():
        for (p, n) in cg.callers_of(ctor_path):
            if kind(n) != "Call":
                continue
            fn = c.fn(p)
            lets = hirq.lets(fn["body"])
            s, e = sym(n["args"][si], lets, helpers), sym(n["args"][ei], lets, helpers)
            key = "%s<-%s" % (ctor_path.split("::")[-2], p)
            r.instance(key, where(n), "(%s, %s)" % (s, e))
            ok = False
            if (s, e) == ("0", "LEN"):
                ok = True
            elif s.startswith("Start(") and s.endswith(")+1") and e == "End(%s)" % s[6:-3]:
                ok = True
            elif s.startswith("Start(") and s.endswith(")") and e == "End(%s)+1" % s[6:-1]:
                ok = True
            elif s.startswith("W(") and s.endswith(".start") and e == s[:-6] + ".end":
                ok = True
            elif s.startswith("param:") and e.startswith("param:"):
                # a constructor forwarding its own parameters
                ok = p in CTORS
            if not ok:
                r.violation(key, where(n),
                            "window (%s, %s) does not denote whole pairs under the half-open convention: "
                            "backward iteration reads the token before `end` as the last pair's End" % (s, e))


# ------------------------------------------------------------------ GUARD

CUR_LETS = {}   # immutable bool locals of the function being examined (set by the callers of cmp_facts)


def cmp_facts(cond, truth):
    """Set of facts 'start<end' established by cond having the given truth value (self fields only)."""
    cond = peel(cond)
    k = kind(cond)
    if k == "Path" and cond.get("res") == "local" and cond.get("ty") == "bool" and cond["id"] in CUR_LETS:
        init = CUR_LETS[cond["id"]][0]
        if init is not None:
            return cmp_facts(init, truth)     # `let has_remaining = self.start < self.end;` tested later
    if k == "Binary" and cond["op"] == "&&" and truth:
        return cmp_facts(cond["l"], True) | cmp_facts(cond["r"], True)
    if k == "Binary" and cond["op"] == "||" and not truth:
        return cmp_facts(cond["l"], False) | cmp_facts(cond["r"], False)
    if k == "Unary" and cond["op"] == "!":
        return cmp_facts(cond["e"], not truth)
    if k == "Binary" and cond["op"] in ("<", ">", "<=", ">="):
        l, rr = peel(cond["l"]), peel(cond["r"])
        if kind(l) == "Field" and kind(rr) == "Field" and base_name(l["base"]) == "self" and base_name(rr["base"]) == "self":
            a, b, op = l["name"], rr["name"], cond["op"]
            if not truth:
                op = {"<": ">=", ">": "<=", "<=": ">", ">=": "<"}[op]
            if (a, op, b) in (("start", "<", "end"), ("end", ">", "start")):
                return {"nonempty"}
    return set()


def option_some_only_if_nonempty(fn):
    """Summary: does fn return Some(..) only on paths where start < end was established?"""
    if not fn.get("output", "").startswith("core::option::Option<"):
        return False
    pe = PathEnum(fn)
    some = 0
    for (ev, out) in exits(pe.paths()):
        v = hirq.path_value(ev)
        v = peel(v) if v is not None else None
        if v is not None and kind(v) == "Call" and callee(v) == "core::option::Option::Some":
            some += 1
            est = set()
            for e in ev:
                if e.kind == "cond":
                    est |= cmp_facts(e.node, e.extra)
            if "nonempty" not in est:
                return False
        elif v is not None and kind(v) == "Path" and v.get("path") == "core::option::Option::None":
            continue
        elif v is not None and kind(v) == "MethodCall" and v["m"] in ("then", "then_some") \
                and "nonempty" in cmp_facts(v["recv"], True):
            some += 1    # `(self.start < self.end).then(|| ..)`: Some exactly when the window is non-empty
        else:
            return False
    return some > 0


def guard(rep, c, sfx):
    r = rep.rule("C04.GUARD" + sfx, 6,
                 "every evaluation needing a non-empty window (self.end - 1, self.end -= 1, queue[self.start], "
                 "helpers built on them) is guarded by start < end")
    wfns = [b for b in c.bodies if any((b.get("impl_self") or "").startswith(w) for w in WINDOW_TYPES)]
    summaries = {b["path"]: option_some_only_if_nonempty(b) for b in wfns
                 if b.get("output", "").startswith("core::option::Option<") and len(b["inputs"]) == 1}
    safe_opt = set(p for p, v in summaries.items() if v)

    def sites_of(fn, requires):
        out = []
        for n in walk(fn["body"]):
            k = kind(n)
            if k == "Binary" and n["op"] == "-" and hirq.lit_value(n["r"]) == 1:
                l = peel(n["l"])
                if kind(l) == "Field" and l["name"] == "end" and base_name(l["base"]) == "self":
                    out.append((n, "self.end - 1"))
            elif k == "AssignOp" and n["op"] == "-=":
                l = peel(n["l"])
                if kind(l) == "Field" and l["name"] == "end" and base_name(l["base"]) == "self":
                    out.append((n, "self.end -= 1"))
            elif k == "Index":
                idx = peel(n["idx"])
                if kind(idx) == "Field" and idx["name"] == "start" and base_name(idx["base"]) == "self":
                    out.append((n, "queue[self.start]"))
            elif k == "MethodCall" and n.get("path") in requires and base_name(n["recv"]) == "self":
                out.append((n, "self.%s()" % n["m"]))
        return out

    def safe_call(e):
        e = peel(e)
        return kind(e) == "MethodCall" and e.get("path") in safe_opt and base_name(e["recv"]) == "self"

    def none_arms_diverge(m):
        """`match self.peek() { Some(p) => .., None => return .. }`: every arm that can take None diverges."""
        some = False
        for arm in m["arms"]:
            vs = hirq.pat_variants(arm["pat"])
            is_some = any(v.endswith("Option::Some") for v in vs) and not hirq.pat_is_catchall(arm["pat"])
            if is_some:
                some = True
            elif not (hirq.diverges(arm["body"]) or arm["body"].get("ty") == "!"):
                return False
        return some

    def guarded(ctx, n):
        global CUR_LETS
        modes_ = hirq.binding_modes(ctx.fn) if hasattr(ctx, "fn") else {}
        CUR_LETS = {k_: v_ for k_, v_ in hirq.lets(ctx.fn["body"]).items() if not modes_.get(k_)} if hasattr(ctx, "fn") else {}
        for g in ctx.guards(n):
            if g[0] in ("if", "not", "guard"):
                if "nonempty" in cmp_facts(g[1], g[2]):
                    return True
                c0 = peel(g[1])
                if g[0] == "if" and g[2] is True and kind(c0) == "LetExpr" and safe_call(c0["init"]) \
                        and any(v.endswith("Option::Some") for v in hirq.pat_variants(c0["pat"])):
                    return True   # inside `if let Some(..) = self.peek()`
            elif g[0] == "arm":
                m, idx = g[1], g[2]
                if safe_call(m["scrut"]) and any(v.endswith("Option::Some") for v in hirq.pat_variants(m["arms"][idx]["pat"])):
                    return True   # inside the Some arm of `match self.peek()`
            elif g[0] == "let":
                init = g[1].get("init")
                if init is not None and kind(peel(init)) == "Match" and peel(init).get("src") != "try" \
                        and safe_call(peel(init)["scrut"]) and none_arms_diverge(peel(init)):
                    return True   # after `let p = match self.peek() { Some(p) => p, None => return .. }`
                if init is not None and g[1].get("els") is not None and safe_call(init) \
                        and any(v.endswith("Option::Some") for v in hirq.pat_variants(g[1]["pat"])):
                    return True   # after `let Some(p) = self.peek() else { return .. }`
                if init is not None and kind(init) == "Match" and init.get("src") == "try":
                    arg = init["scrut"]["args"][0] if kind(init["scrut"]) == "Call" and init["scrut"]["args"] else None
                    if arg is not None and kind(peel(arg)) == "MethodCall" and peel(arg).get("path") in safe_opt \
                            and base_name(peel(arg)["recv"]) == "self":
                        return True
        return False

    # fixpoint: private helpers with unguarded sites become "requires non-empty" functions
    requires = set()
    changed = True
    unguarded = {}
    while changed:
        changed = False
        unguarded = {}
        for fn in wfns:
            ctx = hirq.Ctx(fn)
            for (n, what) in sites_of(fn, requires):
                if not guarded(ctx, n):
                    unguarded.setdefault(fn["path"], []).append((n, what))
        for p in unguarded:
            fn = c.fn(p)
            private = fn.get("vis") not in ("pub",) and not fn.get("impl_trait")
            if private and p not in requires:
                requires.add(p)
                changed = True
    total = 0
    for fn in wfns:
        for (n, what) in sites_of(fn, requires):
            total += 1
            r.instance("%s:%s" % (fn["path"], what), where(n))
    for p, lst in sorted(unguarded.items()):
        if p in requires:
            continue
        for (n, what) in lst:
            r.violation("%s:%s" % (p, what), where(n),
                        "`%s` is evaluated without a guard establishing start < end (sibling methods check "
                        "`self.start < self.end` first): on an empty window this underflows or indexes the "
                        "wrong token" % what)
    r.note("requires-nonempty helpers: %s; Option summaries (Some only if start<end): %s" % (
        sorted(requires), sorted(safe_opt)))


# ------------------------------------------------------------------ COUNT (cached pair count)

def count(rep, c, sfx):
    r = rep.rule("C04.COUNT" + sfx, 3,
                 "the cached pair count of Pairs is decremented exactly once on every path that moves the window "
                 "(sibling iterator steps next / next_back agree), and only there")
    P = WINDOW_TYPES[0]
    adt = c.adt(P)
    if adt is None:
        r.lost("Pairs")
        return
    counters = [f["name"] for f in adt["variants"][0]["fields"] if f["ty"] == "usize" and f["name"] not in ("start", "end")]
    if len(counters) != 1:
        r.lost("single cached counter field of Pairs (found %s)" % counters)
        return
    cnt = counters[0]
    for fn in c.bodies:
        if not (fn.get("impl_self") or "").startswith(P):
            continue
        touches = [n for n in walk(fn["body"]) if kind(n) in ("Assign", "AssignOp")
                   and (hirq.place(n["l"]) or ("", 0, []))[0] == "self"
                   and (hirq.place(n["l"]) or ("", 0, [""]))[2][:1] in (["start"], ["end"], [cnt])]
        if not touches:
            continue
        pe = PathEnum(fn)
        n_moving = 0
        for (ev, out) in exits(pe.paths()):
            moves = [e for e in ev if e.kind == "assign" and (hirq.place(e.node["l"]) or ("", 0, []))[0] == "self"
                     and (hirq.place(e.node["l"]) or ("", 0, [""]))[2][:1] in (["start"], ["end"])]
            decs = [e for e in ev if e.kind == "assign" and (hirq.place(e.node["l"]) or ("", 0, []))[0] == "self"
                    and (hirq.place(e.node["l"]) or ("", 0, [""]))[2][:1] == [cnt]]
            if moves:
                n_moving += 1
            bad = None
            if len(moves) != len(decs):
                bad = "moves the window %d time(s) but updates `%s` %d time(s)" % (len(moves), cnt, len(decs))
            else:
                for d in decs:
                    if not (kind(d.node) == "AssignOp" and d.node["op"] == "-=" and hirq.lit_value(d.node["r"]) == 1):
                        bad = "updates `%s` by something other than `-= 1`" % cnt
            if bad:
                r.violation("%s" % fn["path"], where(touches[0]),
                            "a path of %s %s: len()/size_hint()/is_empty() disagree with what iteration yields "
                            "(sibling step functions do keep the count)" % (fn["name"], bad))
        r.instance(fn["path"], where(fn["body"]), "%d window-moving paths" % n_moving)
    # the constructor computes the count by hopping end_token_index
    new = c.fn("pest::iterators::pairs::new")
    if new is None:
        r.lost("pairs::new")
    else:
        inc = [n for n in walk(new["body"]) if kind(n) == "AssignOp" and n["op"] == "+=" and hirq.lit_value(n["r"]) == 1]
        # or counts the hops of an iterator whose closure moves the cursor (`iter::from_fn(|| ..cursor = ..).count()`)
        inc += [n for n in walk(new["body"]) if kind(n) == "MethodCall" and n["m"] == "count" and any(
            kind(y) == "Closure" and any(kind(z) == "Assign" for z in walk(y)) for y in walk(n["recv"]))]
        r.instance("pairs::new", where(new["body"]), "%d counting increments" % len(inc))
        if not inc:
            r.violation("pairs::new", where(new["body"]), "constructor no longer counts the pairs of the window")


# ------------------------------------------------------------------ LINEBREAK (sibling line counters)

def char_lits(n):
    out = set()
    for x in walk(n):
        if x.get("k") in ("Lit", "PLit") and x.get("lk") == "char":
            out.add(x.get("v"))
    return out


def linecol_updates(fn):
    """(line_incs, col_steps) of a (line, col) walk, in either spelling: one tuple accumulator assigned `(l + 1, 1)` /
    `(l, c + 1)`, or two locals `line += 1; col = 1` / `col += 1` returned as `(line, col)`.
    line_incs: nodes that advance the line; col_steps: (node, step expression) that advance the column."""
    line_incs, col_steps = [], []
    for n in walk(fn["body"]):
        if kind(n) == "Assign" and kind(peel(n["r"])) == "Tup" and len(peel(n["r"])["elems"]) == 2:
            a, b = [peel(x) for x in peel(n["r"])["elems"]]
            if kind(a) == "Binary" and a["op"] == "+":
                line_incs.append((n, a["r"], b))
            elif kind(b) == "Binary" and b["op"] == "+":
                col_steps.append((n, b["r"]))
            else:
                col_steps.append((n, b))
    if line_incs or col_steps:
        return line_incs, col_steps
    # `chars().fold((1, 1), |(line, col), c| if c == '\n' { (line + 1, 1) } else { (line, col + 1) })`
    for n in walk(fn["body"]):
        if kind(n) == "MethodCall" and n["m"] == "fold" and len(n["args"]) == 2 and kind(peel(n["args"][1])) == "Closure":
            for leaf in hirq.tail_leaves(peel(n["args"][1])["body"]):
                v = peel(leaf)
                if kind(v) == "Tup" and len(v["elems"]) == 2:
                    a, b = [peel(x) for x in v["elems"]]
                    if kind(a) == "Binary" and a["op"] == "+":
                        line_incs.append((v, a["r"], b))
                    elif kind(b) == "Binary" and b["op"] == "+":
                        col_steps.append((v, b["r"]))
                    else:
                        col_steps.append((v, b))
    if line_incs or col_steps:
        return line_incs, col_steps
    # two locals returned as a tuple
    ids = None
    for leaf in hirq.tail_leaves(fn["body"]) + [x["e"] for x in walk(fn["body"]) if kind(x) == "Ret" and x.get("e") is not None]:
        v = peel(leaf)
        if kind(v) == "Tup" and len(v["elems"]) == 2 and all(kind(peel(e)) == "Path" and peel(e).get("res") == "local" for e in v["elems"]):
            ids = (peel(v["elems"][0])["id"], peel(v["elems"][1])["id"])
    if ids is None:
        return [], []
    for n in walk(fn["body"]):
        if kind(n) == "AssignOp" and n.get("op") in ("+=", "+"):
            lid = hirq.local_id(n["l"])
            if lid == ids[0]:
                # the column reset that goes with it: an assignment `col = 1` in the same block
                line_incs.append((n, n["r"], None))
            elif lid == ids[1]:
                col_steps.append((n, n["r"]))
        elif kind(n) == "Assign" and hirq.local_id(n["l"]) == ids[0] and kind(peel(n["r"])) == "Binary" and peel(n["r"])["op"] == "+":
            line_incs.append((n, peel(n["r"])["r"], None))
        elif kind(n) == "Assign" and hirq.local_id(n["l"]) == ids[1] and kind(peel(n["r"])) == "Binary" and peel(n["r"])["op"] == "+":
            col_steps.append((n, peel(n["r"])["r"]))
    return line_incs, col_steps


def linebreak(rep, c, sfx):
    r = rep.rule("C04.LINEBREAK" + sfx, 2,
                 "the two line counters agree on what ends a line: LineIndex::new records a line start only "
                 "after '\\n', and Position::line_col increments the line only on a path that consumed '\\n'")
    li = c.fn("pest::iterators::line_index::LineIndex::new")
    if li is None:
        r.lost("LineIndex::new")
    else:
        ctx = hirq.Ctx(li)
        pushes = [n for n in walk(li["body"]) if kind(n) == "MethodCall" and n["m"] == "push"]
        if not pushes:
            # no explicit push (an iterator pipeline such as char_indices().filter(..).map(..)): the characters the
            # constructor distinguishes at all are the ones that can decide a line start
            chars = char_lits(li["body"])
            uses_lines = any(kind(n) == "MethodCall" and n["m"] in ("lines", "split_terminator", "split_inclusive")
                             and not char_lits(n) for n in walk(li["body"]))
            if not chars and not uses_lines:
                r.lost("line start push in LineIndex::new")
            else:
                r.instance("LineIndex::new", where(li["body"]), "line starts decided by chars %s%s" % (
                    sorted(chars), " and str line splitting" if uses_lines else ""))
                if chars != {"\n"} or uses_lines:
                    r.violation("LineIndex::new", where(li["body"]),
                                "line starts are decided by %s%s, not exactly by '\\n': Pair::line_col disagrees with "
                                "Position::line_col for inputs containing the other line ending" % (
                                    sorted(chars), " and str line splitting" if uses_lines else ""))
        for p in pushes:
            chars = set()
            for g in ctx.guards(p):
                if g[0] in ("if", "guard"):
                    chars |= char_lits(g[1])
                elif g[0] == "arm":
                    chars |= char_lits(g[1]["arms"][g[2]]["pat"])
            r.instance("LineIndex::new", where(p), "line start recorded under chars %s" % sorted(chars))
            if chars != {"\n"}:
                r.violation("LineIndex::new", where(p),
                            "a line start is recorded under %s, not exactly after '\\n': Pair::line_col disagrees "
                            "with Position::line_col for inputs containing the other character" % sorted(chars))
    pl = c.fn("pest::position::Position::line_col")
    if pl is None:
        r.lost("Position::line_col")
        return
    # the updates that advance the line number
    ctx = hirq.Ctx(pl)
    incs = [n for (n, step, col) in linecol_updates(pl)[0]]
    if not incs:
        r.lost("line increments in Position::line_col")
    for n in incs:
        chars = set()
        for g in ctx.guards(n):
            if g[0] in ("if", "guard"):
                chars |= char_lits(g[1])
            elif g[0] == "arm":
                chars |= char_lits(g[1]["arms"][g[2]]["pat"])
        r.instance("Position::line_col@%d" % len(chars), where(n), "line incremented under chars %s" % sorted(chars))
        if "\n" not in chars:
            r.violation("Position::line_col", where(n), "the line number is incremented on a path that did not "
                        "consume '\\n' (chars %s)" % sorted(chars))


# ------------------------------------------------------------------ LEAFTEST (sibling renderers)

def leaftest(rep, c, sfx):
    r = rep.rule("C04.LEAFTEST" + sfx, 1 if not sfx else 2,
                 "the renderers of a Pair that distinguish a leaf from a node (Display {:#}, JSON) decide it by the "
                 "same predicate: the inner pairs are empty - and by nothing else")
    conds = []
    for fn in c.bodies:
        if not (fn.get("impl_self") or "").startswith(PAIR) or not fn.get("impl_trait"):
            continue
        for n in walk(fn["body"]):
            if kind(n) != "If":
                continue
            if not any(kind(x) == "MethodCall" and x["m"] == "peek" for x in walk(n["cond"])):
                continue
            # the peeked iterator must derive from into_inner()
            lets = hirq.lets(fn["body"])
            def from_inner(x, d=0):
                x = peel(x)
                if d > 5:
                    return False
                if kind(x) == "MethodCall" and x["m"] == "into_inner":
                    return True
                if kind(x) == "MethodCall":
                    return from_inner(x["recv"], d + 1)
                if kind(x) == "Path" and x.get("res") == "local" and x["id"] in lets:
                    return from_inner(lets[x["id"]][0], d + 1)
                return False
            peeks = [x for x in walk(n["cond"]) if kind(x) == "MethodCall" and x["m"] == "peek"]
            if not any(from_inner(x["recv"]) for x in peeks):
                continue
            canon = canon_leaf(n["cond"])
            conds.append((fn, n, canon))
            r.instance(fn["path"].split(" as ")[-1], where(n), canon)
    for (fn, n, canon) in conds:
        if canon != "INNER.peek().is_none()":
            r.violation(fn["path"].split(" as ")[-1], where(n),
                        "this renderer decides leaf/node by `%s`, its siblings by `inner.peek().is_none()`: a pair "
                        "with children can be rendered as a leaf (the views of one tree disagree)" % canon)


def canon_leaf(c):
    c = peel(c)
    k = kind(c)
    if k == "Binary":
        return "(%s %s %s)" % (canon_leaf(c["l"]), c["op"], canon_leaf(c["r"]))
    if k == "Unary":
        return "%s%s" % (c["op"], canon_leaf(c["e"]))
    if k == "MethodCall":
        if c["m"] == "peek":
            return "INNER.peek()"
        return "%s.%s()" % (canon_leaf(c["recv"]), c["m"])
    if k == "Path":
        return c.get("name") or c.get("path", "?")
    if k == "Field":
        return "%s.%s" % (canon_leaf(c["base"]), c["name"])
    return "<%s>" % k


# ------------------------------------------------------------------ LENSTEP (len vs step functions)

def lenstep(rep, c, sfx):
    r = rep.rule("C04.LENSTEP" + sfx, 3,
                 "for every iterator with an ExactSizeIterator::len: either len reads a cached counter that every "
                 "step decrements once (C04.COUNT), or len is a function of the window bounds and then every step "
                 "moves a bound by a constant matching len's scale - never by a data-dependent amount")
    lens = [b for b in c.bodies if b.get("impl_trait") == "core::iter::traits::exact_size::ExactSizeIterator"
            and b["name"] == "len" and (b.get("impl_self") or "").startswith("pest::iterators::")]
    cg = hirq.CallGraph([c])
    for ln in lens:
        ty = ln["impl_self"]
        short = ty.split("::")[-1]
        fields = sorted(set(x["name"] for x in walk(ln["body"]) if kind(x) == "Field" and base_name(x["base"]) == "self"))
        r.instance("len:" + short, where(ln["body"]), "reads %s" % fields)
        if not (set(fields) & {"start", "end"}):
            # cached counter (stepping discipline: C04.COUNT).  Here: the constructor counts over the WINDOW - the
            # function that builds the struct uses its start and end parameters for more than storing them (a count
            # over the whole token queue is right only for the outermost window)
            for cb in c.bodies:
                if cb.get("body") is None or cb.get("exp") or "::tests::" in cb["path"]:
                    continue
                lits = [x for x in walk(cb["body"]) if kind(x) == "Struct" and str(x.get("ty", "")).startswith(ty)]
                if not lits or cb.get("impl_self") == ty:
                    continue    # methods that copy an existing iterator (clone, flatten of self) carry the count over
                ps = {p["name"]: p["id"] for p in cb["params"] if p.get("k") == "PBind" and p.get("name") in ("start", "end")}
                if len(ps) != 2:
                    continue
                stored = set()
                for lit in lits:
                    for f in lit["fields"]:
                        if f["name"] in ("start", "end") and hirq.local_id(f["e"]) in ps.values():
                            stored.add(id(peel(f["e"])))
                key = "ctor:%s:%s" % (short, cb["path"].split("::")[-1])
                r.instance(key, where(cb["body"]), "cached `%s`" % ",".join(fields))
                for nm, pid in ps.items():
                    others = [x for x in walk(cb["body"]) if kind(x) == "Path" and x.get("res") == "local" and x["id"] == pid
                              and id(x) not in stored]
                    if not others:
                        r.violation(key, where(cb["body"]),
                                    "%s stores a pair count for %s::len() but never looks at its `%s` parameter while "
                                    "computing it: the count is taken over something other than the window (e.g. the whole "
                                    "token queue), so a flattened sub-tree claims all pairs of the document"
                                    % (cb["path"].split("::")[-1], short, nm))
                        break
            continue  # cached counter: C04.COUNT
        counting = any(kind(x) == "MethodCall" and x["m"] in ("count", "filter", "fold", "sum") for x in walk(ln["body"])) \
            or any(kind(x) == "Loop" for x in walk(ln["body"]))
        if counting:
            r.note("%s::len counts the remaining items of the window (valid for any step width)" % short)
            # ... provided it counts over the whole window: a range built from the window bounds must be
            # exactly start..end (after next_back the slot before `end` can hold a Start token as well)
            lets = hirq.lets(ln["body"])
            for x in walk(ln["body"]):
                if kind(x) != "Struct" or not str(x.get("path", "")).startswith("core::ops::range::Range"):
                    continue
                for f in x["fields"]:
                    e = peel(f["e"])
                    hops = 0
                    while kind(e) == "Path" and e.get("res") == "local" and e["id"] in lets and hops < 3:
                        e = peel(lets[e["id"]][0])
                        hops += 1
                    used = sorted(set(y["name"] for y in walk(e) if kind(y) == "Field" and base_name(y["base"]) == "self"
                                      and y["name"] in ("start", "end")))
                    if not used:
                        continue
                    key = "len:%s:range.%s" % (short, f["name"])
                    r.instance(key, where(f["e"]), hirq.expr_text(f["e"])[:40])
                    exact = kind(e) == "Field" and base_name(e["base"]) == "self" and e["name"] == f["name"]
                    if not exact:
                        r.violation(key, where(f["e"]),
                                    "%s::len counts over a range whose %s bound is `%s`, not the window's own `%s`: "
                                    "tokens of the window are left out (after next_back the last slot of the window "
                                    "can be the Start of a pair still to come), so len()/size_hint() disagree with "
                                    "iteration" % (short, f["name"], hirq.expr_text(f["e"])[:40], f["name"]))
            continue
        # scale: (end - start) >> s
        shift = 0
        for x in walk(ln["body"]):
            if kind(x) == "Binary" and x["op"] == ">>" and isinstance(hirq.lit_value(x["r"]), int):
                shift = hirq.lit_value(x["r"])
            if kind(x) == "Binary" and x["op"] == "/" and hirq.lit_value(x["r"]) == 2:
                shift = 1
        want = 1 << shift
        steps = [b for b in c.bodies if b.get("impl_self") == ty and b["name"] in ("next", "next_back")
                 and b.get("impl_trait")]
        for st in steps:
            # the step and the self-helpers it calls
            bodies = [st]
            for (callee_path, n) in hirq.call_sites(st["body"]):
                h = c.fn(callee_path)
                if h is not None and h.get("impl_self") == ty and h is not st and h["inputs"] and h["inputs"][0].startswith("&mut"):
                    bodies.append(h)
            for b in bodies:
                ctx = hirq.Ctx(b)
                for x in walk(b["body"]):
                    if kind(x) not in ("Assign", "AssignOp"):
                        continue
                    pl = hirq.place(x["l"])
                    if not pl or pl[0] != "self" or pl[2][:1] not in (["start"], ["end"]):
                        continue
                    in_loop = any(kind(p) == "Loop" for (p, k, i) in ctx.ancestors(x))
                    amount = hirq.lit_value(x["r"]) if kind(x) == "AssignOp" else None
                    if kind(x) == "Assign":
                        # `self.end = last` with `let last = self.end - 1`: the same constant step, spelled as a value
                        rhs = peel(x["r"])
                        blets = hirq.lets(b["body"])
                        hops = 0
                        while kind(rhs) == "Path" and rhs.get("res") == "local" and rhs["id"] in blets and hops < 3:
                            rhs = peel(blets[rhs["id"]][0])
                            hops += 1
                        if kind(rhs) == "Binary" and rhs["op"] in ("+", "-") and isinstance(hirq.lit_value(rhs["r"]), int):
                            lpl = hirq.place(rhs["l"])
                            if lpl and lpl[0] == "self" and lpl[2][:1] == pl[2][:1]:
                                amount = hirq.lit_value(rhs["r"])
                    key = "%s::%s:%s" % (short, st["name"], pl[2][0])
                    r.instance(key, where(x), "%s %s%s" % (x.get("op", "="), amount, " in loop" if in_loop else ""))
                    if in_loop or amount is None:
                        r.violation(key, where(x),
                                    "%s::len is computed from the window width, but %s moves `%s` by a data-dependent "
                                    "amount (%s): after a step over a nested pair the width no longer counts the "
                                    "remaining items, so len()/size_hint() disagree with what iteration yields"
                                    % (short, st["name"], pl[2][0], "loop" if in_loop else "non-constant"))




# ------------------------------------------------------------------ SERIALSPAN (pretty-print)

def serialspan(rep, c, sfx):
    r = rep.rule("C04.SERIALSPAN" + sfx, 1,
                 "the span a sibling list reports in its JSON/serde form is the span of its window: from the token at "
                 "window.start to the token at window.end - 1 (or (0, 0) for an empty window) - computed from the two "
                 "window bounds, not from iterating the list (the last *descendant* ends before the last sibling does)")
    fns = [b for b in c.bodies if b.get("impl_self") == "pest::iterators::pairs::Pairs" and b.get("impl_trait")
           and "Serialize" in str(b.get("impl_trait")) and b.get("body") is not None]
    if not fns:
        r.lost("Serialize for Pairs")
        return
    for fn in fns:
        lets = hirq.lets(fn["body"])
        # tuple-pattern lets: id -> init of the whole tuple
        tlets = {}
        for st in walk(fn["body"]):
            if st.get("k") == "Let" and st.get("init") is not None and st["pat"].get("k") == "PTuple":
                for (bid, nm) in hirq.pat_bindings(st["pat"]):
                    tlets[bid] = st["init"]
        sites = [x for x in walk(fn["body"]) if kind(x) == "MethodCall" and x["m"] == "serialize_field"
                 and hirq.lit_value(peel(x["args"][0])) == "pos"]
        if not sites:
            r.lost("serialize_field(\"pos\", ..) in Serialize for Pairs")
            continue
        for s in sites:
            r.instance("pos", where(s))
            seen = []
            todo = [s["args"][1]]
            depth = 0
            while todo and depth < 40:
                depth += 1
                e = todo.pop()
                for y in walk(e):
                    seen.append(y)
                    if kind(y) == "Path" and y.get("res") == "local":
                        if y["id"] in lets:
                            todo.append(lets[y["id"]][0])
                        elif y["id"] in tlets:
                            todo.append(tlets[y["id"]])
            fields = set(y["name"] for y in seen if kind(y) == "Field" and "Pairs" in y.get("bty", ""))
            calls = set(str(callee(y)) for y in seen if kind(y) in ("Call", "MethodCall") and callee(y))
            iterating = sorted(cl for cl in calls if cl.split("::")[-1] in (
                "peek", "next", "next_back", "last", "flatten", "nth", "count", "collect", "into_inner", "tokens"))
            if not ({"start", "end"} <= fields) or iterating:
                r.violation("pos", where(s), "the serialized span of a Pairs is computed from %s (fields read: %s): for "
                            "`[1]` the inner list of `value(0,3)` is then dumped as [0,2]" % (
                                ", ".join(x.split("::")[-1] + "()" for x in iterating) or "something other than the window bounds",
                                sorted(fields)))


# ------------------------------------------------------------------ SCANBOUND

def scanbound(rep, c, sfx):
    r = rep.rule("C04.SCANBOUND" + sfx, 1,
                 "a loop of FlatPairs that moves one cursor of the window over tokens (`self.start += 1` / "
                 "`self.end -= 1` until a Start token is found) stops at the OTHER cursor: its condition compares "
                 "self.start with self.end.  Bounded by anything else (the queue length) the cursor comes to rest outside "
                 "the window, and `tokens()` / `len()` of what is left compute `end - start` from crossed cursors")
    FP = "pest::iterators::flat_pairs::FlatPairs"
    n = 0
    for b in c.bodies:
        if not str(b.get("impl_self") or "").startswith(FP) or b.get("body") is None or b.get("exp"):
            continue
        for lp in walk(b["body"]):
            if kind(lp) != "Loop":
                continue
            moved = set()
            for x in hirq.walk_no_closures(lp):
                if kind(x) == "AssignOp":
                    pl = hirq.place(x["l"])
                    if pl and pl[0] == "self" and pl[2] in (["start"], ["end"]):
                        moved.add(pl[2][0])
            if len(moved) != 1:
                continue
            n += 1
            cursor = moved.pop()
            other = "end" if cursor == "start" else "start"
            key = "%s:%s" % (b["name"], cursor)
            r.instance(key, where(lp))
            # the conditions under which the loop goes on: the `if` heading a while-loop's body, `if .. { break }` tests
            bounded = False
            for x in hirq.walk_no_closures(lp):
                if kind(x) == "Binary" and x["op"] in ("<", "<=", ">", ">=", "!=", "=="):
                    pls = [hirq.place(x["l"]), hirq.place(x["r"])]
                    names = sorted(p[2][0] for p in pls if p and p[0] == "self" and len(p[2]) == 1)
                    if names == ["end", "start"]:
                        bounded = True
            if not bounded:
                r.violation(key, where(lp),
                            "the loop of FlatPairs::%s that moves self.%s is not bounded by self.%s: after the last pair "
                            "of a window that ends before the end of the queue the cursor rests beyond the window, and "
                            "Tokens::len() of the remainder underflows (or reports ~usize::MAX)" % (b["name"], cursor, other))
        # the iterator spelling of the same scan: `self.start = (self.start + 1..self.end).find(..).unwrap_or(self.end)`
        for x in walk(b["body"]):
            if kind(x) == "Assign":
                pl = hirq.place(x["l"])
                if pl and pl[0] == "self" and pl[2] in (["start"], ["end"]) and any(
                        kind(y) == "MethodCall" and y["m"] in ("find", "rfind", "position", "rposition") for y in walk(x["r"])):
                    n += 1
                    key = "%s:%s:search" % (b["name"], pl[2][0])
                    r.instance(key, where(x))
                    flds = set(p[2][0] for p in (hirq.place(y) for y in walk(x["r"]) if kind(y) == "Field")
                               if p and p[0] == "self" and len(p[2]) == 1)
                    if not {"start", "end"} <= flds:
                        r.violation(key, where(x), "the search that moves self.%s in FlatPairs::%s is not bounded by the "
                                    "other cursor of the window" % (pl[2][0], b["name"]))
    if n == 0:
        r.lost("cursor-moving scans of FlatPairs (next_start and next_start_from_end were confirmed by hand)")
