"""C11 - the backtracking stack: the structural clauses.

Equality with a copying model over all histories is an invariant proof about index arithmetic and is declined.  What is
carried by code shape, and necessary for the equality:

  FIELDS    the three vectors are private and written only by Stack's own methods.
  DELEGATE  push / peek / len / is_empty act on the live vector and nothing else; pop returns what the live vector's pop
            returned, on every path.
  PAIRING   snapshot records exactly one snapshot entry on every path; restore and clear_snapshot consume exactly one (when
            there is one) on every path; no other operation creates or consumes entries.
  NOSNAP    restore without a snapshot empties the live vector (the model's 'empties the stack when there is none').
  NOPANIC   none of the operations contains an explicit panic site (panic!, unreachable!, assert!, unwrap, expect);
            debug assertions are allowed.
  AGREE     test and update agree: pop decrements the remaining-originals count only under `==` of that same count with
            the length before the pop; restore truncates to the value it compared with the live length and reads no
            snapshot entry but its own; every consuming path of clear_snapshot adjusts the popped vector.

Not decided: which elements are kept in `popped` and replayed by restore, i.e. everything that distinguishes
`drain(a..b)` from `truncate(n)` - the one seeded change no rule catches (DESIGN.md section 12)."""
from .. import facts, hirq
from ..hirq import walk, kind, callee, where, peel, PathEnum, exits

LEVEL = "other"
STACK = "pest::stack::Stack"

MANIFEST = {
    "technique": "who-may-write analysis of the three vectors (visibility facts + mutating field accesses), must-call / "
                 "exactly-once rules over enumerated control-flow paths of snapshot / restore / clear_snapshot, "
                 "delegation shape of push / peek / len / pop, panic-site scan (typed HIR)",
    "text": "Decides five structural necessary conditions of the transactional behaviour for every history: the vectors "
            "are private and written only by Stack's methods; push, peek, len and is_empty act on the live vector only and "
            "pop returns the live vector's pop; snapshot creates exactly one snapshot entry and restore / clear_snapshot "
            "consume exactly one on every path, no other operation does; restore without a snapshot empties the stack; no "
            "operation contains an explicit panic site; the counts that are tested are the counts that are updated "
            "(pop's recording guard, restore's truncation, restore reading only its own entry, clear_snapshot adjusting "
            "`popped` on every consuming path). It does not decide which elements are recorded in `popped`, merged "
            "by clear_snapshot or replayed by restore - the index arithmetic that makes the contents equal the model's.",
    "note": "A partial claim. The model equality over all histories is an invariant proof about cache / popped / lengths "
            "arithmetic and is declined (DESIGN.md section 6); a change confined to that arithmetic (clear_snapshot "
            "drain -> truncate, seeded three times) is not detected; four other seeded changes of the arithmetic are "
            "detected through the AGREE clauses.",
}


def vec_field(e):
    """Name of the Stack field an expression is rooted at (through borrows / method receivers)."""
    pl = hirq.place(e)
    if pl and pl[2]:
        return pl[2][0]
    return None


def run(rep, tier):
    rep.explanation = "Structural clauses only (see the module text); obligations are paths and call sites of impl Stack."
    rep.configs = rep.cfgs(["default"])
    c = facts.facts("default").crate("pest")
    adt = c.adt(STACK) if c else None
    if c is None or adt is None:
        r = rep.rule("C11.ANCHOR", 0, "Stack present")
        r.lost("pest::stack::Stack")
        return
    fields = adt["variants"][0]["fields"]
    methods = {b["name"]: b for b in c.bodies if b.get("impl_self") == STACK and not b.get("impl_trait") and b.get("body")}
    # roles: the live vector is what len() measures; the snapshot vector is the one whose element type is not T
    live = None
    if "len" in methods:
        for x in walk(methods["len"]["body"]):
            if kind(x) == "MethodCall" and x["m"] == "len" and vec_field(x["recv"]):
                live = vec_field(x["recv"])
    snaps = [f["name"] for f in fields if f["ty"].startswith("alloc::vec::Vec<") and f["ty"] != "alloc::vec::Vec<T>"]
    r0 = rep.rule("C11.FIELDS", 4, "the vectors of Stack are private and mutated only by Stack's own methods")
    if live is None or len(snaps) != 1:
        r0.lost("roles of Stack's fields (live vector via len(), snapshot vector by element type): %s / %s" % (live, snaps))
        return
    snap = snaps[0]
    for f in fields:
        r0.instance("field:" + f["name"], adt.get("sp", ""), f["vis"])
        if f["vis"] in ("pub", "crate") or f["vis"] == "in:pest":
            r0.violation("field:" + f["name"], adt.get("sp", ""), "field %s is visible outside the module (%s): callers can "
                         "change the stack behind the snapshot bookkeeping" % (f["name"], f["vis"]))
    nw = 0
    for b in c.bodies:
        if b.get("body") is None or "::test" in b["path"]:
            continue
        for f in fields:
            for (x, how, parent) in hirq.mutating_field_accesses(b["body"], f["name"], "pest::stack::Stack"):
                if b.get("impl_self") == STACK:
                    continue
                nw += 1
                r0.violation("write:%s<-%s" % (f["name"], b["path"]), where(x), "%s mutates Stack.%s (%s)" % (b["path"], f["name"], how))
    r0.instance("writers-outside-impl", "", str(nw))

    # ---------------------------------------------------------------- DELEGATE
    r1 = rep.rule("C11.DELEGATE", 5, "push / peek / len / is_empty act on the live vector only; pop returns the live "
                  "vector's pop on every path")
    want = {"push": "push", "peek": "last", "len": "len", "is_empty": "is_empty"}
    for name, meth in want.items():
        fn = methods.get(name)
        if fn is None:
            if name == "is_empty":
                continue
            r1.lost("Stack::" + name)
            continue
        r1.instance(name, where(fn["body"]))
        leaves = hirq.tail_leaves(fn["body"])
        calls = [x for x in walk(fn["body"]) if kind(x) == "MethodCall" and vec_field(x["recv"])]
        ok = len(calls) == 1 and calls[0]["m"] == meth and vec_field(calls[0]["recv"]) == live
        if ok and name == "push":
            params = [p["id"] for p in fn["params"] if p.get("k") == "PBind" and p.get("name") != "self"]
            ok = len(calls[0]["args"]) == 1 and hirq.local_id(calls[0]["args"][0]) in params
        if ok and name != "push":
            ok = len(leaves) == 1 and peel(leaves[0]) is calls[0]
        if not ok:
            r1.violation(name, where(fn["body"]), "Stack::%s is not exactly `self.%s.%s(..)`: it touches %s" % (
                name, live, meth, sorted(set("%s.%s" % (vec_field(x["recv"]), x["m"]) for x in calls)) or "nothing"))
    pop = methods.get("pop")
    if pop is None:
        r1.lost("Stack::pop")
    else:
        r1.instance("pop", where(pop["body"]))
        lets = hirq.lets(pop["body"])
        pops = [x for x in walk(pop["body"]) if kind(x) == "MethodCall" and x["m"] == "pop" and vec_field(x["recv"]) == live]
        if len(pops) != 1:
            r1.violation("pop", where(pop["body"]), "Stack::pop does not pop the live vector exactly once")
        else:
            for (ev, out) in exits(PathEnum(pop).paths()):
                v = hirq.path_value(ev)
                vv = peel(v) if v is not None else None
                d = 0
                while d < 6 and kind(vv) == "Path" and vv.get("res") == "local" and vv["id"] in lets:
                    vv = peel(lets[vv["id"]][0])
                    d += 1
                # `cache.pop()?` early exit returns None = what cache.pop() returned
                is_try_none = kind(vv) == "Call" and "from_residual" in str(callee(vv))
                is_some_of_pop = False
                if kind(vv) == "Call" and callee(vv) == "core::option::Option::Some" and vv["args"]:
                    a = peel(vv["args"][0])
                    src = hirq.binding_source(pop, a["id"]) if kind(a) == "Path" and a.get("res") == "local" else None
                    is_some_of_pop = src is not None and any(x is pops[0] for x in walk(src))
                if not (vv is pops[0] or is_try_none or is_some_of_pop):
                    r1.violation("pop", where(v) if v is not None else where(pop["body"]),
                                 "a path of Stack::pop returns something other than what `self.%s.pop()` returned" % live)
                    break

    # ---------------------------------------------------------------- PAIRING
    r2 = rep.rule("C11.PAIRING", 3, "snapshot pushes exactly one snapshot entry on every path; restore and "
                  "clear_snapshot pop exactly one on every path; no other method pushes or pops entries")

    def entry_ops(ev):
        pu = po = 0
        for e in ev:
            if e.kind == "call" and kind(e.node) == "MethodCall" and vec_field(e.node["recv"]) == snap:
                if e.node["m"] == "push":
                    pu += 1
                elif e.node["m"] in ("pop", "truncate", "clear", "drain", "remove", "split_off"):
                    po += 1
        return pu, po
    for name, fn in sorted(methods.items()):
        if name == "new":
            continue
        counts = set(entry_ops(ev) for (ev, out) in exits(PathEnum(fn).paths()))
        wantc = {"snapshot": {(1, 0)}, "restore": {(0, 1)}, "clear_snapshot": {(0, 1)}}.get(name, {(0, 0)})
        if name in ("snapshot", "restore", "clear_snapshot"):
            r2.instance(name, where(fn["body"]), str(sorted(counts)))
        if counts != wantc:
            r2.violation(name, where(fn["body"]),
                         "Stack::%s creates/consumes snapshot entries as %s on its paths, the protocol is %s (pushes, "
                         "pops): snapshots and their restore/clear no longer nest" % (name, sorted(counts), sorted(wantc)))
    for n in ("snapshot", "restore", "clear_snapshot"):
        if n not in methods:
            r2.lost("Stack::" + n)

    # ---------------------------------------------------------------- NOSNAP
    r3 = rep.rule("C11.NOSNAP", 1, "restore without a snapshot empties the stack")
    rs = methods.get("restore")
    if rs is not None:
        r3.instance("restore:none", where(rs["body"]))
        ok = False
        nonepaths = 0
        for (ev, out) in exits(PathEnum(rs).paths()):
            # paths on which the entry pop yielded None (match arm, failed `if let Some`, `let .. else`)
            none = hirq.option_outcome(ev, lambda x: kind(x) == "MethodCall" and x["m"] == "pop"
                                       and vec_field(x["recv"]) == snap) == "none"
            if not none:
                continue
            nonepaths += 1
            if any(e.kind == "call" and kind(e.node) == "MethodCall" and e.node["m"] in ("clear", "truncate")
                   and vec_field(e.node["recv"]) == live for e in ev):
                ok = True
            else:
                ok = False
                break
        if nonepaths == 0 or not ok:
            r3.violation("restore:none", where(rs["body"]), "on the path where there is no snapshot, restore does not "
                         "clear the live vector: the model empties the stack there")

    # ---------------------------------------------------------------- AGREE
    r5 = rep.rule("C11.AGREE", 3,
                  "test and update agree: pop decrements the remaining-originals count of the latest snapshot only under a "
                  "test of that same count against the length before the pop; restore truncates the live vector to the value "
                  "it compared with the live length; restore consults no snapshot entry but the one it consumed; every path "
                  "of clear_snapshot that consumed an entry adjusts the popped vector")

    def same_place(a, b):
        a, b = peel(a), peel(b)
        if kind(a) == "Path" and kind(b) == "Path" and a.get("res") == "local" and b.get("res") == "local":
            return a["id"] == b["id"]
        pa, pb = hirq.place(a), hirq.place(b)
        return pa is not None and pb is not None and pa[1] == pb[1] and pa[2] == pb[2]

    def conds_of(ctx, node):
        out = []
        for g in ctx.guards(node):
            if g[0] == "if" and g[2] is True:
                out.append(peel(g[1]))
            elif g[0] == "guard":
                out.append(peel(g[1]))
        res = []
        for cnd in out:
            stack = [cnd]
            while stack:
                x = peel(stack.pop())
                if kind(x) == "Binary" and x["op"] == "&&":
                    stack += [x["l"], x["r"]]
                else:
                    res.append(x)
        return res
    if pop is not None:
        ctx = hirq.Ctx(pop)
        lets = hirq.lets(pop["body"])
        decs = [x for x in walk(pop["body"]) if kind(x) == "AssignOp" and x.get("op") in ("-=", "-") and hirq.lit_value(peel(x["r"])) == 1]
        r5.instance("pop:guard", where(pop["body"]), "%d decrements" % len(decs))
        if not decs:
            r5.violation("pop:guard", where(pop["body"]), "pop no longer decrements a remaining-originals count")
        for dcr in decs:
            ok = False
            for cnd in conds_of(ctx, dcr):
                if kind(cnd) == "Binary" and cnd["op"] == "==":
                    for (x, y) in ((cnd["l"], cnd["r"]), (cnd["r"], cnd["l"])):
                        if same_place(x, dcr["l"]):
                            other = peel(y)
                            d = 0
                            while d < 4 and kind(other) == "Path" and other.get("res") == "local" and other["id"] in lets:
                                other = peel(lets[other["id"]][0])
                                d += 1
                            if kind(other) == "MethodCall" and other["m"] == "len" and vec_field(other["recv"]) == live:
                                ok = True
            if not ok:
                # `self.lengths.last_mut().filter(|(_, remained)| len == *remained)` and then `if let Some((_, remained)) =
                # .. { *remained -= 1 }`: the test sits in the filter's closure, on the same component of the same entry
                def tuple_slot(pat, lid):
                    for q in walk(pat):
                        if q.get("k") == "PTuple":
                            for j, sub in enumerate(q.get("pats", [])):
                                if any(b_[0] == lid for b_ in hirq.pat_bindings(sub)):
                                    return j
                    return None
                lid = hirq.local_id(dcr["l"])
                src = hirq.binding_source(pop, lid) if lid is not None else None
                pat = None
                for n2 in walk(pop["body"]):
                    if n2.get("k") in ("LetExpr", "Let") and n2.get("pat") is not None and any(
                            b_[0] == lid for b_ in hirq.pat_bindings(n2["pat"])):
                        pat = n2["pat"]
                d = 0
                src = peel(src) if src is not None else None
                while src is not None and d < 4 and kind(src) == "Path" and src.get("res") == "local" and src["id"] in lets:
                    src = peel(lets[src["id"]][0])
                    d += 1
                if src is not None and pat is not None and kind(src) == "MethodCall" and src["m"] == "filter" and src["args"] \
                        and kind(peel(src["args"][0])) == "Closure" and vec_field(peel(src["recv"]).get("recv", {})) == snap:
                    clo = peel(src["args"][0])
                    j = tuple_slot(pat, lid)
                    for cnd in walk(clo["body"]):
                        if kind(cnd) == "Binary" and cnd["op"] == "==":
                            for (x, y) in ((cnd["l"], cnd["r"]), (cnd["r"], cnd["l"])):
                                xl = hirq.local_id(x)
                                if xl is not None and clo.get("params") and tuple_slot(clo["params"][0], xl) == j and j is not None:
                                    other = peel(y)
                                    d = 0
                                    while d < 4 and kind(other) == "Path" and other.get("res") == "local" and other["id"] in lets:
                                        other = peel(lets[other["id"]][0])
                                        d += 1
                                    if kind(other) == "MethodCall" and other["m"] == "len" and vec_field(other["recv"]) == live:
                                        ok = True
            if not ok:
                r5.violation("pop:guard", where(dcr), "the count pop decrements (`%s`) is not the one it compared with the "
                             "length before the pop (`==`): elements that are not originals of the snapshot are recorded, "
                             "or originals are not" % hirq.expr_text(dcr["l"]))
    if rs is not None:
        ctx = hirq.Ctx(rs)
        truncs = [x for x in walk(rs["body"]) if kind(x) == "MethodCall" and x["m"] == "truncate" and vec_field(x["recv"]) == live]
        r5.instance("restore:truncate", where(rs["body"]), "%d truncations of the live vector" % len(truncs))
        for tr in truncs:
            for cnd in conds_of(ctx, tr):
                if kind(cnd) == "Binary" and cnd["op"] in ("<", ">", "<=", ">="):
                    sides = [peel(cnd["l"]), peel(cnd["r"])]
                    lens = [s for s in sides if kind(s) == "MethodCall" and s["m"] == "len" and vec_field(s["recv"]) == live]
                    if lens:
                        other = sides[1] if sides[0] is lens[0] else sides[0]
                        if not same_place(other, tr["args"][0]):
                            r5.violation("restore:truncate", where(cnd), "restore compares `%s` with the live length but "
                                         "truncates to `%s`: when they differ the originals are replayed on top of elements "
                                         "pushed since the snapshot" % (hirq.expr_text(other), hirq.expr_text(tr["args"][0])))
        others = [x for x in walk(rs["body"]) if kind(x) in ("MethodCall", "Index") and not any("debug_assert" in e for e in (x.get("exp") or []))
                  and ((kind(x) == "MethodCall" and vec_field(x["recv"]) == snap and x["m"] not in ("pop", "is_empty", "len"))
                       or (kind(x) == "Index" and vec_field(x["base"]) == snap))]
        r5.instance("restore:local", where(rs["body"]))
        for x in others:
            r5.violation("restore:local", where(x), "restore reads another snapshot's entry (%s): the model reinstates the "
                         "latest copy only, whatever the older snapshots recorded" % hirq.expr_text(x)[:60])
    cs = methods.get("clear_snapshot")
    if cs is not None:
        popped_fields = [f["name"] for f in fields if f["name"] not in (live, snap)]
        r5.instance("clear:local", where(cs["body"]))
        for x in walk(cs["body"]):
            if kind(x) in ("MethodCall", "Index") and not any("debug_assert" in e for e in (x.get("exp") or [])):
                f0 = vec_field(x["recv"]) if kind(x) == "MethodCall" else vec_field(x["base"])
                if f0 == live:
                    r5.violation("clear:local", where(x), "clear_snapshot looks at the live vector (%s): discarding a snapshot "
                                 "depends only on what the two snapshot entries recorded, and leaves the contents alone"
                                 % hirq.expr_text(x)[:50])
        r5.instance("clear:adjust", where(cs["body"]))
        for (ev, out) in exits(PathEnum(cs).paths()):
            consumed = hirq.option_outcome(ev, lambda x: kind(x) == "MethodCall" and x["m"] == "pop"
                                           and vec_field(x["recv"]) == snap) == "some"
            if not consumed:
                continue
            def helper_ops(node):
                """operations on the popped vector inside a `&mut self` helper of Stack that this call runs"""
                h = c.fn(callee(node)) if isinstance(callee(node), str) else None
                if h is None or h is cs or h.get("impl_self") != cs.get("impl_self") or h.get("body") is None \
                        or not (h.get("inputs") and str(h["inputs"][0]).startswith("&mut")):
                    return []
                return [x for x in walk(h["body"]) if kind(x) == "MethodCall" and vec_field(x["recv"]) in popped_fields
                        and x["m"] not in ("len", "is_empty", "capacity")]

            def adjusts(e):
                if e.kind != "call":
                    return False
                if kind(e.node) == "MethodCall" and e.node["m"] in ("drain", "truncate", "split_off", "clear") \
                        and vec_field(e.node["recv"]) in popped_fields:
                    return True
                if any(o["m"] in ("drain", "truncate", "split_off", "clear") for o in helper_ops(e.node)):
                    return True
                # `discard(&mut self.popped, ..)`: the vector handed to a helper by mutable reference
                for a in hirq.call_args(e.node):
                    if kind(a) == "AddrOf" and a.get("mut") and vec_field(a["e"]) in popped_fields:
                        return True
                return False
            # which end: `pop` appends what it removes, top-down, so within the cleared snapshot's segment of the
            # popped vector the elements an older snapshot still needs (its own originals, the deepest ones) are
            # the LAST ones.  Where a parent snapshot exists, the merge must therefore remove from the front of the
            # segment; an operation that can only cut a suffix (truncate / pop / clear) keeps the wrong elements.
            has_parent = hirq.option_outcome(ev, lambda x: kind(x) == "MethodCall" and x["m"] in ("last_mut", "last")
                                             and vec_field(x["recv"]) == snap) == "some"
            appends = pop is not None and any(kind(x) == "MethodCall" and x["m"] == "push" and vec_field(x["recv"]) in popped_fields
                                              for x in walk(pop["body"]))
            if has_parent and appends:
                ops = [e.node for e in ev if e.kind == "call" and kind(e.node) == "MethodCall"
                       and vec_field(e.node["recv"]) in popped_fields and e.node["m"] not in ("len", "is_empty", "capacity")]
                for e in ev:
                    if e.kind == "call":
                        ops += helper_ops(e.node)
                handed = any(kind(a) == "AddrOf" and a.get("mut") and vec_field(a["e"]) in popped_fields
                             for e in ev if e.kind == "call" for a in hirq.call_args(e.node))
                r5.instance("clear:which-end", where(cs["body"]), ",".join(o["m"] for o in ops))
                if ops and not handed and all(o["m"] in ("truncate", "pop", "clear") for o in ops):
                    r5.violation("clear:which-end", where(ops[0]),
                                 "with a parent snapshot present, clear_snapshot only cuts the END of the popped vector "
                                 "(%s), but pop appends: the elements the parent still needs are the last ones of the "
                                 "cleared snapshot's segment, so the parent's restore reinstates elements pushed after "
                                 "its snapshot" % ",".join(o["m"] for o in ops))
                    break
            # length vs count: `truncate(n)` keeps n elements, `drain(a..b)` / `split_off(a)` index from the front. What
            # clear_snapshot knows about the cleared snapshot are COUNTS (len - remained); a position in `popped` has to be
            # computed from popped.len().  `truncate(popped_count)` keeps the wrong number of elements.
            cl = hirq.lets(cs["body"])

            def from_len(e, depth=0):
                e = peel(e)
                if depth > 4 or e is None:
                    return False
                if hirq.lit_value(e) == 0:
                    return True
                for y in walk(e):
                    if kind(y) == "MethodCall" and y["m"] == "len" and vec_field(y["recv"]) in popped_fields:
                        return True
                    if kind(y) == "Path" and y.get("res") == "local" and y["id"] in cl and cl[y["id"]][0] is not None \
                            and from_len(cl[y["id"]][0], depth + 1):
                        return True
                return False
            for e in ev:
                if e.kind == "call" and kind(e.node) == "MethodCall" and e.node["m"] in ("truncate", "split_off") \
                        and vec_field(e.node["recv"]) in popped_fields and e.node["args"]:
                    r5.instance("clear:amount", where(e.node), hirq.expr_text(e.node["args"][0])[:40])
                    if not from_len(e.node["args"][0]):
                        r5.violation("clear:amount", where(e.node),
                                     "clear_snapshot calls %s(%s) on the popped vector with an argument that is not computed "
                                     "from its length: the argument is the number of elements to KEEP (an index), what the "
                                     "snapshot entry gives is the number to remove" % (e.node["m"], hirq.expr_text(e.node["args"][0])[:40]))
            if not any(adjusts(e) for e in ev):
                r5.violation("clear:adjust", where(cs["body"]), "a path of clear_snapshot consumes a snapshot entry without "
                             "adjusting the popped vector: what the cleared snapshot recorded stays behind and is replayed "
                             "by an ancestor's restore")
                break

    # ---------------------------------------------------------------- WIDTH
    rw = rep.rule("C11.WIDTH", 1,
                  "the bookkeeping of the stack is kept in usize throughout: no operation of Stack converts a length or a "
                  "count with `as` (a narrowing cast wraps silently - a snapshot taken above 2^32 elements records the height "
                  "modulo 2^32 and restore truncates to it), and the snapshot records are declared over usize")
    def int_casts(body):
        return [x for x in walk(body) if kind(x) == "Cast" and str(x.get("ty", "")) in (
            "u8", "u16", "u32", "i8", "i16", "i32")]        # narrower than usize on every supported target
    probe = {"k": "Block", "stmts": [], "expr": {"k": "Cast", "ty": "u32", "e": {"k": "Path", "res": "local", "id": 1}}}
    if len(int_casts(probe)) != 1:
        rw.lost("self-test of the cast detector")
    else:
        for name, fn in sorted(methods.items()):
            rw.instance("casts:" + name, where(fn["body"]))
            for x in int_casts(fn["body"]):
                if x.get("exp"):
                    continue
                rw.violation("casts:" + name, where(x), "Stack::%s converts `%s` with `as %s`: lengths and counts of the stack "
                             "are usize; a converted height wraps for tall stacks and the snapshot no longer restores the "
                             "model's copy" % (name, hirq.expr_text(x["e"])[:40], x.get("ty")))
        sadt = c.adt(STACK)
        if sadt is None:
            rw.lost("struct Stack")
        else:
            for fdef in sadt["variants"][0]["fields"]:
                ty = str(fdef["ty"])
                if "(" in ty or "usize" in ty:
                    rw.instance("field:" + fdef["name"], "", ty[:60])
                    import re as _re
                    narrow_t = _re.findall(r"\b(u8|u16|u32|i8|i16|i32)\b", ty)
                    if narrow_t:
                        rw.violation("field:" + fdef["name"], "", "Stack.%s is declared as %s: heights and counts narrower "
                                     "than usize wrap for tall stacks" % (fdef["name"], ty[:60]))
    # ---------------------------------------------------------------- NOPANIC
    r4 = rep.rule("C11.NOPANIC", 6, "no operation of Stack contains an explicit panic site (debug assertions excepted)")
    for name, fn in sorted(methods.items()):
        r4.instance(name, where(fn["body"]))
        for x in walk(fn["body"]):
            cal = callee(x) if kind(x) in ("Call", "MethodCall") else None
            exp = " ".join(x.get("exp") or [])
            if "debug_assert" in exp:
                continue
            if isinstance(cal, str) and (cal in hirq.PANIC_CALLEES or cal in (
                    "core::option::Option::unwrap", "core::option::Option::expect", "core::result::Result::unwrap",
                    "core::result::Result::expect")):
                r4.violation(name, where(x), "Stack::%s contains %s: some history panics (the model never does)" % (
                    name, cal.split("::")[-1]))
