"""C05 — optimizer passes preserve the meaning of every grammar (DESIGN.md section 4, C05).

Semantic preservation of each rewrite is NOT decided.  Decided structural clauses:
  TRAVERSE        the generic traversals the passes rely on descend into every sub-expression
  RESTORE-LEAVES  every leaf whose failure can leave the stack modified is recognised by the restorer
  RESTORE-WRAP    every branching operator whose failed child is absorbed is wrapped by the restorer
  UNROLL          the variants the conversion declares unreachable are exactly those unroll removes
  WSGUARD         rule-type tests that enable whitespace-sensitive rewrites admit only @ and $ rules
  PIPELINE        every pass is applied to every rule; unroll precedes conversion; the restorer runs last
                  on the converted rules
"""
import re
from .. import facts, hirq, traverse
from ..hirq import walk, kind, callee, where, peel, PathEnum, exits

LEVEL = "other"
EXPR = "pest_meta::ast::Expr"
OEXPR = "pest_meta::optimizer::OptimizedExpr"
OPTIMIZE = "pest_meta::optimizer::optimize"
PS = "pest::parser_state::ParserState"
STACK = "pest::stack::Stack"

MANIFEST = {
    "technique": "exhaustiveness analysis of enum traversals (variant x recursive field must flow into the "
                 "recursion), effect summaries of ParserState methods (fail-dirty leaves) vs the restorer's "
                 "recognition table, writer/reader variant-set agreement, call-order check (typed HIR, per "
                 "feature configuration)",
    "text": "Decides the structural part of 'an expression that fails leaves the stack unmodified' and of 'each "
            "pass sees the whole grammar': the traversals every pass uses reach every child of every variant "
            "present in the analysed configuration; the set of stack primitives that can fail after modifying "
            "the stack (derived from effect summaries of ParserState and the back-end's built-in dispatch) is "
            "contained in what the restorer recognises; the restorer handles every operator that absorbs a "
            "child's failure; unroll removes exactly the variants the conversion cannot represent. It does not "
            "decide that a rewrite (e.g. the lister's) preserves the language.",
    "note": "Necessary conditions only. Three (traversal, variant) pairs are exempt with reasons (DESIGN.md C05). "
            "Semantic soundness of individual rewrites is out of reach of static rules and is not claimed.",
}

# (traversal fn suffix, variant) pairs exempt from TRAVERSE, each with the checkable half of its reason
EXEMPT = {
    ("OptimizedExpr::map_bottom_up::map_internal", "RestoreOnErr"):
        "never in this traversal's input: RestoreOnErr is constructed only by the closure the restorer passes "
        "to this very traversal, and a bottom-up map never revisits what the closure returns",
    # the top-down iterator over OptimizedExpr (whichever of its methods selects the children)
    ("OptimizedExprTopDownIterator::", "RestoreOnErr"):
        "what it hides already restores the stack on failure",
    ("OptimizedExprTopDownIterator::", "RepOnce"):
        "both back-ends wrap RepOnce in `sequence`, so its failure is already clean",
}


def run(rep, tier):
    rep.explanation = (
        "Traversal exhaustiveness is decided per feature configuration from the post-cfg ADT (so grammar-extras "
        "variants are obligations only there). Fail-dirty stack primitives are derived by path enumeration of "
        "impl ParserState (a path that pops and then can return Err) and mapped to built-in names through the "
        "VM's dispatch table; the restorer's recognition table is read from child_modifies_state's match arms.")
    rep.configs = rep.cfgs(["default", "extras"])
    for cfg in rep.configs:
        f = facts.facts(cfg)
        meta = f.crate("pest_meta", want_feature="grammar-extras" if cfg == "extras" else None)
        pest = f.crate("pest")
        vm = f.crate("pest_vm")
        sfx = "" if cfg == "default" else "@" + cfg
        trav(rep, meta, sfx)
        leaves(rep, meta, pest, vm, sfx)
        wrap(rep, meta, vm, sfx)
        unroll(rep, meta, sfx)
        pipeline(rep, meta, sfx)
        wsguard(rep, meta, sfx)
        accum(rep, meta, sfx)
        dropped(rep, meta, sfx)
        merged(rep, meta, sfx)


def generic_traversals(meta, roots, enums):
    cg = hirq.CallGraph([meta])
    reach = cg.reachable(roots)
    out = []
    pending = []
    for p in sorted(reach):
        fn = meta.fn(p)
        if fn is None or fn.get("impl_trait"):
            continue
        for e in enums:
            ms = traverse.enum_matches(fn, e)
            if not ms:
                continue
            rf = traverse.rec_fields(meta, e) or {}
            big = max(ms, key=lambda m: len(m["arms"]))
            explicit = set()
            for arm in big["arms"]:
                for v in hirq.pat_variants(arm["pat"]):
                    if rf.get(v.split("::")[-1]):
                        explicit.add(v)
            if len(explicit) < 4:
                continue
            selfrec = any(callee(n) == p for n in walk(fn["body"]))
            worklist = any(kind(n) == "Assign" and (hirq.place(n["l"]) or ("",))[0] == "self" for n in walk(fn["body"]))
            if selfrec or worklist:
                out.append((fn, e))
            else:
                pending.append((fn, e))
    # a child selector split off a traversal: it matches the variants and hands the children back (its result type
    # mentions the enum by reference) to a caller that is a worklist/recursive traversal of the same family
    tpaths = set(f["path"] for (f, e) in out)
    worklisty = set(p for p in reach if meta.fn(p) is not None and any(
        kind(n) == "Assign" and (hirq.place(n["l"]) or ("",))[0] == "self" for n in walk(meta.fn(p)["body"])))
    selfrec_fns = set(p for p in reach if meta.fn(p) is not None and any(callee(n) == p for n in walk(meta.fn(p)["body"])))
    for (fn, e) in pending:
        callers = set(pp for (pp, n) in cg.callers_of(fn["path"]))
        if e.split("::")[-1] in str(fn.get("output", "")) and callers & (tpaths | worklisty):
            out.append((fn, e, "returns-children"))
            continue
        # the arm table of one or more recursive traversals factored into `map_children(expr, recurse)`: the children
        # flow into calls of a closure parameter, and the callers are recursive functions
        cparams = [p0["id"] for p0 in fn["params"] if p0.get("k") == "PBind" and any(
            kind(n) == "Call" and isinstance(callee(n), tuple) and callee(n)[1] == p0["id"] for n in walk(fn["body"]))]
        if cparams and callers & (tpaths | selfrec_fns):
            out.append((fn, e, "closure-rec", cparams))
    return out, cg, reach


def trav(rep, meta, sfx):
    floor = 50 if not sfx else 57
    r = rep.rule("C05.TRAVERSE" + sfx, floor,
                 "every generic traversal reachable from optimize() matches every child-carrying variant "
                 "explicitly and passes every child into the recursion / worklist")
    ts, cg, reach = generic_traversals(meta, [OPTIMIZE], [EXPR, OEXPR])
    if len(ts) < 3:
        r.lost("generic traversals reachable from optimize (found %d)" % len(ts))
    # checkable half of the map_bottom_up x RestoreOnErr exemption: who constructs RestoreOnErr
    ctor_sites = []
    for b in meta.bodies:
        if b.get("exp"):
            continue  # derive-generated impls (Clone) rebuild, they do not introduce
        for n in walk(b["body"]):
            if kind(n) == "Call" and callee(n) == OEXPR + "::RestoreOnErr":
                ctor_sites.append((b["path"], n))
    ctor_ok = bool(ctor_sites) and all(p.startswith("pest_meta::optimizer::restorer::") for p, _ in ctor_sites)
    for item in ts:
        fn, e = item[0], item[1]
        mode = item[2] if len(item) > 2 else None
        inst, holes = traverse.check(meta, fn, e, rec_callees=[("local", pid) for pid in item[3]] if mode == "closure-rec" else None,
                                     returns_children=(mode == "returns-children"))
        short = fn["path"].replace("pest_meta::", "")
        for (v, w) in inst:
            r.instance("%s:%s" % (short, v), w)
        for (v, reason, w) in holes:
            ex = next((why for (sfx_fn, var), why in EXEMPT.items()
                       if (fn["path"].endswith(sfx_fn) or (sfx_fn.endswith("::") and sfx_fn in fn["path"])) and var == v), None)
            if ex is not None:
                if (v == "RestoreOnErr" and "map_bottom_up" in fn["path"]) and not ctor_ok:
                    r.violation("%s:%s" % (short, v), w, "exemption no longer justified: RestoreOnErr is "
                                "constructed outside the restorer (%s)" % [p for p, _ in ctor_sites])
                else:
                    r.note("exempt %s x %s: %s" % (short, v, ex))
                continue
            r.violation("%s:%s" % (short, v), w,
                        "%s: %s; every pass built on this traversal (the restorer in particular) silently "
                        "skips that subtree" % (v, reason))


def fail_dirty_methods(pest):
    """ParserState methods without closure parameter that have an exit path which pops/pushes the
    stack and may return Err afterwards."""
    out = {}
    for fn in pest.bodies:
        if fn.get("impl_self") != PS or not fn.get("output", "").startswith("core::result::Result<"):
            continue
        if any(p.get("ty") == "F" for p in fn["params"]):
            continue
        if not any(callee(n) in (STACK + "::pop", STACK + "::push") for n in walk(fn["body"])):
            continue
        pe = PathEnum(fn)
        dirty = False
        for (ev, o) in exits(pe.paths()):
            mi = hirq.index_of(ev, lambda e: e.kind == "call" and callee(e.node) in (STACK + "::pop",))
            if mi < 0:
                continue
            v = hirq.path_value(ev)
            v = peel(v) if v is not None else None
            if v is None:
                continue
            if kind(v) == "Call" and callee(v) == "core::result::Result::Ok":
                continue
            # Err(..) or a call that may fail
            dirty = True
        out[fn["path"]] = dirty
    return out


def vm_builtin_table(vm):
    """string-literal arm of Vm::parse_rule -> set of ParserState methods it calls."""
    fn = vm.fn("pest_vm::Vm::parse_rule")
    if fn is None:
        return None
    table = {}
    for n in walk(fn["body"]):
        if kind(n) == "Match" and n.get("src") == "match" and n.get("sty", "").endswith("str"):
            for arm in n["arms"]:
                p = arm["pat"]
                if p.get("k") == "PLit" and p.get("lk") == "str":
                    ms = set(callee(x) for x in walk(arm["body"]) if kind(x) == "MethodCall"
                             and isinstance(callee(x), str) and callee(x).startswith(PS + "::"))
                    table[p["v"]] = ms
    return table


def role_fns(meta):
    """Anchors located by role (private names may change): the restorer's wrapping function, its
    stack-effect predicate, the Expr -> OptimizedExpr conversion and the unrolling pass."""
    cg = hirq.CallGraph([meta])
    reach = cg.reachable([OPTIMIZE])
    out = {"wrap": None, "modifies": None, "convert": None, "unroll": None}
    cands = [meta.fn(p) for p in sorted(reach) if meta.fn(p) is not None and p.startswith("pest_meta::optimizer::")
             and not meta.fn(p).get("exp")]
    # functions that put a RestoreOnErr around something: the wrapping function itself, or a helper it calls per child
    wrappers = set(fn["path"] for fn in cands
                   if any(kind(n) == "Call" and callee(n) == OEXPR + "::RestoreOnErr" for n in walk(fn["body"])))
    out["wrappers"] = wrappers
    for fn in cands:
        if not traverse.enum_matches(fn, OEXPR):
            continue
        if fn["path"] in wrappers or any(kind(n) in ("Call", "MethodCall") and callee(n) in wrappers for n in walk(fn["body"])):
            if out["wrap"] is None or fn["path"] in wrappers:
                out["wrap"] = fn
    if out["wrap"] is not None:
        hosts = [out["wrap"]] + [meta.fn(p) for p in wrappers if meta.fn(p) is not None]
        for h in hosts:
            for (c, n) in hirq.call_sites(h["body"]):
                f2 = meta.fn(c) if isinstance(c, str) else None
                if f2 is not None and f2.get("output") == "bool" and traverse.enum_matches(f2, OEXPR):
                    out["modifies"] = f2
    for fn in cands:
        if fn.get("output") == OEXPR and fn.get("inputs") == [EXPR]:
            # recursive directly or through a boxing helper (`lower_boxed(inner)` -> `lower(*inner)`)
            direct = any(callee(n) == fn["path"] for n in walk(fn["body"]))
            via = False
            for (c2, n2) in hirq.call_sites(fn["body"]):
                h = meta.fn(c2) if isinstance(c2, str) else None
                if h is not None and h is not fn and any(callee(x) == fn["path"] for x in walk(h["body"])):
                    via = True
            if (direct or via) and traverse.enum_matches(fn, EXPR):
                out["convert"] = fn
    generic = set(item[0]["path"] for item in generic_traversals(meta, [OPTIMIZE], [EXPR, OEXPR])[0])
    for fn in cands:
        if fn["path"] in generic or fn is out["convert"]:
            continue
        for m in traverse.enum_matches(fn, EXPR):
            vs = set(v.split("::")[-1] for arm in m["arms"] for v in hirq.pat_variants(arm["pat"]))
            if "RepExact" in vs and "RepMinMax" in vs:
                out["unroll"] = fn
    return out


def guard_string_set(g):
    """String literals for which a guard over a name is true: `n == "A"`, `.. || ..`, `matches!(n, "A" | "B")`,
    `["A", "B"].contains(&n)`."""
    g = peel(g)
    k = kind(g)
    if k == "Binary" and g["op"] == "||":
        return guard_string_set(g["l"]) | guard_string_set(g["r"])
    if k == "Binary" and g["op"] == "==":
        for side in (g["r"], g["l"]):
            lit = hirq.lit_value(peel(side))
            if isinstance(lit, str):
                return {lit}
        return set()
    if k == "MethodCall" and g.get("path") == "core::cmp::PartialEq::eq":
        for side in [g["recv"]] + g["args"]:
            lit = hirq.lit_value(peel(side))
            if isinstance(lit, str):
                return {lit}
        return set()
    if k == "Match":
        out = set()
        for arm in g["arms"]:
            if hirq.lit_value(peel(arm["body"])) is True and arm.get("guard") is None:
                out |= set(q.get("v") for q in walk(arm["pat"]) if q.get("k") == "PLit" and q.get("lk") == "str")
        return out
    if k == "MethodCall" and g["m"] == "contains":
        rc = peel(g["recv"])
        if kind(rc) == "Array":
            vals = rc.get("lits") or [hirq.lit_value(peel(e)) for e in rc.get("elems", [])]
            return set(v for v in vals if isinstance(v, str))
    return set()


def restorer_table(meta):
    """(recognised built-in names, recognised variants) from the restorer's stack-effect predicate."""
    fn = role_fns(meta)["modifies"]
    if fn is None:
        return None, None, None
    ms = traverse.enum_matches(fn, OEXPR)
    if not ms:
        return None, None, None
    m = ms[0]
    names, variants = set(), set()
    for arm in m["arms"]:
        pv = hirq.pat_variants(arm["pat"])
        body_true = hirq.lit_value(arm["body"]) is True
        if not body_true:
            continue
        if arm.get("guard") is not None:
            if OEXPR + "::Ident" in pv:
                names |= guard_string_set(arm["guard"])
        else:
            for v in pv:
                variants.add(v.split("::")[-1])
    return names, variants, m


def leaves(rep, meta, pest, vm, sfx):
    r = rep.rule("C05.RESTORE-LEAVES" + sfx, 4,
                 "built-in leaves mapped to a ParserState method that can return Err after popping the stack "
                 "are all recognised by restorer::child_modifies_state")
    dirty = fail_dirty_methods(pest)
    table = vm_builtin_table(vm) if vm else None
    names, variants, m = restorer_table(meta)
    if not dirty or table is None or names is None:
        r.lost("fail-dirty summaries / VM built-in table / restorer table")
        return
    for p, d in sorted(dirty.items()):
        r.note("%s: %s" % (p, "fail-dirty" if d else "clean on failure"))
    for name, methods in sorted(table.items()):
        bad = [mth for mth in methods if dirty.get(mth)]
        if not bad:
            continue
        r.instance("leaf:" + name, where(m), "-> %s" % sorted(bad))
        if name not in names:
            r.violation("leaf:" + name, where(m),
                        "built-in %s maps to %s, which can fail after popping, but the restorer does not treat "
                        "it as stack-modifying: in `(%s | x)` the alternative starts with a modified stack"
                        % (name, sorted(x.split("::")[-1] for x in bad), name))
    if "Push" not in variants:
        r.violation("variant:Push", where(m), "PUSH is not recognised as stack-modifying")
    else:
        r.instance("variant:Push", where(m))


def wrap(rep, meta, vm, sfx):
    r = rep.rule("C05.RESTORE-WRAP" + sfx, 3,
                 "the restorer wraps the child of every operator whose back-end translation absorbs the child's "
                 "failure outside a `sequence` (optional / repeat first iteration / ordered choice)")
    roles = role_fns(meta)
    fn = roles["wrap"]
    if fn is None:
        r.lost("the restorer function that inserts RestoreOnErr")
        return
    wrapper_paths = roles.get("wrappers", set())
    ms = traverse.enum_matches(fn, OEXPR)
    if not ms:
        r.lost("match on OptimizedExpr in wrap_branching_exprs")
        return
    # shape: the restorer only *adds* RestoreOnErr; an arm that matched operator V gives back operator V (or what it was
    # given) on every path - `e+` handed back as `e*` changes what the rule accepts
    rs = rep.rule("C05.RESTORE-SHAPE" + sfx, 2,
                  "every arm of the restorer's wrapping function rebuilds the operator it matched on every path (its "
                  "children wrapped in RestoreOnErr or unchanged), or returns its argument unchanged")
    for arm in ms[0]["arms"]:
        vs = [v for v in hirq.pat_variants(arm["pat"]) if str(v).startswith(OEXPR + "::")]
        if not vs or hirq.pat_is_catchall(arm["pat"]):
            continue
        leaves = hirq.tail_leaves(arm["body"]) + [x["e"] for x in walk(arm["body"]) if kind(x) == "Ret" and x.get("e") is not None]
        for lf in leaves:
            lf = peel(lf)
            key = "arm:" + "+".join(sorted(v.split("::")[-1] for v in vs))
            rs.instance(key, where(lf), hirq.expr_text(lf)[:40])
            if kind(lf) == "Call" and isinstance(callee(lf), str) and callee(lf).startswith(OEXPR + "::"):
                if callee(lf) not in vs:
                    rs.violation(key, where(lf),
                                 "the restorer hands back %s for a matched %s: the pass that only adds RestoreOnErr "
                                 "wrappers changes the operator (e.g. `e+` becomes `e*`, which also matches nothing)"
                                 % (callee(lf).split("::")[-1], "/".join(v.split("::")[-1] for v in vs)))
    handled = {}
    for arm in ms[0]["arms"]:
        for v in hirq.pat_variants(arm["pat"]):
            wraps = [n for n in walk(arm["body"]) if kind(n) == "Call" and (
                callee(n) == OEXPR + "::RestoreOnErr" or (callee(n) in wrapper_paths and callee(n) != fn["path"]))]
            handled[v.split("::")[-1]] = len(wraps)
    # absorbing operators, derived from the VM translation: an arm of parse_expr whose child call
    # `self.parse_expr(child)` is not directly inside a `sequence`/`lookahead`/`restore_on_err`/`stack_push`
    # closure but inside `optional`, or is the receiver of `or_else`
    absorbing = vm_absorbing_variants(vm)
    if absorbing is None:
        r.lost("Vm::parse_expr arms")
        return
    for v, nchild in sorted(absorbing.items()):
        r.instance("op:" + v, where(ms[0]), "children absorbed: %d, wrapped by restorer: %d" % (nchild, handled.get(v, 0)))
        if handled.get(v, 0) < nchild:
            r.violation("op:" + v, where(ms[0]),
                        "%s absorbs the failure of %d child(ren) but the restorer wraps %d: a child that fails "
                        "after POP leaves the stack modified for what is tried next" % (v, nchild, handled.get(v, 0)))


def vm_absorbing_variants(vm):
    if vm is None:
        return None
    fn = vm.fn("pest_vm::Vm::parse_expr")
    if fn is None:
        return None
    ms = traverse.enum_matches(fn, OEXPR)
    if not ms:
        return None
    out = {}
    for arm in ms[0]["arms"]:
        vs = [v.split("::")[-1] for v in hirq.pat_variants(arm["pat"])]
        if not vs:
            continue
        n = count_absorbed(arm["body"], fn["path"], vm)
        if n:
            for v in vs:
                out[v] = n
    return out


def count_absorbed(body, self_path, crate=None):
    """Number of recursive child translations whose Err is absorbed before any enclosing
    sequence/lookahead/restore_on_err/stack_push can clean up."""
    cnt = 0
    depth = [0]
    blets = hirq.lets(body)

    def visit(n, shield, absorbed):
        nonlocal cnt
        k = kind(n)
        if k == "MethodCall":
            m = n["m"]
            p = n.get("path", "")
            if p == self_path or m == "parse_expr":
                if absorbed and not shield:
                    cnt += 1
                return
            last = peel(n["args"][-1]) if n["args"] else None
            if last is not None and kind(last) == "Path" and last.get("res") == "local" and last["id"] in blets \
                    and kind(peel(blets[last["id"]][0])) == "Closure":
                last = peel(blets[last["id"]][0])      # `let inner = |state| ..; state.optional(inner)`
            if p.startswith(PS + "::") and n["args"] and kind(last) == "Closure":
                clo = last
                visit(n["recv"], shield, absorbed)
                if m in ("sequence", "lookahead", "restore_on_err"):
                    visit(clo["body"], True, absorbed)
                elif m in ("optional",):
                    visit(clo["body"], False, True)
                elif m == "repeat":
                    visit(clo["body"], False, True)
                else:
                    visit(clo["body"], shield, absorbed)
                return
            if m == "or_else" and p.startswith("core::result::Result"):
                # receiver's failure is absorbed by the alternative; the alternative's own failure
                # propagates (but a later alternative may absorb it: treat both as absorbed, as the
                # restorer does for lhs and rhs)
                visit(n["recv"], False, True)
                for a in n["args"]:
                    if kind(a) == "Closure":
                        visit(a["body"], False, True)
                return
            if m == "and_then" and p.startswith("core::result::Result"):
                visit(n["recv"], shield, absorbed)
                for a in n["args"]:
                    if kind(a) == "Closure":
                        visit(a["body"], shield, absorbed)
                return
            h = crate.fn(p) if crate is not None and p.startswith("pest_vm::") and p != self_path else None
            if h is not None and h.get("body") is not None and depth[0] < 3 and any(
                    "OptimizedExpr" in str(i) for i in h.get("inputs", [])) and not any(
                    kind(x) in ("Call", "MethodCall") and callee(x) == p for x in walk(h["body"])):
                # a block of the arm moved into a private helper of the VM: its body runs in this context
                depth[0] += 1
                visit(h["body"], shield, absorbed)
                depth[0] -= 1
                return
            visit(n["recv"], shield, absorbed)
            for a in n["args"]:
                visit(a, shield, absorbed)
            return
        if k == "Closure":
            visit(n["body"], shield, absorbed)
            return
        if k == "Match" and n.get("src") != "try" and len(n.get("arms", [])) == 2:
            # `match self.parse_expr(lhs, state) { Ok(s) => Ok(s), Err(s) => self.parse_expr(rhs, s) }`: or_else written out
            vs = [hirq.pat_variants(a["pat"]) for a in n["arms"]]
            if sorted(v[0] for v in vs if len(v) == 1) == ["core::result::Result::Err", "core::result::Result::Ok"]:
                erra = next(a for a, v in zip(n["arms"], vs) if v[0].endswith("::Err"))
                eb = peel(erra["body"])
                if not (kind(eb) == "Call" and callee(eb) == "core::result::Result::Err"):
                    visit(n["scrut"], False, True)
                    for a in n["arms"]:
                        visit(a["body"], False, True)
                    return
        if isinstance(n, dict):
            for c in hirq.children(n):
                visit(c, shield, absorbed)
        elif isinstance(n, list):
            for c in n:
                visit(c, shield, absorbed)

    visit(body, False, False)
    return cnt


def unroll(rep, meta, sfx):
    r = rep.rule("C05.UNROLL" + sfx, 4,
                 "the Expr variants for which the conversion to OptimizedExpr is unreachable!() are exactly the "
                 "variants unroller::unroll rewrites away, and unroll's results contain none of them")
    roles = role_fns(meta)
    conv, un = roles["convert"], roles["unroll"]
    if conv is None or un is None:
        r.lost("the Expr->OptimizedExpr conversion / the unrolling pass")
        return
    cm = traverse.enum_matches(conv, EXPR)
    um = traverse.enum_matches(un, EXPR)
    if not cm or not um:
        r.lost("matches on Expr in to_optimized / unroll")
        return
    unreachable = set()
    for arm in cm[0]["arms"]:
        if hirq.diverges(arm["body"]) or arm["body"].get("ty") == "!":
            unreachable |= set(v.split("::")[-1] for v in hirq.pat_variants(arm["pat"]))
        if hirq.pat_is_catchall(arm["pat"]):
            r.violation("conv-wildcard", where(arm["pat"]), "conversion has a wildcard arm: a new Expr variant "
                        "would be silently mis-converted")
    removed = set()
    for arm in um[0]["arms"]:
        vs = set(v.split("::")[-1] for v in hirq.pat_variants(arm["pat"]))
        if not vs:
            continue
        removed |= vs
        built = set(callee(n).split("::")[-1] for n in walk(arm["body"]) if kind(n) == "Call"
                    and isinstance(callee(n), str) and callee(n).startswith(EXPR + "::"))
        for v in vs:
            r.instance("unroll:" + v, where(arm["body"]), "builds %s" % sorted(built))
    for v in sorted(unreachable - removed):
        r.violation("unreachable-not-removed:" + v, where(cm[0]),
                    "to_optimized panics on Expr::%s but unroll does not remove it: a valid grammar using it "
                    "aborts the optimizer" % v)
    for v in sorted(removed - unreachable):
        # The conversion maps this variant to a native operator that both back-ends execute directly.  A
        # desugaring into a sequence is not equivalent to the native operator in a non-atomic rule: `a ~ b`
        # consumes the implicit trivia after `a` even when `b` then matches nothing (`e+` as `e ~ e*` on "e ").
        arms = [a for a in um[0]["arms"] if v in set(x.split("::")[-1] for x in hirq.pat_variants(a["pat"]))]
        seq = [a for a in arms if any(kind(n) == "Call" and callee(n) == EXPR + "::Seq" for n in walk(a["body"]))]
        if seq:
            r.violation("unroll-desugars-native:" + v, where(seq[0]["body"]),
                        "in this configuration the conversion maps Expr::%s to a native OptimizedExpr operator, yet "
                        "unroll rewrites it into a sequence: the sequence consumes implicit WHITESPACE/COMMENT after "
                        "its first part even when the rest matches nothing, the native operator does not" % v)
        else:
            r.note("unroll removes %s, which the conversion could represent" % v)
    for arm in um[0]["arms"]:
        built = set(callee(n).split("::")[-1] for n in walk(arm["body"]) if kind(n) == "Call"
                    and isinstance(callee(n), str) and callee(n).startswith(EXPR + "::"))
        bad = built & unreachable
        if bad and hirq.pat_variants(arm["pat"]):
            r.violation("unroll-reintroduces:" + ",".join(sorted(bad)), where(arm["body"]),
                        "unroll builds %s, which the conversion cannot represent" % sorted(bad))
    # unroll must visit every node: it must be applied through the bottom-up traversal
    # the traversal call is in the function that holds the match, or in the pass function that hands the matching
    # function to the traversal (`expr.map_bottom_up(unroll_expr)`)
    hosts = [un] + [g for g in meta.bodies if g is not un and g.get("body") is not None and not g.get("exp")
                    and "::tests::" not in g["path"] and any(
                        kind(x) == "Path" and x.get("res") == "def" and x.get("path") == un["path"] for x in walk(g["body"]))]
    trav_calls = [callee(n) for h in hosts for n in walk(h["body"]) if kind(n) in ("Call", "MethodCall")]
    if not any(x == EXPR + "::map_bottom_up" or x == EXPR + "::map_top_down" for x in trav_calls):
        r.violation("unroll-not-traversing", where(un["body"]), "unroll is not applied through a generic traversal")
    elif not any(x == EXPR + "::map_bottom_up" for x in trav_calls):
        r.violation("unroll-not-postorder", where(un["body"]),
                    "the pass that eliminates variants runs top-down: a top-down map never re-examines the root of what "
                    "the closure returns, and `e{1}` returns its operand unchanged, so `(\"x\"{2}){1}` keeps a RepExact "
                    "that the conversion declares unreachable (panic on a valid grammar)")
    r.instance("unroll:postorder", where(un["body"]))


PASSES = ["rotator", "skipper", "unroller", "concatenator", "factorizer", "lister"]


def pipeline(rep, meta, sfx):
    r = rep.rule("C05.PIPELINE" + sfx, 8,
                 "optimize() applies each of the six rewriting passes to every rule, converts after unroll, then "
                 "applies the restorer to every converted rule with the map of converted rules")
    fn = meta.fn(OPTIMIZE)
    if fn is None:
        r.lost("optimizer::optimize")
        return
    # collect `.map(X)` links in evaluation order, for each iterator chain
    chains = []
    for n in walk(fn["body"]):
        if kind(n) == "MethodCall" and n["m"] == "collect":
            links = []
            cur = n["recv"]
            while kind(cur) == "MethodCall":
                if cur["m"] == "map":
                    links.append(cur["args"][0])
                cur = cur["recv"]
            links.reverse()
            chains.append((n, links, cur))
    if len(chains) != 2:
        pipeline_by_call_order(r, meta, fn)
        return

    def target(a):
        a = peel(a)
        if kind(a) == "Path" and a.get("res") == "def":
            return a["path"], None
        if kind(a) == "Closure":
            b = peel(a["body"])
            if kind(b) == "Block" and b.get("inlined"):
                # the pass function was inlined into the stage closure (helper-inlined view)
                return b["inlined"], {"k": "Call", "args": hirq.call_like_args(b), "sp": b.get("sp")}
            calls = [x for x in walk(a["body"]) if kind(x) == "Call" and isinstance(callee(x), str)]
            if len(calls) == 1:
                return callee(calls[0]), calls[0]
        return None, None

    order = []
    conv_at = None
    convert = role_fns(meta)["convert"]          # found by role (Rule -> OptimizedRule), wherever it was moved to
    conv_paths = set(["pest_meta::optimizer::rule_to_optimized_rule"] + ([convert["path"]] if convert else []))
    for b in meta.bodies:
        if b["path"].startswith("pest_meta::optimizer::") and not b.get("exp") and b.get("inputs") == ["pest_meta::ast::Rule"] \
                and b.get("output") == "pest_meta::optimizer::OptimizedRule":
            conv_paths.add(b["path"])
    first = chains[0] if line_of(chains[0][0]) < line_of(chains[1][0]) else chains[1]
    second = chains[1] if first is chains[0] else chains[0]
    for i, a in enumerate(first[1]):
        t, _ = target(a)
        if t is None:
            r.violation("unknown-stage:%d" % i, where(a), "pipeline stage not understood")
            continue
        mod = t.split("::")[-2] if "::" in t else t
        order.append(mod if mod in PASSES else t.split("::")[-1])
        if t in conv_paths:
            conv_at = len(order) - 1
    for p in PASSES:
        if p in order:
            r.instance("pass:" + p, where(fn["body"]), "position %d" % order.index(p))
        else:
            r.violation("pass:" + p, where(fn["body"]), "pass %s is not applied to the rules" % p)
    if conv_at is None:
        r.violation("conversion", where(fn["body"]), "conversion to OptimizedRule not found in the chain")
    else:
        r.instance("conversion", where(fn["body"]), "position %d" % conv_at)
        if "unroller" in order and order.index("unroller") > conv_at:
            r.violation("unroll-after-conversion", where(fn["body"]), "unroll runs after the conversion that "
                        "cannot represent bounded repetitions")
        late = [p for p in PASSES if p in order and order.index(p) > conv_at]
        if late:
            r.violation("pass-after-conversion", where(fn["body"]), "passes %s run after conversion" % late)
    r.note("pass order: %s" % order)
    # restorer chain
    ts = [target(a) for a in second[1]]
    rt = [(t, c) for (t, c) in ts if t and "restorer" in t]
    if len(rt) != 1:
        r.violation("restorer", where(second[0]), "the restorer is not applied to every converted rule")
        return
    r.instance("restorer", where(second[0]))
    # both chains run on every path through optimize(): no early exit skips a stage (e.g. "no PUSH, nothing to restore"
    # overlooks PUSH_LITERAL and the built-ins that pop)
    r.instance("every-path", where(fn["body"]))
    for (ev, out) in exits(PathEnum(fn, inline_closures=False).paths()):
        ran = [any(e.kind == "call" and e.node is ch[0] for e in ev) for ch in (first, second)]
        if not all(ran):
            r.violation("every-path", where(fn["body"]), "a path through optimize() returns without running %s: the rules it "
                        "returns lack that stage's guarantees (RestoreOnErr around stack-popping branches)" % (
                            "the rewriting passes" if not ran[0] else "the restorer"))
            break
    call = rt[0][1]
    lets = hirq.lets(fn["body"])
    okmap = False
    if call is not None and len(call["args"]) == 2:
        lid = hirq.local_id(call["args"][1])
        if lid in lets:
            init = peel(lets[lid][0])
            iargs = hirq.call_like_args(init)
            if iargs:
                src = hirq.local_id(iargs[0])
                base = hirq.local_id(second[2]["recv"]) if kind(second[2]) == "MethodCall" else hirq.local_id(second[2])
                okmap = src is not None and src == base and "OptimizedExpr" in call["args"][1].get("ty", "")
    if not okmap:
        r.violation("restorer-map", where(second[0]), "the restorer is not given the map of the converted rules "
                    "it is applied to")


def pipeline_by_call_order(r, meta, fn):
    """The same obligations when optimize() is written with loops and a per-rule helper instead of two iterator chains:
    decided from the order of the pass calls along the paths of optimize() and of the helper(s) it calls, and from the
    threading of each pass's result into the next through lets."""
    convert = role_fns(meta)["convert"]
    conv_paths = set(["pest_meta::optimizer::rule_to_optimized_rule"] + ([convert["path"]] if convert else []))
    # the functions whose bodies spell the pipeline: optimize and private helpers of the optimizer module it calls
    hosts = [fn]
    for (cal, n) in hirq.call_sites(fn["body"]):
        h = meta.fn(cal) if isinstance(cal, str) else None
        if h is not None and h is not fn and h["path"].startswith("pest_meta::optimizer::") and h["path"].count("::") == 2 \
                and h["path"] not in conv_paths and h.get("body") is not None:
            hosts.append(h)

    def stage_of(cal):
        if not isinstance(cal, str) or not cal.startswith("pest_meta::optimizer::"):
            return None
        if cal in conv_paths:
            return "conversion"
        mod = cal.split("::")[2] if cal.count("::") >= 3 else None
        if mod in PASSES:
            return mod
        if mod == "restorer":
            return "restorer"
        return None
    seq = []      # (stage, call node, host) in evaluation order of the first path that runs them
    for h in hosts:
        best = []
        try:
            paths = list(exits(PathEnum(h, inline_closures=True).paths()))
        except hirq.TooManyPaths:
            paths = []
        for (ev, out) in paths:
            cur = [(stage_of(callee(e.node)), e.node, h) for e in ev if e.kind == "call" and stage_of(callee(e.node))]
            if len(cur) > len(best):
                best = cur
        seq.append((h, best))
    flat = []
    for h, best in seq:
        if h is fn:
            continue
        flat += best
    own = [x for (h, best) in seq if h is fn for x in best]
    # order: helper stages are spliced in where optimize() calls the helper; with one helper holding the rewriting
    # passes and optimize() holding the restorer, the helper's stages come first
    order = [s for (s, n, h) in flat + own]
    if not order:
        r.lost("calls of the rewriting passes in optimize() or its helpers")
        return
    for p in PASSES:
        if p in order:
            r.instance("pass:" + p, where(fn["body"]), "position %d" % order.index(p))
        else:
            r.violation("pass:" + p, where(fn["body"]), "pass %s is not applied to the rules" % p)
    if "conversion" not in order:
        r.violation("conversion", where(fn["body"]), "conversion to OptimizedRule not found in the pipeline")
        return
    conv_at = order.index("conversion")
    r.instance("conversion", where(fn["body"]), "position %d" % conv_at)
    if "unroller" in order and order.index("unroller") > conv_at:
        r.violation("unroll-after-conversion", where(fn["body"]), "unroll runs after the conversion that cannot "
                    "represent bounded repetitions")
    late = [p for p in PASSES if p in order and order.index(p) > conv_at]
    if late:
        r.violation("pass-after-conversion", where(fn["body"]), "passes %s run after conversion" % late)
    r.note("pass order (from call order): %s" % order)
    # threading: the rule handed to each pass is the result of the previous one
    prev = None
    for (s, n, h) in flat + own:
        if s == "restorer":
            continue
        args = hirq.call_args(n)
        a0 = peel(args[0]) if args else None
        lets = hirq.lets(h["body"])
        if prev is not None and a0 is not None:
            src = a0
            if kind(src) == "Path" and src.get("res") == "local" and src["id"] in lets:
                src = peel(lets[src["id"]][0])
            if src is not prev[1] and not (kind(src) in ("Call", "MethodCall") and src is prev[1]):
                if not (kind(a0) in ("Call", "MethodCall") and a0 is prev[1]):
                    r.violation("thread:" + s, where(n), "pass %s is not applied to the result of %s" % (s, prev[0]))
        prev = (s, n)
    # every pass call sits in a loop / closure over the rules (or in a helper called from one)
    ctxs = {id(h): hirq.Ctx(h) for h in hosts}
    rest = [(s, n, h) for (s, n, h) in flat + own if s == "restorer"]
    if len(rest) != 1:
        r.violation("restorer", where(fn["body"]), "the restorer is not applied to every converted rule")
        return
    r.instance("restorer", where(rest[0][1]))
    r.instance("every-path", where(fn["body"]))
    s, call, h = rest[0]
    in_loop = any(kind(p) in ("Loop", "Closure") for (p, k, i) in ctxs[id(h)].ancestors(call))
    if not in_loop:
        r.violation("every-path", where(call), "the restorer call is not inside a loop over the converted rules")
    # an early return between the two stages would hand back rules without RestoreOnErr
    for x in hirq.walk_no_closures(fn["body"]):
        if kind(x) == "Ret" and not hirq.is_desugar(x):
            r.violation("every-path", where(x), "a path through optimize() returns early: the rules it returns lack a "
                        "stage's guarantees (RestoreOnErr around stack-popping branches)")
            break
    # the map handed to the restorer is built from the collection of converted rules the loop iterates over
    okmap = False
    if len(hirq.call_args(call)) == 2:
        lets = hirq.lets(h["body"])
        lid = hirq.local_id(hirq.call_args(call)[1])
        if lid in lets and "OptimizedExpr" in str(hirq.call_args(call)[1].get("ty", "")):
            init = peel(lets[lid][0])
            iargs = hirq.call_like_args(init)
            src = hirq.local_id(iargs[0]) if iargs else None
            looped = set()
            for (p, k, i) in ctxs[id(h)].ancestors(call):
                if kind(p) == "Match" and p.get("src") in ("for", "forloop", "ForLoopDesugar") or kind(p) == "Match":
                    for y in walk(p["scrut"]):
                        if kind(y) == "Call" and str(callee(y)).endswith("IntoIterator::into_iter") and y["args"]:
                            z = hirq.local_id(y["args"][0])
                            if z is not None:
                                looped.add(z)
            okmap = src is not None and src in looped
    if not okmap:
        r.violation("restorer-map", where(call), "the restorer is not given the map of the converted rules it is applied to")


def line_of(n):
    return hirq.line(n)


# ------------------------------------------------------------------ WSGUARD

RULETYPE = "pest_meta::ast::RuleType"
NO_IMPLICIT_WS = {"Atomic", "CompoundAtomic"}   # oracle: derive/src/lib.rs "@ atomic", "$ compound atomic"


def ruletype_truth(cond, variants, lets=None, modes=None, depth=0):
    """Set of RuleType variants for which cond CAN be true, or None if cond does not test a RuleType."""
    cond = peel(cond)
    k = kind(cond)
    if k == "Path" and cond.get("res") == "local" and lets and cond["id"] in lets and not (modes or {}).get(cond["id"]) \
            and depth < 4:
        # `let is_atomic = ty == RuleType::Atomic;` tested later
        return ruletype_truth(lets[cond["id"]][0], variants, lets, modes, depth + 1)
    if k == "Unary" and cond["op"] == "!":
        inner = ruletype_truth(cond["e"], variants, lets, modes, depth)
        return None if inner is None else set(variants) - inner
    if k == "Binary" and cond["op"] in ("&&", "||"):
        a, b = ruletype_truth(cond["l"], variants, lets, modes, depth), ruletype_truth(cond["r"], variants, lets, modes, depth)
        if a is None and b is None:
            return None
        if cond["op"] == "&&":
            return (a if a is not None else set(variants)) & (b if b is not None else set(variants))
        if a is None or b is None:
            return set(variants)
        return a | b
    if k == "Binary" and cond["op"] in ("==", "!="):
        for x, y in ((cond["l"], cond["r"]), (cond["r"], cond["l"])):
            y = peel(y)
            if kind(y) == "Path" and y.get("res") == "def" and y.get("path", "").startswith(RULETYPE + "::"):
                s = {y["path"].split("::")[-1]}
                return s if cond["op"] == "==" else set(variants) - s
        return None
    if k == "MethodCall" and cond.get("path") in ("core::cmp::PartialEq::eq", "core::cmp::PartialEq::ne"):
        y = peel(cond["args"][0])
        if kind(y) == "Path" and y.get("path", "").startswith(RULETYPE + "::"):
            s = {y["path"].split("::")[-1]}
            return s if cond["path"].endswith("::eq") else set(variants) - s
        return None
    if k == "Match" and RULETYPE in cond.get("sty", ""):
        out = set()
        remaining = list(variants)
        for arm in cond["arms"]:
            pv = [v.split("::")[-1] for v in hirq.pat_variants(arm["pat"])]
            hit = [v for v in remaining if v in pv] if not hirq.pat_is_catchall(arm["pat"]) else list(remaining)
            val = hirq.lit_value(arm["body"])
            for v in hit:
                remaining.remove(v)
                if val is not False:
                    out.add(v)
        return out
    return None


def wsguard(rep, meta, sfx):
    r = rep.rule("C05.WSGUARD" + sfx, 3,
                 "every rule-type test that enables a rewrite in an optimizer pass can be true only for rule "
                 "types without implicit whitespace (@ and $): rewrites that move or merge sequence elements "
                 "are unsound where WHITESPACE/COMMENT is skipped between them")
    adt = meta.adt(RULETYPE)
    if adt is None:
        r.lost("ast::RuleType")
        return
    for (fn, cnd, ts) in ruletype_guards(meta, adt):
        key = "%s:%s" % (fn["path"].replace("pest_meta::optimizer::", ""), "+".join(sorted(ts)))
        r.instance(key, where(cnd), "rewrite enabled for %s" % sorted(ts))
        if not ts <= NO_IMPLICIT_WS:
            r.violation(key, where(cnd),
                        "the guarded rewrite is enabled for rule types %s, which skip implicit "
                        "WHITESPACE/COMMENT between sequence elements; the pass's rewrites are only "
                        "meaning-preserving for %s" % (sorted(ts - NO_IMPLICIT_WS), sorted(NO_IMPLICIT_WS)))


def ruletype_guards(meta, adt):
    """(fn, condition, set of rule types for which the guarded rewrite runs) for every rule-type test in an
    optimizer pass."""
    variants = [v["name"] for v in adt["variants"]]
    out = []
    for fn in meta.bodies:
        if not fn["path"].startswith("pest_meta::optimizer::") or fn.get("exp"):
            continue
        lets = hirq.lets(fn["body"])
        modes = hirq.binding_modes(fn)

        def identity(b):
            """Does this branch hand back a local unchanged (the 'no rewrite' side of a guard)?"""
            if b is None:
                return True
            leaves = hirq.tail_leaves(b)
            rets = [x["e"] for x in walk(b) if kind(x) == "Ret" and x.get("e") is not None]
            vals = [peel(v) for v in leaves + rets]

            def unchanged(v):
                if kind(v) == "Path" and v.get("res") == "local":
                    return True
                # `Rule { name, ty, expr }`: the pieces put back together as they were taken apart
                return kind(v) == "Struct" and bool(v.get("fields")) and all(
                    kind(peel(f["e"])) == "Path" and peel(f["e"]).get("res") == "local" for f in v["fields"])
            return bool(vals) and all(unchanged(v) for v in vals)
        conds = []
        for x in walk(fn["body"]):
            if kind(x) == "If":
                conds.append((x["cond"], x))
            elif kind(x) == "Match":
                for arm in x["arms"]:
                    if arm.get("guard") is not None:
                        conds.append((arm["guard"], None))
        for (cnd, ifnode) in conds:
            ts = ruletype_truth(cnd, variants, lets, modes)
            if ts is None:
                continue
            if ifnode is not None and identity(ifnode["then"]) and hirq.diverges(ifnode["then"]) \
                    and ifnode.get("else") is None:
                # `if <test> { return expr }` followed by the rewrite: the rewrite runs where the test is false
                ts = set(variants) - ts
            elif ifnode is not None and identity(ifnode["then"]) and ifnode.get("else") is not None \
                    and not identity(ifnode["else"]):
                ts = set(variants) - ts
            out.append((fn, cnd, ts))
    return out


# ------------------------------------------------------------------ ACCUM

def accum(rep, meta, sfx):
    r = rep.rule("C05.ACCUM" + sfx, 1,
                 "a recursive rewrite helper that threads an accumulator by value (the literals collected so far) uses "
                 "it on every path that produces a result: an accumulator dropped on one path loses what was collected")
    n = 0
    for fn in meta.bodies:
        if not fn["path"].startswith("pest_meta::optimizer::") or fn.get("exp"):
            continue
        if not any(callee(x) == fn["path"] for x in walk(fn["body"])):
            continue
        accs = [p for p in fn["params"] if p.get("k") == "PBind" and p.get("ty", "").startswith("alloc::vec::Vec<")]
        if not accs:
            continue
        for acc in accs:
            n += 1
            key = "%s:%s" % (fn["path"].replace("pest_meta::optimizer::", ""), acc["name"])
            r.instance(key, where(fn["body"]))
            pe = PathEnum(fn, inline_closures=False)
            for (ev, out) in exits(pe.paths()):
                v = hirq.path_value(ev)
                vp = peel(v) if v is not None else None
                if vp is not None and kind(vp) == "Path" and vp.get("path") == "core::option::Option::None":
                    continue
                if vp is not None and kind(vp) == "Call" and "from_residual" in str(callee(vp)):
                    continue      # `expr?` bailing out with None / Err: no result is produced on this path
                used = False
                for e in ev:
                    if e.kind in ("call", "struct", "closure", "tail", "ret", "let"):
                        # a by-value hand-over: the accumulator is a direct argument of a call or constructor
                        # (`choices.push(..)` / `.append(..)` only borrow it)
                        for x in walk(e.node):
                            if kind(x) in ("Call", "Struct", "Tup") and any(
                                    kind(peel(a)) == "Path" and peel(a).get("res") == "local" and peel(a)["id"] == acc["id"]
                                    for a in (x.get("args") or x.get("elems") or [f.get("expr") or f.get("e") for f in x.get("fields", [])])
                                    if a is not None):
                                used = True
                                break
                        if used:
                            break
                if not used:
                    r.violation(key, where(v) if v is not None else where(fn["body"]),
                                "a path of %s returns a result without handing on its accumulator `%s`: what earlier "
                                "alternatives contributed is dropped (e.g. `(!('a' | 'b' | kw) ~ ANY)*` becomes a skip "
                                "over kw's literals only)" % (fn["name"], acc["name"]))
                    break
    if n == 0:
        r.note("no accumulator-threading recursive helper in the optimizer")


# ------------------------------------------------------------------ DROPPED

EXPR_ENUMS = ("pest_meta::ast::Expr::", "pest_meta::optimizer::OptimizedExpr::")


def produces_expression(scope):
    """Does this code build or compute an expression (a constructor of Expr / OptimizedExpr, or a call returning one),
    as opposed to just moving / borrowing / cloning pieces of what was matched?"""
    for x in walk(scope):
        if kind(x) not in ("Call", "MethodCall", "Struct"):
            continue
        cal = callee(x) if kind(x) != "Struct" else x.get("path")
        if not isinstance(cal, str):
            if "Expr" in str(x.get("ty", "")):
                return True
            continue
        if cal.startswith(EXPR_ENUMS):
            return True
        if cal.startswith(("core::option::Option::", "alloc::boxed::Box", "core::clone::Clone", "core::ops::deref",
                           "core::convert::", "core::borrow::", "alloc::borrow::")):
            continue
        if "Expr" in str(x.get("ty", "")) or "Rule" in str(x.get("ty", "")):
            return True
    return False


def dropped(rep, meta, sfx):
    r = rep.rule("C05.DROPPED" + sfx, 2,
                 "a rewrite in an optimizer pass never discards an operand unseen: a pattern over an expression variant "
                 "that ignores a payload (`_`, `..`, or a binding that is never read) inside code that produces an "
                 "expression changes what the matched shape means (e.g. `(!p ~ Ident(_))*` -> Skip for any rule, not "
                 "only ANY). Predicates/visitors (bool or unit context) and diverging arms are exempt")
    seen = 0
    for fn in meta.bodies:
        if not fn["path"].startswith("pest_meta::optimizer::") or fn.get("exp") or "::tests::" in fn["path"]:
            continue
        ctx = hirq.Ctx(fn)
        used = set(x["id"] for x in walk(fn["body"]) if kind(x) == "Path" and x.get("res") == "local")
        for p in walk(fn["body"]):
            if kind(p) != "PTupleStruct" or not str(p.get("path", "")).startswith(EXPR_ENUMS):
                continue
            ignored = []
            if "ddpos" in p:
                ignored.append("..")
            for i, q in enumerate(p.get("pats", [])):
                qq = q
                while kind(qq) in ("PRef", "PBox", "PDeref"):
                    qq = qq["pat"]
                if kind(qq) == "PWild":
                    ignored.append("_ (payload %d)" % i)
                elif kind(qq) == "PBind" and not qq.get("sub") and qq["id"] not in used:
                    ignored.append("%s (never read)" % qq["name"])
            if not ignored:
                continue
            seen += 1
            variant = p["path"].split("::")[-1]
            short = fn["path"].replace("pest_meta::optimizer::", "")
            key = "%s:%s" % (short, variant)
            # the code the pattern guards, and the kind of context (closure body or fn) it sits in
            scope = None
            cty = fn.get("output", "")
            for (a, k, i) in ctx.ancestors(p):
                if scope is None and a.get("k") is None and "pat" in a and "body" in a:
                    scope = a["body"]
                if scope is None and a.get("k") == "If" and k == "cond":
                    scope = a["then"]
                if a.get("k") == "Closure":
                    cty = a["body"].get("ty", "")
                    break
            exempt = None
            if scope is not None and hirq.diverges(scope) or (scope is not None and scope.get("ty") == "!"):
                exempt = "the arm diverges"
            elif not any(s in cty for s in ("Expr", "Rule")):
                exempt = "predicate / visitor context (%s)" % (cty or "()")
            elif scope is not None and not produces_expression(scope):
                exempt = "selector: the arm only hands back parts of the matched expression, it builds nothing"
            r.instance(key, where(p), "ignores %s; %s" % (", ".join(ignored), exempt or "REWRITE CONTEXT"))
            if not exempt:
                r.violation(key, where(p),
                            "%s matches %s but ignores %s while producing an expression: the rewrite fires for every "
                            "value of the ignored operand" % (short, variant, ", ".join(ignored)))
    if seen == 0:
        r.note("no ignoring pattern found at all (the positive examples are gone)")


# ------------------------------------------------------------------ MERGED

def merged(rep, meta, sfx):
    r = rep.rule("C05.MERGED" + sfx, 0,
                 "a rewrite does not treat two operators alike: where an optimizer pass builds an expression, the shape it "
                 "matched is one variant, not an or-pattern over variants with different meanings (`e*` | `e+` -> Skip "
                 "accepts the empty run for `+`). Selectors, predicates and visitors are exempt")
    n = 0
    for fn in meta.bodies:
        if not fn["path"].startswith("pest_meta::optimizer::") or fn.get("exp") or "::tests::" in fn["path"] or fn.get("body") is None:
            continue
        ctx = hirq.Ctx(fn)
        for p in walk(fn["body"]):
            if kind(p) != "POr":
                continue
            vs = set()
            for q in p["pats"]:
                for v in hirq.pat_variants(q):
                    if str(v).startswith(EXPR_ENUMS):
                        vs.add(v.split("::")[-1])
            if len(vs) < 2:
                continue
            scope = None
            for (a, k, i) in ctx.ancestors(p):
                if scope is None and a.get("k") is None and "pat" in a and "body" in a:
                    scope = a["body"]
                if scope is None and a.get("k") == "If" and k == "cond":
                    scope = a["then"]
            n += 1
            short = fn["path"].replace("pest_meta::optimizer::", "")
            key = "%s:%s" % (short, "+".join(sorted(vs)))
            builds = scope is not None and produces_expression(scope) and not hirq.diverges(scope)
            r.instance(key, where(p), "builds an expression" if builds else "selector / predicate / visitor")
            if builds:
                r.violation(key, where(p), "%s rewrites %s by one rule: the result cannot depend on which operator was "
                            "matched, but they differ in meaning" % (short, " and ".join(sorted(vs))))
